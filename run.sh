#!/bin/bash
# Single entry point of the verification machinery.
#   ./run.sh setup                       build both harness binaries (warm the build cache)
#   ./run.sh <Cxx> quick|thorough        run the monitor of one property (rebuilds from /repo first)
#   ./run.sh <Cxx> --replay <file>       re-execute one stored case verbosely
set -u
cd "$(dirname "$0")"
VERIF=$(pwd)
unset GOSUMDB
export GOTOOLCHAIN=auto GOFLAGS=-mod=mod GOPROXY=off
export VERIF_REPO=${VERIF_REPO:-/repo}
GO=go
if ! (cd "$VERIF_REPO" && $GO version >/dev/null 2>&1); then
  export GOTOOLCHAIN=local; GO=go1.26
fi
mkdir -p bin evidence/replay evidence/work

modfile() { # harness go.mod pointing at $VERIF_REPO (default: committed go.mod => /repo)
  if [ "$VERIF_REPO" = /repo ]; then echo "-modfile=$VERIF/harness/go.mod"; return; fi
  local d=$VERIF/evidence/work/mod-$(echo "$VERIF_REPO" | md5sum | cut -c1-8)
  mkdir -p "$d"
  sed "s#=> /repo#=> $VERIF_REPO#" harness/go.mod > "$d/go.mod"; cp harness/go.sum "$d/go.sum"
  echo "-modfile=$d/go.mod"
}
build() { # $1 = plain|race
  local mf; mf=$(modfile)
  if [ "$1" = race ]; then
    (cd harness && $GO build $mf -race -tags verif -o "$VERIF/bin/vcheck-race${VERIF_BINSUF:-}" ./cmd/vcheck) || return 1
  else
    (cd harness && $GO build $mf -tags verif -o "$VERIF/bin/vcheck${VERIF_BINSUF:-}" ./cmd/vcheck) || return 1
  fi
}
case "${1:-}" in
  setup) build plain && build race; exit $? ;;
  "") echo "usage: run.sh setup | <Cxx> quick|thorough | <Cxx> --replay file"; exit 2 ;;
esac
PROP=$1; shift
build plain || { echo "BUILD FAILED (harness against $VERIF_REPO)"; exit 2; }
if [ "$PROP" = C20 ]; then build race || { echo "RACE BUILD FAILED"; exit 2; }; fi
exec "$VERIF/bin/vcheck${VERIF_BINSUF:-}" -verif "$VERIF" -prop "$PROP" "$@"
