#!/usr/bin/env python3
"""harvest.py <prop> <stratum> <tag-substring> <finding-id> <n> <summary...>
Adds (or extends) an open exact-input finding in known_findings.json with up to n witnesses taken from
the stored replay files of the last run (smallest cases first). Used by hand during triage only;
checks never write to known_findings.json."""
import json,glob,sys
prop,strat,tag,fid,n=sys.argv[1:6]; n=int(n); summary=' '.join(sys.argv[6:])
path='/verif/known_findings.json'
ff=json.load(open(path))
cands=[]
for f in glob.glob(f'/verif/evidence/replay/{prop}-*.json'):
    d=json.load(open(f))
    if 'case' not in d: continue
    if strat and d.get('stratum')!=strat: continue
    if tag and tag not in d.get('tag',''): continue
    cands.append((len(json.dumps(d['case'])),d['hash'],d['case']))
cands.sort(key=lambda t:(t[0],t[1]))
ent=None
for e in ff['findings']:
    if e['id']==fid: ent=e
if ent is None:
    ent={"id":fid,"property":prop,"status":"open","kind":"exact-input","summary":summary,"witnesses":[]}
    ff['findings'].append(ent)
elif summary: ent['summary']=summary
have={json.dumps(w,sort_keys=True) for w in ent['witnesses']}
added=0
for _,h,c in cands:
    if added>=n: break
    k=json.dumps(c,sort_keys=True)
    if k in have: continue
    ent['witnesses'].append(c); have.add(k); added+=1
json.dump(ff,open(path,'w'),indent=1)
print(f"{fid}: added {added} witnesses (of {len(cands)} candidates), total {len(ent['witnesses'])}")
