#!/bin/bash
# usage: sweep.sh <seed> [tier...]  — runs every claimed check and prints one line per run
seed=${1:-1}; shift
tiers=${@:-quick thorough}
cd /verif
for p in $(jq -r '.checks[].property_id' MANIFEST.json); do
  for t in $tiers; do
    s=$(date +%s)
    VERIF_SEED=$seed ./run.sh $p $t > /tmp/sweep_${p}_${t}_$seed.out 2>&1; code=$?
    nv=$(grep -c '^VIOLATION' /tmp/sweep_${p}_${t}_$seed.out); nk=$(grep -c '^KNOWN-FINDING' /tmp/sweep_${p}_${t}_$seed.out); ni=$(grep -c '^INCONCLUSIVE' /tmp/sweep_${p}_${t}_$seed.out)
    echo "$p $t seed=$seed exit=$code violations=$nv known=$nk inconclusive=$ni $(( $(date +%s)-s ))s :: $(tail -1 /tmp/sweep_${p}_${t}_$seed.out | cut -c1-150)"
  done
done
