#!/bin/bash
# development aid: mut.sh <seeded-name> <prop> <tier> — run one check against /repo HEAD + seeded patch from a
# scratch copy of /verif (keeps /tmp/sr_<name> and /tmp/vm_<name> for repeated use; `mut.sh <name> clean` removes them)
name=$1; wt=/tmp/sr_$name; vm=/tmp/vm_$name
if [ "$2" = clean ]; then rm -rf "$vm"; git -C /repo worktree remove --force "$wt"; exit 0; fi
if [ ! -d "$wt" ]; then git -C /repo worktree add --detach "$wt" HEAD >/dev/null 2>&1; git -C "$wt" apply /verif/seeded/$name/patch.diff || exit 2; fi
mkdir -p "$vm"; rsync -a --delete --exclude evidence --exclude bin --exclude .git --exclude seeded /verif/ "$vm/"
cd "$vm" && VERIF_REPO=$wt ./run.sh $2 $3
