#!/usr/bin/env python3
"""Extracts the literal operand strings of the repository's boolean-operation and settle tests into
harness/mon/corpus/*.txt (run once by hand; the files are committed and embedded in the harness)."""
import re,sys
src=open('/repo/path_intersection_test.go').read()
def func(name):
    i=src.index('func '+name+'(')
    j=src.index('\n}\n',i)
    return src[i:j]
pairs=set()
for f in ['TestPathAnd','TestPathOr','TestPathXor','TestPathNot','TestPathDivideBy']:
    for m in re.finditer(r'^\s*\{"([^"]*)", "([^"]*)", "([^"]*)"\}',func(f),re.M):
        pairs.add((m.group(1),m.group(2)))
for m in re.finditer(r'^\s*\{"([^"]*)", op\w+, "([^"]+)", "([^"]*)"\}',func('TestBentleyOttmannPrecision'),re.M):
    pairs.add((m.group(1),m.group(2)))
singles=set()
for m in re.finditer(r'^\s*\{(\w+), "([^"]*)", "([^"]*)"\}',func('TestPathSettle'),re.M):
    singles.add(m.group(2))
for m in re.finditer(r'^\s*\{"([^"]*)", opSettle, "", "([^"]*)"\}',func('TestBentleyOttmannPrecision'),re.M):
    singles.add(m.group(1))
open('/verif/harness/mon/corpus/bool_pairs.txt','w').write(''.join(f'{p}\t{q}\n' for p,q in sorted(pairs)))
open('/verif/harness/mon/corpus/settle_paths.txt','w').write(''.join(f'{p}\n' for p in sorted(singles)))
print(len(pairs),len(singles))
