#!/usr/bin/env python3
"""pin.py <prop> <stratum> <n> [tier]
Used by hand only. Runs the demoted stratum on the current tree with VERIF_PIN_OUT set, takes n of the
cases on which the property held (smallest hashes first: a PRNG-value-determined choice), and stores them
in /verif/pinned/<prop>.json under the stratum's name. The registered checks replay these cases on every
run (pseudo-stratum pinned:<stratum>); they never write to the file."""
import json,glob,sys,os,subprocess,shutil,tempfile
prop,strat,n=sys.argv[1],sys.argv[2],int(sys.argv[3]); tier=sys.argv[4] if len(sys.argv)>4 else 'quick'
d=tempfile.mkdtemp(prefix='pin_',dir='/verif/evidence/work') if os.path.isdir('/verif/evidence/work') else tempfile.mkdtemp(prefix='pin_')
env=dict(os.environ,VERIF_DEMOTED='1',VERIF_STRATA=strat,VERIF_PIN_OUT=d,VERIF_SEED=os.environ.get('VERIF_SEED','1'))
subprocess.run(['/verif/run.sh',prop,tier],env=env,stdout=subprocess.DEVNULL,stderr=subprocess.DEVNULL)
cases={}
for f in glob.glob(d+'/*.jsonl'):
    for l in open(f):
        try: r=json.loads(l)
        except Exception: continue
        if r['stratum']==strat: cases[r['hash']]=r['case']
shutil.rmtree(d)
path=f'/verif/pinned/{prop}.json'
os.makedirs('/verif/pinned',exist_ok=True)
cur=json.load(open(path)) if os.path.exists(path) else {}
pick=[cases[h] for h in sorted(cases)[:n]]
cur[strat]=pick
json.dump(cur,open(path,'w'),separators=(',',':'))
print(f"{prop} {strat}: {len(cases)} held cases seen, {len(pick)} pinned")
