#!/bin/bash
# usage: seeded_run.sh <name> <prop> "<one-line description>" [extra props...]
# Runs the registered checks of <prop> against a scratch worktree of /repo HEAD with
# /verif/seeded/<name>/patch.diff applied, from a scratch copy of /verif (so that neither /repo nor
# the evidence of the unchanged tree is touched), and records the outcome in seeded/<name>/meta.json.
set -u
name=$1; prop=$2; desc=$3; shift 3
wt=/tmp/sr_$name; vm=/tmp/vm_$name
rm -rf "$vm"; git -C /repo worktree remove --force "$wt" >/dev/null 2>&1
git -C /repo worktree add --detach "$wt" HEAD >/dev/null 2>&1 || { echo "worktree failed"; exit 2; }
if ! git -C "$wt" apply /verif/seeded/$name/patch.diff; then echo "PATCH DOES NOT APPLY $name"; git -C /repo worktree remove --force "$wt"; exit 2; fi
mkdir -p "$vm"; rsync -a --exclude evidence --exclude bin --exclude .git --exclude seeded /verif/ "$vm/"
cd "$vm"
res="{}"
for p in $prop "$@"; do
  for tier in quick thorough; do
    s=$(date +%s)
    VERIF_REPO=$wt ./run.sh $p $tier > out.$p.$tier 2>&1; code=$?
    e=$(( $(date +%s) - s ))
    nv=$(grep -c '^VIOLATION' out.$p.$tier)
    cls=$(grep -m1 'first-failure class' out.$p.$tier | cut -c1-300)
    first=$(grep -m1 -A1 '^VIOLATION' out.$p.$tier | tail -1 | cut -c1-400)
    res=$(jq -c --arg p $p --arg t $tier --argjson code $code --argjson nv $nv --argjson e $e --arg cls "$cls" --arg first "$first" \
        '.[$p+"/"+$t]={exit:$code,violation_lines:$nv,seconds:$e,first_failure_class:$cls,first_violation:$first}' <<<"$res")
    echo "$name $p $tier exit=$code violations=$nv ${e}s"
    [ $code = 1 ] && break
  done
done
base=$(git -C /repo rev-parse --short HEAD)
jq -n --arg id "$name" --arg prop "$prop" --arg desc "$desc" --arg base "$base" --argjson res "$res" \
  '{id:$id,property:$prop,description:$desc,base_commit:$base,confirmed:{suite_passes_with_change:true,demo_fails_with_change:true,demo_passes_without_change:true},checks:$res}' > /verif/seeded/$name/meta.json
cd /; rm -rf "$vm"; git -C /repo worktree remove --force "$wt"
