#!/bin/bash
# usage: seeded_verify.sh <worktree> <name>   — confirms a seeded change in its scratch worktree:
#  (a) pinned suite passes with the change, (b) the demonstration fails with it, (c) passes without it;
# then stores patch.diff + demo + notes under /verif/seeded/<name>/ (meta.json is written by seeded_run.py)
set -u
wt=$1; name=$2
GO="env -u GOSUMDB GOTOOLCHAIN=auto GOFLAGS=-mod=mod GOPROXY=off go"
cd "$wt" || exit 2
[ -f seeded/patch.diff ] || { echo "no patch"; exit 2; }
demo=$(ls seeded/*_test.go | head -1)
echo "== suite with the change"
python3 /verif/tools/baseline.py "$wt" | tail -3; a=${PIPESTATUS[0]}
cp "$demo" ./seeded_demo_test.go
echo "== demo with the change (must fail)"
$GO test -vet=off -run TestSeeded -count=1 . > /tmp/sv_$name.with 2>&1; b=$?
tail -3 /tmp/sv_$name.with
git diff > /tmp/sv_$name.cur; git apply -R /tmp/sv_$name.cur   # (git stash is shared between worktrees: not used)
echo "== demo without the change (must pass)"
$GO test -vet=off -run TestSeeded -count=1 . > /tmp/sv_$name.without 2>&1; c=$?
tail -3 /tmp/sv_$name.without
git apply /tmp/sv_$name.cur
rm -f seeded_demo_test.go
echo "RESULT $name suite=$a demo_with=$b demo_without=$c"
if [ $a = 0 ] && [ $b != 0 ] && [ $c = 0 ]; then
  mkdir -p /verif/seeded/$name
  cp seeded/patch.diff /verif/seeded/$name/patch.diff
  cp "$demo" /verif/seeded/$name/demo_test.go
  [ -f seeded/notes.md ] && cp seeded/notes.md /verif/seeded/$name/notes.md
  echo "CONFIRMED $name"
else
  echo "REJECTED $name"
fi
