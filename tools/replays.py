#!/usr/bin/env python3
"""List replay files: replays.py <prop> [stratum] [tag-substring]"""
import json,glob,sys
prop=sys.argv[1]; strat=sys.argv[2] if len(sys.argv)>2 else ''; tag=sys.argv[3] if len(sys.argv)>3 else ''
for f in sorted(glob.glob(f'/verif/evidence/replay/{prop}-*.json')):
    try: d=json.load(open(f))
    except Exception: continue
    if strat and d.get('stratum')!=strat: continue
    if tag and tag not in d.get('tag',''): continue
    print(f, d.get('stratum'), d.get('tag'))
