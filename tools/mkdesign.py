#!/usr/bin/env python3
"""Regenerates the tables of DESIGN.md section 10 (fix commits, open findings, seeded changes) between
the markers <!-- TABLE:name --> ... <!-- END:name --> from git, known_findings.json and seeded/*/meta.json."""
import json,glob,os,subprocess,re
k=json.load(open('/verif/known_findings.json'))['findings']
fixed={}
for f in k:
    if f['status']=='fixed': fixed.setdefault(f.get('commit',''),[]).append(f)
log=subprocess.run(['git','-C','/repo','log','--reverse','--format=%h\t%s'],capture_output=True,text=True).stdout.strip().split('\n')
fix=['| commit | subject | property | recorded as |','|---|---|---|---|']
for l in log:
    h,s=l.split('\t',1)
    if not s.startswith('fix:'): continue
    es=fixed.get(h,[])
    fix.append(f"| {h} | {s[5:]} | {','.join(sorted({e['property'] for e in es})) or '?'} | {', '.join(e['id'] for e in es) or '—'} |")
op=[f"* **{f['id']}** ({f['property']}, {f['kind']}, {len(f.get('witnesses',[]))} witnesses) — {f['summary']}" for f in k if f['status']=='open']
rows=['| id | property | change | outcome (final monitors) |','|---|---|---|---|']
for d in sorted(glob.glob('/verif/seeded/*')):
    m=os.path.join(d,'meta.json')
    if not os.path.exists(m): continue
    j=json.load(open(m))
    res='; '.join(f"{a}: {'caught' if v['exit']==1 else 'silent'}" for a,v in j['checks'].items())
    mf=os.path.join(d,'meta.first.json')
    if os.path.exists(mf):
        jf=json.load(open(mf))
        res+=' (first attempt: '+'; '.join(f"{a}: {'caught' if v['exit']==1 else 'silent'}" for a,v in jf['checks'].items())+')'
    rows.append(f"| {j['id']} | {j['property']} | {j['description']} | {res} |")
tables={'fixes':'\n'.join(fix),'open':'\n'.join(op),'seeded':'\n'.join(rows)}
p='/verif/DESIGN.md'
s=open(p).read()
for name,body in tables.items():
    s,n=re.subn(r'<!-- TABLE:%s -->.*?<!-- END:%s -->'%(name,name),lambda m:'<!-- TABLE:%s -->\n%s\n<!-- END:%s -->'%(name,body,name),s,flags=re.S)
    assert n==1,name
open(p,'w').write(s)
print('DESIGN.md tables:',len(fix)-2,'fixes,',len(op),'open findings,',len(rows)-2,'seeded changes')
