#!/bin/bash
# usage: seeded_take.sh <Cxx> <suffix> "<description>"  — verify /tmp/wt_<Cxx><suffix>, store as seeded/<Cxx>-<suffix>, remove the worktree, run the checks
set -u
p=$1; suf=$2; desc=$3
/verif/tools/seeded_verify.sh /tmp/wt_$p$suf $p-$suf > /tmp/svlog_$p$suf.txt 2>&1
grep -h "RESULT\|CONFIRMED\|REJECTED" /tmp/svlog_$p$suf.txt
if grep -q CONFIRMED /tmp/svlog_$p$suf.txt; then
  git -C /repo worktree remove --force /tmp/wt_$p$suf
  /verif/tools/seeded_run.sh $p-$suf $p "$desc"
fi
