#!/usr/bin/env python3
"""showfail.py <prop> [stratum] [tag] [n]: print the first messages of stored violations"""
import json,glob,sys
prop=sys.argv[1]; strat=sys.argv[2] if len(sys.argv)>2 else ''; tag=sys.argv[3] if len(sys.argv)>3 else ''; n=int(sys.argv[4]) if len(sys.argv)>4 else 3
k=0
for f in sorted(glob.glob(f'/verif/evidence/replay/{prop}-*.json')):
    d=json.load(open(f))
    if strat and d.get('stratum')!=strat: continue
    if tag and tag not in d.get('tag',''): continue
    print(f); 
    for m in d['msgs'][:3]: print('   ',m[:700])
    k+=1
    if k>=n: break
