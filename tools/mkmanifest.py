#!/usr/bin/env python3
"""Regenerates /verif/MANIFEST.json from the table below (kept next to the text so that the two
cannot drift apart) and validates it against the schema."""
import json,subprocess
ALL=["C%02d"%i for i in range(1,21)]
CHECKS={
 "C01":dict(tech="runtime monitoring: reference-model oracle (exact-sign winding numbers, area laws, grid symmetries) over seeded hostile operand pairs, panic/termination watchdog",
   text="Every And/Or/Xor/Not/DivideBy (plus commuted and symmetric-image variants) of generated operand pairs is executed on the real library and decided pointwise against independent winding numbers of the operands and by area laws; held means: on the explored pairs no decidable sample point, area law or symmetry disagreed and nothing panicked or hung. Exploration, not proof: regions thinner than the point spacing can escape.",
   note="trusted: harness/geom (exact orientation predicate, shoelace area); curved operands are judged against the library's own Flatten(Tolerance) (monitored by C03); strata demoted to fixed witnesses are listed in the evidence (strata_witness_only)", ref="DESIGN.md §5 C01, §10"),
 "C02":dict(tech="runtime monitoring: reference-model oracle (region equality, winding in {0,1}, edge-side orientation test, O(n^2) crossing test, idempotence) over seeded inputs x 4 fill rules",
   text="Settle is run on generated paths under all four fill rules; the output is checked against reference winding numbers of the input (same region), for winding number 0/1 everywhere, winding 1 on the left of every edge, absence of proper crossings, and region/form stability under a second Settle.",
   note="trusted: harness/geom; open sub-paths are excluded (kept open by design, finding F-C02-open)", ref="DESIGN.md §5 C02"),
 "C06":dict(tech="runtime monitoring: reference-model oracle (winding number / ray crossings on a dense independent flattening, signed area) over seeded paths and hostile query points",
   text="Windings, Crossings, Contains (4 rules), CCW and Filling are called on generated closed paths at generic points, points level with vertices, exact boundary points, and compared with independent winding numbers; many hostile point classes fail in the library today and are pinned as exact-input witnesses (see known_findings.json), the rest is explored randomly.",
   note="trusted: harness/geom dense flattening (deviation < 5e-7*scale) and exact-sign winding; demoted strata are listed in the evidence", ref="DESIGN.md §5 C06"),
 "C03":dict(tech="runtime monitoring: reference-model oracle (exact nearest-point distances to an independent curve evaluator, order-preserving vertex matching) over seeded curve classes x tolerances",
   text="Flatten/ReplaceArcs/XMonotone are run on generated paths over 4 decades of tolerance; outputs are checked for structure (commands, sub-paths, end points, closedness), vertices on the curve in curve order, curve within K*t of the polyline (K per segment kind), arc replacement within 2e-3*r, x-monotonicity and geometric identity of XMonotone.",
   note="trusted: harness/geom curve evaluation and golden-section nearest point; K (3 quad, 6 cubic, 1.5 arc) is this monitor's reading of 'small constant multiple'; elliptic arcs get the arc-to-cubic floor added (finding F-C03-ellipse-floor)", ref="DESIGN.md §5 C03"),
 "C07":dict(tech="runtime monitoring: reference-model oracle (own 2x3 matrix arithmetic and arc evaluator; pos'(t) = m*pos(t)) over seeded paths x matrix classes incl. near-singular",
   text="Transform is run on generated paths under matrices composed by the monitor's own arithmetic; every curved segment of the result is compared with the image of the source at 9 parameters (arcs included), end points and command structure exactly; Matrix Mul/Dot/constructors/T/Det/Inv/Decompose/ToSVG are checked against textbook definitions on every case.",
   note="trusted: harness/geom arc evaluation (SVG F.6.5) and the monitor's matrix code; tolerance 1e-6*size, growing linearly with the condition of the matrix beyond 250 (ill-conditioned end-point parametrisation)", ref="DESIGN.md §5 C07"),
 "C08":dict(tech="runtime monitoring: reference-model oracle (extent of a provably dense independent sampling) over seeded paths, plus translation/reflection equivariance",
   text="Bounds and FastBounds of generated paths are compared with the extent of an independent dense sampling (containment, tightness on all four sides, FastBounds contains Bounds) and with their own images under an integer translation and both axis reflections.",
   note="trusted: harness/geom flattening with the chord bound h^2/8*max|P''| < 1e-7*scale; equivariance goes through Path.Transform (C07)", ref="DESIGN.md §5 C08"),
 "C05":dict(tech="runtime monitoring: executable pattern model (cyclic, doubled, shifted dash intervals on independent arc-length tables) compared with the returned pieces; exact nearest-point test that pieces lie on the input",
   text="Dash is run on generated paths x dash arrays x offsets; the returned pieces are matched in order against the on-intervals an independent model of the raw pattern prescribes on reference arc-length tables (start/end points, lengths, count, total, wrap-around join on closed sub-paths), and every piece is tested to lie on the input path.",
   note="trusted: harness/geom arc-length tables and nearest-point search; curved paths are held to 1% of the sub-path length (library's approximate inversion, C09), polylines to 1e-9; a zone next to curved sub-path ends is pinned by witnesses instead of explored (F-C05-end-boundary)", ref="DESIGN.md §5 C05"),
 "C09":dict(tech="runtime monitoring: reference-model oracle (independent arc length, exact-distance two-sided Hausdorff, parametric reversal identity, winding negation) over seeded curve classes x split positions",
   text="Length is compared with an independent arc length (2%), SplitAt pieces with the input (nothing extra, nothing missing, lengths add up, piece count, cut positions), Reverse with the parametric reversal of every segment, preserved length/closedness/direction and negated winding numbers.",
   note="trusted: harness/geom; 'about one percent' read as 2% for Length and 1% of the path length for cut positions; hairpin Béziers and eccentric arcs are pinned by witnesses (Length off by up to 13%)", ref="DESIGN.md §5 C09"),
 "C04":dict(tech="runtime monitoring: distance-field oracle (exact nearest-point distance to the input path vs membership in the returned outline) over seeded paths x widths x 3 caps x 6 joins x limits x tolerances",
   text="Stroke and Offset are run on generated open/closed paths; 72 points per case in a band around the path are classified by their exact distance to the input: closer than w/2 - tol must be filled (except beyond a butt cut / in the wedge of a non-round join), farther than w/2 + tol must not (except within the reach of a miter/arcs join or a square cap); round cap + round join have no exceptions; Offset is decided by the signed distance to the contour.",
   note="trusted: harness/geom nearest-point search and winding numbers; effective tolerance = 8*tol for curved paths (the stroke flattens with the Flatten step formulas, C03) plus the package Tolerance of the final Settle; many input classes fail in the library and are pinned by witnesses (strata_witness_only in the evidence)", ref="DESIGN.md §5 C04"),
 "C10":dict(tech="runtime monitoring: independent validator of Data(), shadow replay of builder histories (reference geometry), 47 public methods under recover/watchdog with bitwise receiver/argument snapshots (sentinel-filled capacity tail)",
   text="Histories of 1-25 builder calls with hostile arguments are executed; the resulting data is validated (decodable both ways, moves, closes, zero-length, arc parameters), compared with a shadow replay of the requested geometry, and 47 queries/derivations are applied under recover with before/after snapshots of receiver, spare capacity and arguments; a second stratum feeds NaN/Inf and only requires the builder not to panic.",
   note="trusted: harness/geom and the validator's reading of the documented Data() layout; the shadow does not follow histories whose outcome is decided by rounding at Epsilon, 1e9-sized coordinates, radius-corrected arcs or MoveTo+Close (pinned finding); panics of deep operations on hostile paths are matched as call-site findings with rate caps", ref="DESIGN.md §5 C10"),
 "C11":dict(tech="runtime monitoring: independent readers of the three emitted syntaxes (SVG path data, PDF path operators, PostScript incl. ellipse/ellipsen) compared parametrically with the source; hostile-input robustness runs of ParseSVGPath/ParseSVG under recover and watchdog",
   text="Generated builder paths are printed with String/ToSVG/ToPDF/ToPS at Precision 8 and 4; the output is read back by independent reference readers (and by ParseSVGPath) and compared with the source at 9 parameters per segment within the precision of the number formats. ParseSVGPath and ParseSVG are fed grammar-based, mutated, whitespace-only, long and random inputs and must return a value or an error without panicking or hanging.",
   note="trusted: harness/refsyn readers (SVG 1.1 path grammar, PDF 32000-1 path operators, Red Book arc/arcn + the PS renderer's ellipse procedures); arc tolerances include the conditioning of the end-point parametrisation (rx/ry)/sqrt(1-lambda)", ref="DESIGN.md §5 C11"),
 "C17":dict(tech="runtime monitoring: exhaustive reference model (all legal breakings of small instances evaluated from the Knuth-Plass definitions) compared with text.Linebreak",
   text="text.Linebreak is run on generated box/glue/penalty sequences with at most 16 legal breakpoints; an independent brute-force search enumerates every legal breaking and the result is checked for legality, forced breaks, completeness, reported widths/ratios, feasibility within [-1,Tolerance], minimal demerits, minimal relaxation of the tolerance and correct overflow reporting.",
   note="trusted: harness/refkp (definitions of the 1981 paper with the library's documented conventions); looseness 0; instances small enough to enumerate", ref="DESIGN.md §5 C17"),
}
NA_REASON="monitor not built yet (work in progress; see DESIGN.md §5)"
m={"version":1,"setup_cmd":"./run.sh setup",
 "hooks":{"guard":"verif","enable":"go build -tags verif (run.sh builds the harness, and through it /repo, with -tags verif)",
  "baseline_off_cmd":"cd /repo && env -u GOSUMDB GOTOOLCHAIN=auto GOFLAGS=-mod=mod GOPROXY=off go test -vet=off -count=1 -timeout 25m ./...",
  "source_commits":[],"add_only":True},
 "engines":[{"name":"vcheck","path":"harness/cmd/vcheck","serves_properties":sorted(CHECKS),"kind_free_text":"Go driver + child-process workers executing the real library under monitors (reference-model oracles, invariant checks, race detector build for C20)"}],
 "checks":[], "not_applicable":[],
 "notes":"All checks: ./run.sh <id> quick|thorough; VERIF_SEED selects the PRNG seed; replay with ./run.sh <id> --replay <file>. Known library defects are in known_findings.json (open: KNOWN-FINDING lines, exit 0; fixed: regression witnesses)."}
try:
    hooks=open('/verif/HOOK_COMMITS').read().split()
    m['hooks']['source_commits']=hooks
except FileNotFoundError: pass
for pid in ALL:
    if pid in CHECKS:
        c=CHECKS[pid]
        m['checks'].append({"property_id":pid,"quick_cmd":f"./run.sh {pid} quick","thorough_cmd":f"./run.sh {pid} thorough",
          "evidence_file":f"/verif/evidence/{pid}.json","replay_cmd_template":f"./run.sh {pid} --replay {{path}}","engine":"vcheck",
          "level_claimed":{"category":"exploration","text":c['text'],"design_ref":c['ref']},"level_note":c['note'],"technique":c['tech']})
    else:
        m['not_applicable'].append({"property_id":pid,"reason":NA_REASON})
json.dump(m,open('/verif/MANIFEST.json','w'),indent=1)
subprocess.run(['python3-vt','-c',"import json,jsonschema;jsonschema.validate(json.load(open('/verif/MANIFEST.json')),json.load(open('/root/.vp/MANIFEST.schema.json')));print('manifest valid')"],check=True)
