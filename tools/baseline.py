#!/usr/bin/env python3
"""Runs the repository's pinned test suite (hooks off) and checks that every test listed as
stable_pass in /root/.vp/BASELINE.json passes. Usage: baseline.py [repo_dir]"""
import json,subprocess,sys,os
args=[a for a in sys.argv[1:] if not a.startswith('--')]
repo=args[0] if args else '/repo'
base=json.load(open('/root/.vp/BASELINE.json'))
stable=set(base['stable_pass'])
env=dict(os.environ); env.pop('GOSUMDB',None)
env.update(GOTOOLCHAIN='auto',GOFLAGS='-mod=mod',GOPROXY='off')
res={}
pkgs=sorted({'.'+t.split('::')[0][len('github.com/tdewolff/canvas'):] for t in stable})
full='--full' in sys.argv
for m in ['.','./tests/latex','./tests/svg']:
    d=os.path.join(repo,m)
    if not os.path.isdir(d): continue
    if not full and m!='.': continue
    # default: only the packages that contain pinned tests (the rest only has to build); --full: ./...
    p=subprocess.run(['go','test','-json','-vet=off','-count=1','-timeout','25m']+(['./...'] if full else pkgs),cwd=d,env=env,capture_output=True,text=True)
    for line in p.stdout.splitlines():
        try: e=json.loads(line)
        except Exception: continue
        if e.get('Action') in('pass','fail','skip') and e.get('Test'):
            res[e['Package']+'::'+e['Test']]=e['Action']
missing=[t for t in stable if res.get(t)!='pass']
print(f"{len(stable)} stable tests, {len(stable)-len(missing)} pass, {len(missing)} not passing")
for t in sorted(missing)[:40]: print("  NOT PASSING:",t,res.get(t))
sys.exit(1 if missing else 0)
