package mon

import (
	"bytes"
	"compress/gzip"
	"encoding/xml"
	"fmt"
	"image"
	"image/color"
	"io"
	"math"
	"os"
	"regexp"
	"sort"
	"strconv"
	"strings"

	"github.com/tdewolff/canvas"
	"github.com/tdewolff/canvas/renderers/pdf"
	"github.com/tdewolff/canvas/renderers/ps"
	"github.com/tdewolff/canvas/renderers/rasterizer"
	"github.com/tdewolff/canvas/renderers/svg"

	"verif/core"
	"verif/geom"
	"verif/refpdf"
	"verif/refsyn"
)

// C12: SVG, PDF and PostScript output encode the drawing the rasterizer renders.
//
// A drawing is recorded on a Canvas and rendered four times. The three vector outputs are read by
// independent interpreters of the respective format (SVG: XML + path grammar + presentation
// attributes; PDF: harness/refpdf + graphics-state machine; PostScript: token interpreter + the
// renderer's ellipse procedures) into a display list of painted primitives in canvas space. At
// sampled pixel centres the paint the display list prescribes (when decided by more than 1.5
// pixels) is compared with the pixel of rasterizer.Draw.

type c12Prim struct {
	fill    []geom.Poly // closed polygons, canvas space (mm, y up)
	rule    int
	line    []geom.Poly // centre lines of a native stroke, canvas space
	hw      float64
	cap     int // 0 butt 1 round 2 square
	join    int // 0 miter 1 round 2 bevel 3 arcs
	limit   float64
	dashes  []float64
	dashOff float64
	col     [4]float64 // non-premultiplied r g b (0..255), alpha 0..1 in col[3]
	grad    bool
	axis    []float64 // linear gradient: start and end of the gradient vector in canvas space
	ramp    []float64 // linear gradient: colour (R,G,B,A of 0..255, not premultiplied) at t = 0, 0.1, ..., 1
	rampErr string    // why the ramp of the output could not be read
	corners []Pt      // image: where its bottom-left, bottom-right, top-right and top-left corners land
	pieces  [][]Pt    // dashes of the stroke as open polylines (or the whole sub-paths when not dashed)
	closed  []bool
	boxes   []geom.Box
	endTol  []float64
	shaky   []Pt // vertices next to a segment far shorter than the stroke width: the join there depends on geometry below the output precision
}

const (
	covOut = iota
	covIn
	covAmb
)

// prepare computes the dash pieces of a native stroke.
func (p *c12Prim) prepare() {
	if p.line == nil {
		return
	}
	period := 0.0
	d := p.dashes
	if len(d)%2 == 1 {
		d = append(append([]float64{}, d...), d...)
	}
	for _, v := range d {
		period += v
	}
	for _, pl := range p.line {
		pts := pl.Pts()
		if len(pts) < 2 {
			continue
		}
		if len(d) == 0 || period <= 0 {
			p.pieces = append(p.pieces, pts)
			p.closed = append(p.closed, pl.Closed)
			p.endTol = append(p.endTol, 0)
			continue
		}
		curved := false
		for _, v := range pl.V {
			if v.T > 1e-12 && v.T < 1-1e-12 {
				curved = true
			}
		}
		cum := make([]float64, len(pts))
		for k := 1; k < len(pts); k++ {
			cum[k] = cum[k-1] + pts[k-1].Dist(pts[k])
		}
		total := cum[len(pts)-1]
		at := func(sv float64) (Pt, int) { // point at arc length sv and the index of the first vertex beyond it
			k := sort.SearchFloat64s(cum, sv)
			if k <= 0 {
				return pts[0], 1
			}
			if k >= len(pts) {
				return pts[len(pts)-1], len(pts)
			}
			if cum[k] == cum[k-1] {
				return pts[k], k
			}
			return pts[k-1].Lerp(pts[k], (sv-cum[k-1])/(cum[k]-cum[k-1])), k
		}
		// walk the pattern from -offset
		pos := -math.Mod(p.dashOff, period)
		if pos > 0 {
			pos -= period
		}
		for i := 0; pos < total; i++ {
			l := d[i%len(d)]
			if i%2 == 0 && pos+l > 0 && l > 0 {
				a, b := math.Max(pos, 0), math.Min(pos+l, total)
				pa, ka := at(a)
				pb, kb := at(b)
				piece := []Pt{pa}
				for k := ka; k < kb && k < len(pts); k++ {
					if cum[k] > a && cum[k] < b {
						piece = append(piece, pts[k])
					}
				}
				piece = append(piece, pb)
				p.pieces = append(p.pieces, piece)
				p.closed = append(p.closed, false)
				if curved {
					p.endTol = append(p.endTol, 0.02*total)
				} else {
					p.endTol = append(p.endTol, 1e-7*(1+total)) // dashes of polylines are placed exactly
				}
			}
			pos += l
			if i > 200000 {
				break
			}
		}
	}
}

func (p *c12Prim) makeBoxes() {
	p.boxes = p.boxes[:0]
	p.shaky = p.shaky[:0]
	for _, pc := range p.pieces {
		for i := 0; i+1 < len(pc); i++ {
			if l := pc[i].Dist(pc[i+1]); l > 0 && l < 0.01*p.hw {
				p.shaky = append(p.shaky, pc[i])
			}
		}
	}
	for _, pc := range p.pieces {
		b := geom.EmptyBox()
		for _, v := range pc {
			b = b.Add(v)
		}
		p.boxes = append(p.boxes, b)
	}
}

func distPolyline(q Pt, pts []Pt) (d float64, endDist float64) {
	d = math.Inf(1)
	var near Pt
	if len(pts) == 1 {
		return q.Dist(pts[0]), 0
	}
	for i := 0; i+1 < len(pts); i++ {
		a, b := pts[i], pts[i+1]
		ab := b.Sub(a)
		t := 0.0
		if l2 := ab.Dot(ab); l2 > 0 {
			t = math.Min(1, math.Max(0, q.Sub(a).Dot(ab)/l2))
		}
		n := a.Add(ab.Mul(t))
		if v := q.Dist(n); v < d {
			d, near = v, n
		}
	}
	// distance of the nearest point from the ends of the polyline
	return d, math.Min(near.Dist(pts[0]), near.Dist(pts[len(pts)-1]))
}

// cover decides whether q (canvas space) is painted by the primitive; mg is the margin in mm.
func (p *c12Prim) cover(q Pt, mg float64) int {
	if p.fill != nil {
		if geom.DistPtPolys(q, p.fill) <= mg {
			return covAmb
		}
		w := geom.Winding(q, p.fill)
		if (p.rule == 0 && w != 0) || (p.rule == 1 && w%2 != 0) {
			return covIn
		}
		return covOut
	}
	reach := 1.0
	if p.join == 0 || p.join == 3 {
		reach = math.Max(reach, p.limit)
	}
	if p.cap == 2 {
		reach = math.Max(reach, math.Sqrt2)
	}
	res := covOut
	far := p.hw*reach + mg
	for k, pc := range p.pieces {
		if bx := p.boxes[k]; q.X < bx.X0-far || q.X > bx.X1+far || q.Y < bx.Y0-far || q.Y > bx.Y1+far {
			continue
		}
		d, endDist := distPolyline(q, pc)
		if d > far {
			continue
		}
		// the library places dash ends within about two percent of the sub-path length (C05/C09): near the
		// end of a dash nothing is decided
		if p.endTol[k] > 1e-3 && endDist < mg+p.endTol[k]+p.hw*reach {
			res = covAmb
			continue
		}
		// a join next to a segment of a hundredth of the half width (e.g. the 2 micrometre line a PostScript
		// arc prepends when its computed start misses the current point) is not decided beyond the band
		// (a bevel or a limited mitre leaves part of the wedge between the two segments unpainted at any
		// distance from the vertex, so that inside the band only "painted" is a verdict there)
		nearShaky := false
		for _, v := range p.shaky {
			if q.Dist(v) < far {
				nearShaky = true
				break
			}
		}
		if nearShaky && (d > p.hw-mg || (!p.closed[k] && endDist < 0.02*p.hw)) {
			res = covAmb
			continue
		}
		// exact region of the stroke (segment rectangles, joins, caps), decided when it is constant over the
		// margin disc around q
		allIn, anyIn := true, false
		for s := 0; s < 9; s++ {
			pt := q
			if s > 0 {
				ang := float64(s-1) * math.Pi / 4
				pt = Pt{X: q.X + mg*math.Cos(ang), Y: q.Y + mg*math.Sin(ang)}
			}
			lo := p.strokeHas(pt, pc, p.closed[k], false)
			hi := lo || ((p.join == 3 || p.join == 0) && p.strokeHas(pt, pc, p.closed[k], true))
			allIn = allIn && lo
			anyIn = anyIn || hi
		}
		if allIn {
			return covIn
		}
		if anyIn || nearShaky {
			res = covAmb
		}
	}
	return res
}

func triHas(q, a, b, c Pt) bool {
	d1, d2, d3 := b.Sub(a).Cross(q.Sub(a)), c.Sub(b).Cross(q.Sub(b)), a.Sub(c).Cross(q.Sub(c))
	neg := d1 < 0 || d2 < 0 || d3 < 0
	pos := d1 > 0 || d2 > 0 || d3 > 0
	return !(neg && pos)
}

// strokeHas reports whether q lies in the stroke of the polyline pc with the primitive's width, join
// and cap, as PDF 8.4.3.3-5, SVG 11.4 and the PostScript Red Book define them. For the arcs join the
// lower reading (upper=false) is the bevel, the upper reading the mitre up to the limit.
func (p *c12Prim) strokeHas(q Pt, pc []Pt, closed bool, upper bool) bool {
	hw := p.hw
	n := len(pc)
	dir := func(a, b Pt) (Pt, float64) {
		v := b.Sub(a)
		l := v.Len()
		if l == 0 {
			return Pt{}, 0
		}
		return v.Mul(1 / l), l
	}
	// segments
	type sg struct {
		a, b Pt
		d    Pt
		l    float64
	}
	var segs []sg
	for i := 0; i+1 < n; i++ {
		d, l := dir(pc[i], pc[i+1])
		if l == 0 {
			continue
		}
		segs = append(segs, sg{pc[i], pc[i+1], d, l})
		t := q.Sub(pc[i]).Dot(d)
		sp := d.Cross(q.Sub(pc[i]))
		if t >= 0 && t <= l && math.Abs(sp) <= hw {
			return true
		}
	}
	if len(segs) == 0 {
		return p.cap == 1 && n > 0 && q.Dist(pc[0]) <= hw
	}
	join := func(v Pt, d0, d1 Pt) bool {
		cr := d0.Cross(d1)
		if p.join == 1 {
			return q.Dist(v) <= hw
		}
		if math.Abs(cr) < 1e-12 {
			return false
		}
		// outer side: right-hand normals for a left turn
		sgn := 1.0
		if cr < 0 {
			sgn = -1
		}
		n0 := Pt{X: d0.Y * sgn, Y: -d0.X * sgn}
		n1 := Pt{X: d1.Y * sgn, Y: -d1.X * sgn}
		A, B := v.Add(n0.Mul(hw)), v.Add(n1.Mul(hw))
		if triHas(q, v, A, B) {
			return true
		}
		if p.join == 2 || (p.join == 3 && !upper) {
			return false
		}
		// mitre: ratio of mitre length to width = 1/cos(phi/2), phi the turning angle
		cosPhi := math.Max(-1, math.Min(1, d0.Dot(d1)))
		cosHalf := math.Sqrt((1 + cosPhi) / 2)
		// a mitre whose ratio is within 5% of the limit may or may not be bevelled (the direction of the last
		// chord of a flattened curve decides): lower reading bevel, upper reading mitre
		lim := p.limit * 0.95
		if upper {
			lim = p.limit * 1.05
		}
		if cosHalf <= 0 || 1/cosHalf > lim {
			return false
		}
		bis := n0.Add(n1)
		if bl := bis.Len(); bl > 0 {
			tip := v.Add(bis.Mul(hw / cosHalf / bl))
			return triHas(q, A, tip, B)
		}
		return false
	}
	for i := 0; i+1 < len(segs); i++ {
		if join(segs[i].b, segs[i].d, segs[i+1].d) {
			return true
		}
	}
	if closed {
		return join(segs[0].a, segs[len(segs)-1].d, segs[0].d)
	}
	// caps
	first, last := segs[0], segs[len(segs)-1]
	switch p.cap {
	case 1:
		return q.Dist(first.a) <= hw || q.Dist(last.b) <= hw
	case 2:
		t := q.Sub(first.a).Dot(first.d)
		if t <= 0 && t >= -hw && math.Abs(first.d.Cross(q.Sub(first.a))) <= hw {
			return true
		}
		t = q.Sub(last.b).Dot(last.d)
		return t >= 0 && t <= hw && math.Abs(last.d.Cross(q.Sub(last.b))) <= hw
	}
	return false
}

// ---- case ----------------------------------------------------------------------------------------

type c12Draw struct {
	// GStops: the stops of the linear gradient fill as offset, R, G, B, A quintuples (nil: red to blue)
	GStops []float64 `json:",omitempty"`
	c14Draw
	Dashes  []float64
	DashOff float64
	JoinX   int // 0 miter(4) 1 bevel 2 round 3 arcs 4 miter-clip 5 miter limit 2
	SGrad   bool
	Img     []int   `json:",omitempty"` // an image of this many pixels is drawn instead of the path
	Res     float64 `json:",omitempty"` // its resolution in px/mm
}

type c12Case struct {
	W, H    float64
	DPMM    float64
	Sys     int
	Draws   []c12Draw
	PDFComp bool
	EPS     bool
	// SVG back-end options: gzip level (0 = none) and the unit of the width/height attributes
	SVGComp  int    `json:",omitempty"`
	SVGUnits string `json:",omitempty"`
	Kind     string
}

func c12SVGOptions(c *c12Case, r *core.Rng) {
	if r.Chance(0.3) {
		c.SVGComp = core.PickI(r, []int{1, 6, 9, -1, 42})
	}
	if r.Chance(0.3) {
		c.SVGUnits = core.PickS(r, []string{"px", "pt", "cm", "in"})
	}
}

var c12Joins = []canvas.Joiner{canvas.MiterJoin, canvas.BevelJoin, canvas.RoundJoin, canvas.ArcsJoin, canvas.MiterClipJoin, canvas.MiterJoiner{GapJoiner: canvas.BevelJoin, Limit: 2}}

// genC12State: several stroked spiky polygons in a row whose stroke parameters repeat and alternate,
// so that the graphics-state caches of the PDF and PostScript writers decide what is emitted.
func genC12State(r *core.Rng) any {
	for {
		c := &c12Case{W: r.Range(30, 60), H: r.Range(30, 60), DPMM: 5, Sys: r.Intn(4), PDFComp: r.Bool(), EPS: r.Bool(), Kind: "state"}
		n := r.IntRange(3, 5)
		widths := []float64{r.Range(0.3, 1.2), r.Range(0.3, 1.2)}
		cols := [][]int{{r.Intn(256), r.Intn(256), r.Intn(256), 255}, {r.Intn(256), r.Intn(256), r.Intn(256), 255}}
		for k := 0; k < n; k++ {
			size := r.Range(8, 14)
			var pts []Pt
			nv := r.IntRange(3, 6)
			a0 := r.Range(0, 2*math.Pi)
			for v := 0; v < 2*nv; v++ { // star with sharp tips: 10-40 degree corners
				rad := size
				if v%2 == 1 {
					rad = size * r.Range(0.15, 0.35)
				}
				ang := a0 + float64(v)*math.Pi/float64(nv)
				pts = append(pts, Pt{X: rad * math.Cos(ang), Y: rad * math.Sin(ang)})
			}
			p := &canvas.Path{}
			if r.Bool() {
				addPoly(p, pts)
			} else {
				addOpenPoly(p, pts)
			}
			d := c12Draw{c14Draw: c14Draw{Data: dataCopy(p), X: c.W * r.Range(0.3, 0.7), Y: c.H * r.Range(0.3, 0.7), Stroke: cols[r.Intn(2)], Width: widths[r.Intn(2)], Cap: r.Intn(3), Z: 0, Shape: "poly", Size: size}}
			d.JoinX = core.PickI(r, []int{0, 0, 1, 2, 5, 5})
			if r.Chance(0.4) {
				d.Fill = append([]int(nil), cols[r.Intn(2)]...)
				if r.Chance(0.4) {
					d.Fill[3] = 128 // translucent fill under an opaque stroke: two alphas in one draw
				}
			}
			if r.Chance(0.3) {
				d.Dashes = []float64{core.PickF(r, []float64{2, 3}), 1}
			}
			if k > 0 && r.Chance(0.3) {
				// exactly the style of the previous draw: nothing may be left out because it "is cached"
				pv := c.Draws[k-1]
				d.Fill, d.Stroke, d.Width, d.Cap, d.JoinX, d.Dashes = pv.Fill, pv.Stroke, pv.Width, pv.Cap, pv.JoinX, pv.Dashes
			}
			if r.Chance(0.3) {
				s := r.Range(0.7, 1.4)
				rot := affR(r.Range(-180, 180))
				m := aff{rot[0] * s, rot[1] * s, 0, rot[3] * s, rot[4] * s, 0}
				d.View = m[:]
			}
			c.Draws = append(c.Draws, d)
		}
		cc := &c14Case{W: c.W, H: c.H, DPMM: c.DPMM, Sys: c.Sys}
		for _, d := range c.Draws {
			cc.Draws = append(cc.Draws, d.c14Draw)
		}
		if !c14CrossesTopLeft(cc) {
			c12SVGOptions(c, r)
			return c
		}
	}
}

// genC12StateImage: the state stratum with raster images between the draws and fills that alternate
// between translucent and opaque: a writer that saves and restores the graphics state around an image
// must not believe afterwards that what it set inside is still in force.
func genC12StateImage(r *core.Rng) any {
	c := genC12State(r).(*c12Case)
	c.Kind = "state-image"
	var out []c12Draw
	for k, d := range c.Draws {
		if d.Fill == nil && r.Chance(0.6) {
			d.Fill = []int{r.Intn(256), r.Intn(256), r.Intn(256), 255}
		}
		if d.Fill != nil {
			d.Fill = append([]int(nil), d.Fill...)
			d.Fill[3] = core.PickI(r, []int{255, 255, 128, 64})
		}
		if r.Chance(0.5) {
			d.Stroke = nil
			if d.Fill == nil {
				d.Fill = []int{r.Intn(256), r.Intn(256), r.Intn(256), core.PickI(r, []int{255, 128})}
			}
		}
		out = append(out, d)
		if k < len(c.Draws)-1 && r.Chance(0.6) {
			img := c12Draw{c14Draw: c14Draw{X: c.W * r.Range(0.05, 0.2), Y: c.H * r.Range(0.05, 0.2), Z: 0, Shape: "image", Size: 3}}
			img.Img = []int{r.IntRange(2, 5), r.IntRange(2, 5)}
			img.Res = core.PickF(r, []float64{1, 2})
			out = append(out, img)
		}
	}
	c.Draws = out
	return c
}

func genC12(kind string) func(r *core.Rng) any {
	return func(r *core.Rng) any {
		for {
			b := genC14Once("mixed", r)
			if kind == "defaults" && r.Bool() {
				b = genC14Once("rule", r) // shapes on which the fill rules differ
			}
			if kind == "selfx-stroke" {
				b = genC14Once("rule", r)
				for i := range b.Draws {
					if b.Draws[i].Stroke == nil {
						b.Draws[i].Stroke = []int{r.Intn(256), r.Intn(256), r.Intn(256), 255}
						b.Draws[i].Width = r.Range(0.3, 2)
						b.Draws[i].Cap, b.Draws[i].Join = 1, 2
					}
				}
			}
			c := &c12Case{W: b.W, H: b.H, DPMM: b.DPMM, Sys: b.Sys, PDFComp: r.Bool(), EPS: r.Bool(), Kind: kind}
			for _, d := range b.Draws {
				x := c12Draw{c14Draw: d}
				x.Grad = false
				if x.Fill != nil && kind != "ps" {
					x.Grad = r.Chance(0.1)
				}
				if kind == "ps" { // PostScript has no transparency
					if x.Fill != nil {
						x.Fill[3] = 255
					}
					if x.Stroke != nil {
						x.Stroke[3] = 255
					}
				}
				if (kind == "mixed" || kind == "ps" || kind == "similar") && r.Chance(0.15) {
					x.Img = []int{r.IntRange(2, 7), r.IntRange(2, 7)}
					x.Res = core.PickF(r, []float64{0.5, 1, 2, r.Range(0.3, 3)})
					x.Stroke, x.Fill = nil, nil
				}
				if kind == "gradients" && x.Fill != nil && len(c.Draws) == 0 && r.Chance(0.4) {
					// the first draw keeps a plain translucent fill: the gradients after it must not inherit
					// its opacity
					x.Fill = []int{r.Intn(256), r.Intn(256), r.Intn(256), core.PickI(r, []int{128, 64})}
					x.Grad, x.Stroke = false, nil
				} else if kind == "gradients" && x.Fill != nil {
					// linear gradients of 2-5 stops; the first may lie after 0 and the last before 1
					x.Grad = true
					n := r.IntRange(2, 5)
					offs := make([]float64, n)
					for i := range offs {
						offs[i] = math.Round(r.Range(0, 1)*100) / 100
					}
					sort.Float64s(offs)
					if r.Chance(0.6) {
						offs[0] = 0
					}
					if r.Chance(0.6) {
						offs[n-1] = 1
					}
					for i := 1; i < n; i++ { // strictly increasing (what Add does with equal offsets is not a subject here)
						if offs[i] < offs[i-1]+0.01 {
							offs[i] = math.Round((offs[i-1]+0.05)*100) / 100 // two decimals: no offsets an ulp apart
						}
						if offs[i] > 1 {
							n = i
							break
						}
					}
					x.GStops = nil
					for i := 0; i < n; i++ {
						x.GStops = append(x.GStops, offs[i], float64(r.Intn(256)), float64(r.Intn(256)), float64(r.Intn(256)), 255)
					}
				}
				if kind == "defaults" {
					// the values a back-end may leave out because they are its format's defaults: opaque black
					// and white paints, width 1
					if x.Fill != nil && r.Chance(0.6) {
						x.Fill = core.PickI2(r, [][]int{{0, 0, 0, 255}, {0, 0, 0, 255}, {255, 255, 255, 255}, {0, 0, 0, 128}})
					}
					if x.Fill != nil && x.Stroke == nil && r.Chance(0.5) {
						x.Stroke = []int{r.Intn(256), r.Intn(256), r.Intn(256), 255}
						x.Width = r.Range(0.3, 2)
					}
					if x.Stroke != nil && r.Chance(0.4) {
						x.Stroke = core.PickI2(r, [][]int{{0, 0, 0, 255}, {255, 255, 255, 255}})
					}
					if x.Stroke != nil && r.Chance(0.3) {
						x.Width = 1
					}
				}
				if x.Stroke != nil && x.Shape == "selfx" && kind != "selfx-stroke" {
					// strokes of closed self-crossing contours lose lobes in Path.Stroke (finding F-C04-closed-selfx),
					// which the rasterizer and the fall-back outlines inherit: stratum selfx-stroke only
					x.Stroke = nil
					if x.Fill == nil {
						x.Fill = []int{r.Intn(256), r.Intn(256), r.Intn(256), 255}
					}
				}
				if x.Stroke != nil {
					// strokes wider than the features of the shape run into the open C04 findings (closed-wide,
					// wide-curves, sharp); C12 is about the encoding, so widths stay below a tenth of the shape
					x.Width = math.Min(x.Width, math.Max(0.08*x.Size, 0.15))
					x.JoinX = core.PickI(r, []int{0, 1, 2, 2, 2, 3, 4, 5})
					x.Cap = core.PickI(r, []int{0, 1, 1, 2})
					if kind == "dash" || r.Chance(0.3) {
						n := r.IntRange(1, 4)
						for k := 0; k < n; k++ {
							x.Dashes = append(x.Dashes, core.PickF(r, []float64{1, 2, 3, 0.5, r.Range(0.3, 5)}))
						}
						if r.Chance(0.15) {
							x.Dashes[0] = 0
						}
						x.DashOff = core.PickF(r, []float64{0, 0, 1, -1.5, r.Range(-6, 6)})
					}
				}
				if kind == "nearsim" && x.Img == nil {
					if x.Stroke == nil {
						x.Stroke = []int{r.Intn(256), r.Intn(256), r.Intn(256), 255}
						x.Cap = r.Intn(3)
					}
					x.Width = math.Max(0.1*x.Size, 0.4) // wide enough for the anisotropy of the outline to show
					x.JoinX = core.PickI(r, []int{0, 1, 2})
					x.Dashes, x.DashOff = nil, 0
				}
				if kind == "nearsim" {
					// views that look like similarities to a careless test: a non-uniform scale followed by a
					// rotation of an odd multiple of 45 degrees (rows of equal length, columns orthogonal), its
					// transpose (columns of equal length, rows orthogonal), shears that keep one of the two
					// conditions; and true similarities among them
					sx, sy := r.Range(0.5, 2), r.Range(0.5, 2)
					if math.Abs(sx-sy) < 0.2 {
						sy = sx * 1.6
					}
					rot45 := affR(45 + 90*float64(r.Intn(4)))
					var m aff
					switch r.Intn(5) {
					case 0:
						m = rot45.mul(affS(sx, sy))
					case 1:
						m = affS(sx, sy).mul(rot45)
					case 2:
						m = aff{sx, sx * 0.7, 0, 0, sx, 0} // shear with equal diagonal
					case 3:
						m = affR(r.Range(-180, 180)).mul(affS(sx, -sx)) // a reflection: a similarity
					default:
						m = affR(r.Range(-180, 180)).mul(affS(sx, sx))
					}
					x.View = m[:]
				}
				if kind == "similar" && x.View != nil {
					// similarity views keep strokes native
					s := r.Range(0.5, 2)
					rot := affR(r.Range(-180, 180))
					m := aff{rot[0] * s, rot[1] * s, 0, rot[3] * s, rot[4] * s, 0}
					if r.Chance(0.3) {
						m = m.mul(affS(1, -1))
					}
					x.View = m[:]
				}
				c.Draws = append(c.Draws, x)
			}
			cc := &c14Case{W: c.W, H: c.H, DPMM: c.DPMM, Sys: c.Sys}
			for _, d := range c.Draws {
				cc.Draws = append(cc.Draws, d.c14Draw)
			}
			if !c14CrossesTopLeft(cc) {
				c12SVGOptions(c, r)
				return c
			}
		}
	}
}

// c12Ramp samples a gradient given by stops (offset, colour) at t = 0, 0.1, ..., 1: linear interpolation
// between neighbouring stops, the first and last colour outside them (SVG 1.1 13.2.4, PDF 8.7.4.5.3).
func c12Ramp(offs []float64, cols [][4]float64) []float64 {
	var out []float64
	if len(offs) == 0 {
		return nil
	}
	for k := 0; k <= 10; k++ {
		t := float64(k) / 10
		var c [4]float64
		switch {
		case t <= offs[0]:
			c = cols[0]
		case t >= offs[len(offs)-1]:
			c = cols[len(cols)-1]
		default:
			for i := 0; i+1 < len(offs); i++ {
				if t >= offs[i] && t <= offs[i+1] {
					u := 0.0
					if offs[i+1] > offs[i] {
						u = (t - offs[i]) / (offs[i+1] - offs[i])
					}
					for j := 0; j < 4; j++ {
						c[j] = cols[i][j] + u*(cols[i+1][j]-cols[i][j])
					}
					break
				}
			}
		}
		out = append(out, c[0], c[1], c[2], c[3])
	}
	return out
}

// c12PDFFunction evaluates a PDF function of type 2 (exponential, N = 1) or 3 (stitching) at t.
func c12PDFFunction(f *refpdf.File, fn any, t float64) ([]float64, error) {
	d, ok := f.Resolve(fn).(refpdf.Dict)
	if !ok {
		return nil, fmt.Errorf("the function is not a dictionary")
	}
	num := func(v any) float64 { x, _ := refpdf.Num(v); return x }
	arr := func(k string) []float64 {
		a, _ := f.Resolve(d[refpdf.Name(k)]).(refpdf.Array)
		var out []float64
		for _, e := range a {
			out = append(out, num(e))
		}
		return out
	}
	dom := arr("Domain")
	if len(dom) != 2 {
		return nil, fmt.Errorf("function without a Domain of two numbers")
	}
	t = math.Max(dom[0], math.Min(dom[1], t))
	switch int(num(d["FunctionType"])) {
	case 2:
		c0, c1 := arr("C0"), arr("C1")
		if len(c0) != len(c1) || len(c0) == 0 {
			return nil, fmt.Errorf("exponential function with C0 %v and C1 %v", c0, c1)
		}
		u := math.Pow(t, num(d["N"]))
		out := make([]float64, len(c0))
		for i := range c0 {
			out[i] = c0[i] + u*(c1[i]-c0[i])
		}
		return out, nil
	case 3:
		fs, _ := f.Resolve(d["Functions"]).(refpdf.Array)
		bounds, enc := arr("Bounds"), arr("Encode")
		if len(fs) == 0 || len(bounds) != len(fs)-1 || len(enc) != 2*len(fs) {
			return nil, fmt.Errorf("stitching function with %d functions, %d bounds (needs %d) and %d encode values (needs %d)", len(fs), len(bounds), len(fs)-1, len(enc), 2*len(fs))
		}
		lo := dom[0]
		for i := range bounds {
			if bounds[i] < lo || bounds[i] > dom[1] {
				return nil, fmt.Errorf("stitching function bounds %v are not increasing within the domain %v", bounds, dom)
			}
			lo = bounds[i]
		}
		k := 0
		for k < len(bounds) && t >= bounds[k] {
			k++
		}
		a, b := dom[0], dom[1]
		if k > 0 {
			a = bounds[k-1]
		}
		if k < len(bounds) {
			b = bounds[k]
		}
		u := enc[2*k]
		if b > a {
			u = enc[2*k] + (t-a)/(b-a)*(enc[2*k+1]-enc[2*k])
		}
		return c12PDFFunction(f, fs[k], u)
	}
	return nil, fmt.Errorf("function type %v", d["FunctionType"])
}

// c12Canvas records the drawing.
func c12Canvas(c *c12Case) *canvas.Canvas {
	cv := canvas.New(c.W, c.H)
	ctx := canvas.NewContext(cv)
	ctx.SetCoordSystem(canvas.CoordSystem(c.Sys))
	for k := range c.Draws {
		d := &c.Draws[k]
		view := affI
		if d.View != nil {
			var v aff
			copy(v[:], d.View)
			view = affAbout(v, d.X, d.Y)
		}
		ctx.SetZIndex(d.Z)
		ctx.SetView(view.lib())
		ctx.SetFill(nil)
		ctx.SetStroke(nil)
		if d.Fill != nil {
			if d.Grad {
				g := canvas.NewLinearGradient(canvas.Point{X: 0, Y: 0}, canvas.Point{X: c.W, Y: c.H})
				if d.GStops == nil {
					g.Add(0, canvas.Red)
					g.Add(1, canvas.Blue)
				}
				for i := 0; i+4 < len(d.GStops); i += 5 {
					g.Add(d.GStops[i], color.RGBA{uint8(d.GStops[i+1]), uint8(d.GStops[i+2]), uint8(d.GStops[i+3]), 255})
				}
				ctx.SetFillGradient(g)
			} else {
				ctx.SetFillColor(nrgba(d.Fill))
			}
		}
		if d.Stroke != nil {
			ctx.SetStrokeColor(nrgba(d.Stroke))
			ctx.SetStrokeWidth(d.Width)
			ctx.SetStrokeCapper(c14Caps[d.Cap])
			ctx.SetStrokeJoiner(c12Joins[d.JoinX])
			ctx.SetDashes(d.DashOff, d.Dashes...)
		}
		ctx.SetFillRule(canvas.FillRule(d.Rule))
		if d.Img != nil {
			img := image.NewRGBA(image.Rect(0, 0, d.Img[0], d.Img[1]))
			for i := range img.Pix {
				img.Pix[i] = uint8(40 + 13*i)
				if i%4 == 3 {
					img.Pix[i] = 255
				}
			}
			ctx.DrawImage(d.X, d.Y, img, canvas.DPMM(d.Res))
			continue
		}
		ctx.DrawPath(d.X, d.Y, pathFrom(d.Data))
	}
	return cv
}

// ---- SVG interpreter -----------------------------------------------------------------------------

func parseCSSColor(s string) (col [4]float64, none bool, url string, err error) {
	s = strings.TrimSpace(s)
	switch {
	case s == "none":
		return col, true, "", nil
	case strings.HasPrefix(s, "url(#"):
		return col, false, strings.TrimSuffix(strings.TrimPrefix(s, "url(#"), ")"), nil
	case strings.HasPrefix(s, "#"):
		h := s[1:]
		if len(h) == 3 {
			h = string([]byte{h[0], h[0], h[1], h[1], h[2], h[2]})
		}
		if len(h) != 6 {
			return col, false, "", fmt.Errorf("colour %q", s)
		}
		v, e := strconv.ParseUint(h, 16, 32)
		if e != nil {
			return col, false, "", fmt.Errorf("colour %q", s)
		}
		return [4]float64{float64(v >> 16), float64(v >> 8 & 255), float64(v & 255), 1}, false, "", nil
	case strings.HasPrefix(s, "rgba(") && strings.HasSuffix(s, ")"):
		parts := strings.Split(s[5:len(s)-1], ",")
		if len(parts) != 4 {
			return col, false, "", fmt.Errorf("colour %q", s)
		}
		for i := range parts {
			v, e := strconv.ParseFloat(strings.TrimSpace(parts[i]), 64)
			if e != nil {
				return col, false, "", fmt.Errorf("colour %q", s)
			}
			col[i] = v
		}
		return col, false, "", nil
	case s == "black":
		return [4]float64{0, 0, 0, 1}, false, "", nil
	}
	return col, false, "", fmt.Errorf("colour %q is not understood by this reader", s)
}

func subsToPolys(subs []geom.Sub, eps float64, closeOpen bool, tr func(Pt) Pt) []geom.Poly {
	var out []geom.Poly
	for _, poly := range geom.Flatten(subs, eps, closeOpen) {
		q := geom.Poly{Closed: poly.Closed || closeOpen}
		for _, v := range poly.V {
			vv := v
			vv.P = tr(v.P)
			q.V = append(q.V, vv)
		}
		out = append(out, q)
	}
	return out
}

func readSVG(data []byte, eps float64, units string, gz bool) ([]c12Prim, error) {
	if isGz := len(data) > 2 && data[0] == 0x1f && data[1] == 0x8b; isGz != gz {
		return nil, fmt.Errorf("compression requested %v, output is gzip: %v", gz, isGz)
	} else if gz {
		zr, err := gzip.NewReader(bytes.NewReader(data))
		if err != nil {
			return nil, fmt.Errorf("gzip: %v", err)
		}
		plain, err := io.ReadAll(zr)
		if err != nil {
			return nil, fmt.Errorf("gzip: %v", err)
		}
		data = plain
	}
	if units == "" {
		units = "mm"
	}
	dec := xml.NewDecoder(bytes.NewReader(data))
	var prims []c12Prim
	H := 0.0
	scaleX, scaleY := 1.0, 1.0
	grads := map[string]bool{}
	gradAxes := map[string][]float64{}
	gradOffs := map[string][]float64{}
	gradCols := map[string][][4]float64{}
	curGrad := ""
	depthDefs := 0
	for {
		tok, err := dec.Token()
		if err != nil {
			break
		}
		se, ok := tok.(xml.StartElement)
		if !ok {
			if ee, ok := tok.(xml.EndElement); ok && ee.Name.Local == "defs" {
				depthDefs--
			}
			continue
		}
		attr := map[string]string{}
		for _, a := range se.Attr {
			attr[a.Name.Local] = a.Value
		}
		switch se.Name.Local {
		case "svg":
			vb := strings.Fields(attr["viewBox"])
			if len(vb) != 4 {
				return nil, fmt.Errorf("svg without viewBox")
			}
			vw, _ := strconv.ParseFloat(vb[2], 64)
			vh, _ := strconv.ParseFloat(vb[3], 64)
			// the size is the canvas size in the requested unit (the option relabels the unit; one user
			// unit of the viewBox is one such unit)
			w, e1 := strconv.ParseFloat(strings.TrimSuffix(attr["width"], units), 64)
			h, e2 := strconv.ParseFloat(strings.TrimSuffix(attr["height"], units), 64)
			if e1 != nil || e2 != nil || !strings.HasSuffix(attr["width"], units) || !strings.HasSuffix(attr["height"], units) {
				return nil, fmt.Errorf("svg width/height %q %q are not in %s", attr["width"], attr["height"], units)
			}
			// user units -> mm
			scaleX, scaleY = w/vw, h/vh
			H = h
		case "defs":
			depthDefs++
		case "stop":
			if curGrad == "" {
				return nil, fmt.Errorf("stop element outside a gradient")
			}
			off := strings.TrimSpace(attr["offset"])
			var ov float64
			var e error
			if strings.HasSuffix(off, "%") {
				ov, e = strconv.ParseFloat(strings.TrimSuffix(off, "%"), 64)
				ov /= 100
			} else {
				ov, e = strconv.ParseFloat(off, 64)
			}
			if e != nil {
				return nil, fmt.Errorf("stop offset %q", attr["offset"])
			}
			sprops := map[string]string{"stop-color": "black", "stop-opacity": "1"}
			for k := range sprops {
				if v, ok := attr[k]; ok {
					sprops[k] = v
				}
			}
			for _, decl := range strings.Split(attr["style"], ";") {
				if kv := strings.SplitN(decl, ":", 2); len(kv) == 2 {
					sprops[strings.TrimSpace(kv[0])] = strings.TrimSpace(kv[1])
				}
			}
			sc, none, _, e := parseCSSColor(sprops["stop-color"])
			op, e2 := strconv.ParseFloat(sprops["stop-opacity"], 64)
			if e != nil || e2 != nil || none {
				return nil, fmt.Errorf("stop colour %q opacity %q", sprops["stop-color"], sprops["stop-opacity"])
			}
			ov = math.Max(0, math.Min(1, ov))
			if n := len(gradOffs[curGrad]); n > 0 && ov < gradOffs[curGrad][n-1] {
				ov = gradOffs[curGrad][n-1] // SVG: an offset is at least the previous one
			}
			gradOffs[curGrad] = append(gradOffs[curGrad], ov)
			gradCols[curGrad] = append(gradCols[curGrad], [4]float64{sc[0], sc[1], sc[2], sc[3] * op * 255})
		case "linearGradient", "radialGradient":
			grads[attr["id"]] = true
			curGrad = attr["id"]
			if se.Name.Local == "linearGradient" && attr["gradientUnits"] == "userSpaceOnUse" {
				var v [4]float64
				for i, k := range []string{"x1", "y1", "x2", "y2"} {
					v[i], _ = strconv.ParseFloat(attr[k], 64)
				}
				gradAxes[attr["id"]] = []float64{v[0] * scaleX, H - v[1]*scaleY, v[2] * scaleX, H - v[3]*scaleY}
			}
		case "image":
			w, e1 := strconv.ParseFloat(attr["width"], 64)
			h, e2 := strconv.ParseFloat(attr["height"], 64)
			t, e3 := parseTransformList(attr["transform"])
			if e1 != nil || e2 != nil || e3 != nil {
				return nil, fmt.Errorf("image element: width %q height %q transform %q", attr["width"], attr["height"], attr["transform"])
			}
			x0, _ := strconv.ParseFloat(attr["x"], 64)
			y0, _ := strconv.ParseFloat(attr["y"], 64)
			cv := func(x, y float64) Pt {
				q := t.dot(Pt{X: x0 + x, Y: y0 + y})
				return Pt{X: q.X * scaleX, Y: H - q.Y*scaleY}
			}
			// the image hangs down from its origin in the y-down user space: bottom-left is (0,h)
			prims = append(prims, c12ImagePrim([]Pt{cv(0, h), cv(w, h), cv(w, 0), cv(0, 0)}))
		case "path":
			if _, has := attr["transform"]; has {
				return nil, fmt.Errorf("path with a transform attribute is not read")
			}
			subs, err := refsyn.ParseSVGPath(attr["d"])
			if err != nil {
				return nil, fmt.Errorf("path data: %v", err)
			}
			props := map[string]string{"fill": "black", "stroke": "none", "stroke-width": "1", "stroke-linecap": "butt", "stroke-linejoin": "miter", "stroke-miterlimit": "4", "fill-rule": "nonzero", "stroke-dasharray": "none", "stroke-dashoffset": "0"}
			for k := range props {
				if v, ok := attr[k]; ok {
					props[k] = v
				}
			}
			for _, decl := range strings.Split(attr["style"], ";") {
				if kv := strings.SplitN(decl, ":", 2); len(kv) == 2 {
					props[strings.TrimSpace(kv[0])] = strings.TrimSpace(kv[1])
				}
			}
			tr := func(p Pt) Pt { return Pt{X: p.X * scaleX, Y: H - p.Y*scaleY} }
			col, none, url, err := parseCSSColor(props["fill"])
			if err != nil {
				return nil, err
			}
			if !none {
				pr := c12Prim{fill: subsToPolys(subs, eps, true, tr), col: col}
				if props["fill-rule"] == "evenodd" {
					pr.rule = 1
				}
				if url != "" {
					if !grads[url] {
						return nil, fmt.Errorf("fill refers to #%s, which is not defined before its use", url)
					}
					pr.grad = true
					pr.axis = gradAxes[url]
					pr.ramp = c12Ramp(gradOffs[url], gradCols[url])
				}
				prims = append(prims, pr)
			}
			col, none, url, err = parseCSSColor(props["stroke"])
			if err != nil {
				return nil, err
			}
			if !none {
				w, e := strconv.ParseFloat(props["stroke-width"], 64)
				lim, e2 := strconv.ParseFloat(props["stroke-miterlimit"], 64)
				if e != nil || e2 != nil {
					return nil, fmt.Errorf("stroke-width %q / miterlimit %q", props["stroke-width"], props["stroke-miterlimit"])
				}
				pr := c12Prim{line: subsToPolys(subs, eps, false, tr), hw: w * scaleX / 2, limit: lim, col: col, grad: url != ""}
				switch props["stroke-linecap"] {
				case "butt":
				case "round":
					pr.cap = 1
				case "square":
					pr.cap = 2
				default:
					return nil, fmt.Errorf("stroke-linecap %q", props["stroke-linecap"])
				}
				switch props["stroke-linejoin"] {
				case "miter":
				case "round":
					pr.join = 1
				case "bevel":
					pr.join = 2
				case "arcs":
					pr.join = 3
				default:
					return nil, fmt.Errorf("stroke-linejoin %q", props["stroke-linejoin"])
				}
				if da := props["stroke-dasharray"]; da != "none" {
					for _, f := range strings.FieldsFunc(da, func(r rune) bool { return r == ' ' || r == ',' }) {
						v, e := strconv.ParseFloat(f, 64)
						if e != nil || v < 0 {
							return nil, fmt.Errorf("stroke-dasharray %q", da)
						}
						pr.dashes = append(pr.dashes, v*scaleX)
					}
					off, e := strconv.ParseFloat(props["stroke-dashoffset"], 64)
					if e != nil {
						return nil, fmt.Errorf("stroke-dashoffset %q", props["stroke-dashoffset"])
					}
					pr.dashOff = off * scaleX
				}
				prims = append(prims, pr)
			}
		}
	}
	return prims, nil
}

// ---- PDF interpreter -----------------------------------------------------------------------------

type pdfGS struct {
	ctm            aff
	fill, stroke   [4]float64
	fillG, strokeG bool
	fillAxis       []float64
	fillRamp       []float64
	fillRampErr    error
	w              float64
	cap, join      int
	limit          float64
	dashes         []float64
	dashOff        float64
}

func readPDF(data []byte, epsPt float64) ([]c12Prim, float64, float64, error) {
	f := refpdf.Parse(data)
	f.CheckReferences()
	pages := f.Pages()
	if len(f.Problems) > 0 {
		return nil, 0, 0, fmt.Errorf("not a well-formed PDF: %v", f.Problems[0])
	}
	if len(pages) != 1 {
		return nil, 0, 0, fmt.Errorf("%d pages", len(pages))
	}
	pg := pages[0]
	ops, err := refpdf.ParseContent(pg.Content)
	if err != nil {
		return nil, 0, 0, err
	}
	const mmPerPt = 25.4 / 72
	gs := pdfGS{ctm: affI, fill: [4]float64{0, 0, 0, 1}, stroke: [4]float64{0, 0, 0, 1}, w: 1, limit: 10}
	var stack []pdfGS
	var prims []c12Prim
	type builder struct {
		subs  []geom.Sub
		cur   Pt
		start Pt
		open  bool
	}
	var b builder
	num := func(v any) float64 { x, _ := refpdf.Num(v); return x }
	toMM := func(p Pt) Pt { return Pt{X: p.X * mmPerPt, Y: p.Y * mmPerPt} }
	begin := func() {
		if !b.open {
			b.subs = append(b.subs, geom.Sub{Start: b.cur})
			b.open = true
			b.start = b.cur
		}
	}
	extG, _ := f.Resolve(pg.Resources["ExtGState"]).(refpdf.Dict)
	paint := func(fill, stroke bool, rule int, closeFirst bool) {
		if closeFirst && b.open {
			sb := &b.subs[len(b.subs)-1]
			if b.cur != b.start {
				sb.Segs = append(sb.Segs, geom.Seg{Kind: geom.Line, P0: b.cur, P3: b.start, FromClose: true})
			}
			sb.Closed = true
		}
		id := func(p Pt) Pt { return toMM(p) }
		if fill {
			pr := c12Prim{fill: subsToPolys(b.subs, epsPt, true, id), rule: rule, col: gs.fill, grad: gs.fillG}
			if gs.fillG {
				pr.axis = gs.fillAxis
				if gs.fillG {
					pr.ramp = gs.fillRamp
					if gs.fillRampErr != nil {
						pr.rampErr = gs.fillRampErr.Error()
					}
				}
			}
			prims = append(prims, pr)
		}
		if stroke {
			sc := math.Sqrt(math.Abs(gs.ctm.det()))
			pr := c12Prim{line: subsToPolys(b.subs, epsPt, false, id), hw: gs.w * sc * mmPerPt / 2, cap: gs.cap, join: gs.join, limit: gs.limit, col: gs.stroke, grad: gs.strokeG, dashOff: gs.dashOff * sc * mmPerPt}
			for _, d := range gs.dashes {
				pr.dashes = append(pr.dashes, d*sc*mmPerPt)
			}
			prims = append(prims, pr)
		}
		b = builder{}
	}
	for _, op := range ops {
		a := op.Operands
		switch op.Name {
		case "q":
			stack = append(stack, gs)
		case "Q":
			if len(stack) == 0 {
				return nil, 0, 0, fmt.Errorf("Q without q")
			}
			gs = stack[len(stack)-1]
			stack = stack[:len(stack)-1]
		case "cm":
			m := aff{num(a[0]), num(a[2]), num(a[4]), num(a[1]), num(a[3]), num(a[5])}
			gs.ctm = gs.ctm.mul(m)
		case "m":
			p := gs.ctm.dot(Pt{X: num(a[0]), Y: num(a[1])})
			b.cur, b.start, b.open = p, p, false
		case "l":
			begin()
			p := gs.ctm.dot(Pt{X: num(a[0]), Y: num(a[1])})
			b.subs[len(b.subs)-1].Segs = append(b.subs[len(b.subs)-1].Segs, geom.Seg{Kind: geom.Line, P0: b.cur, P3: p})
			b.cur = p
		case "c", "v", "y":
			begin()
			var c1, c2, p Pt
			switch op.Name {
			case "c":
				c1, c2, p = gs.ctm.dot(Pt{X: num(a[0]), Y: num(a[1])}), gs.ctm.dot(Pt{X: num(a[2]), Y: num(a[3])}), gs.ctm.dot(Pt{X: num(a[4]), Y: num(a[5])})
			case "v":
				c1, c2, p = b.cur, gs.ctm.dot(Pt{X: num(a[0]), Y: num(a[1])}), gs.ctm.dot(Pt{X: num(a[2]), Y: num(a[3])})
			default:
				c1, p = gs.ctm.dot(Pt{X: num(a[0]), Y: num(a[1])}), gs.ctm.dot(Pt{X: num(a[2]), Y: num(a[3])})
				c2 = p
			}
			b.subs[len(b.subs)-1].Segs = append(b.subs[len(b.subs)-1].Segs, geom.Seg{Kind: geom.Cube, P0: b.cur, C1: c1, C2: c2, P3: p})
			b.cur = p
		case "h":
			if b.open {
				sb := &b.subs[len(b.subs)-1]
				if b.cur != b.start {
					sb.Segs = append(sb.Segs, geom.Seg{Kind: geom.Line, P0: b.cur, P3: b.start, FromClose: true})
				}
				sb.Closed = true
				b.cur = b.start
				b.open = false
			}
		case "re":
			x, y, w, h := num(a[0]), num(a[1]), num(a[2]), num(a[3])
			p0 := gs.ctm.dot(Pt{X: x, Y: y})
			sub := geom.Sub{Start: p0, Closed: true}
			prev := p0
			for _, c := range []Pt{{X: x + w, Y: y}, {X: x + w, Y: y + h}, {X: x, Y: y + h}, {X: x, Y: y}} {
				q := gs.ctm.dot(c)
				sub.Segs = append(sub.Segs, geom.Seg{Kind: geom.Line, P0: prev, P3: q})
				prev = q
			}
			b.subs = append(b.subs, sub)
			b.cur, b.start, b.open = p0, p0, false
		case "W", "W*":
			// clipping path: the renderer clips images to their own parallelogram, nothing is hidden
		case "Do":
			xo, _ := f.Resolve(pg.Resources["XObject"]).(refpdf.Dict)
			st, _ := f.Resolve(xo[a[0].(refpdf.Name)]).(*refpdf.Stream)
			if st == nil || st.Dict["Subtype"] != refpdf.Name("Image") {
				return nil, 0, 0, fmt.Errorf("Do of something that is not an image")
			}
			cs := []Pt{gs.ctm.dot(Pt{X: 0, Y: 0}), gs.ctm.dot(Pt{X: 1, Y: 0}), gs.ctm.dot(Pt{X: 1, Y: 1}), gs.ctm.dot(Pt{X: 0, Y: 1})}
			for i := range cs {
				cs[i] = toMM(cs[i])
			}
			prims = append(prims, c12ImagePrim(cs))
		case "f", "F":
			paint(true, false, 0, false)
		case "f*":
			paint(true, false, 1, false)
		case "S":
			paint(false, true, 0, false)
		case "s":
			paint(false, true, 0, true)
		case "B":
			paint(true, true, 0, false)
		case "B*":
			paint(true, true, 1, false)
		case "b":
			paint(true, true, 0, true)
		case "b*":
			paint(true, true, 1, true)
		case "n":
			b = builder{}
		case "g":
			v := num(a[0]) * 255
			gs.fill, gs.fillG = [4]float64{v, v, v, gs.fill[3]}, false
		case "G":
			v := num(a[0]) * 255
			gs.stroke, gs.strokeG = [4]float64{v, v, v, gs.stroke[3]}, false
		case "rg":
			gs.fill, gs.fillG = [4]float64{num(a[0]) * 255, num(a[1]) * 255, num(a[2]) * 255, gs.fill[3]}, false
		case "RG":
			gs.stroke, gs.strokeG = [4]float64{num(a[0]) * 255, num(a[1]) * 255, num(a[2]) * 255, gs.stroke[3]}, false
		case "cs", "CS":
		case "scn":
			gs.fillG = true
			gs.fillAxis = nil
			if nm, ok := a[len(a)-1].(refpdf.Name); ok {
				pats, _ := f.Resolve(pg.Resources["Pattern"]).(refpdf.Dict)
				pat, _ := f.Resolve(pats[nm]).(refpdf.Dict)
				sh, _ := f.Resolve(pat["Shading"]).(refpdf.Dict)
				if t, _ := refpdf.Num(sh["ShadingType"]); t == 2 {
					if co, ok := f.Resolve(sh["Coords"]).(refpdf.Array); ok && len(co) == 4 {
						for _, e := range co {
							gs.fillAxis = append(gs.fillAxis, num(e)*mmPerPt)
						}
					}
					gs.fillRamp, gs.fillRampErr = nil, nil
					for k := 0; k <= 10; k++ {
						v, err := c12PDFFunction(f, sh["Function"], float64(k)/10)
						if err != nil || len(v) != 3 {
							gs.fillRamp, gs.fillRampErr = nil, fmt.Errorf("shading function: %v (value %v)", err, v)
							break
						}
						gs.fillRamp = append(gs.fillRamp, v[0]*255, v[1]*255, v[2]*255, 255)
					}
				}
			}
		case "SCN":
			gs.strokeG = true
		case "gs":
			d, _ := f.Resolve(extG[a[0].(refpdf.Name)]).(refpdf.Dict)
			if v, ok := refpdf.Num(d["ca"]); ok {
				gs.fill[3] = v
			}
			if v, ok := refpdf.Num(d["CA"]); ok {
				gs.stroke[3] = v
			}
		case "w":
			gs.w = num(a[0])
		case "J":
			gs.cap = int(num(a[0]))
		case "j":
			gs.join = []int{0, 1, 2}[int(num(a[0]))%3]
		case "M":
			gs.limit = num(a[0])
		case "d":
			arr, _ := a[0].(refpdf.Array)
			gs.dashes = nil
			for _, e := range arr {
				gs.dashes = append(gs.dashes, num(e))
			}
			gs.dashOff = num(a[1])
		default:
			return nil, 0, 0, fmt.Errorf("operator %s is not read", op.Name)
		}
	}
	return prims, pg.MediaBox[2] * mmPerPt, pg.MediaBox[3] * mmPerPt, nil
}

// ---- PostScript interpreter ----------------------------------------------------------------------

var c12PSImageRe = regexp.MustCompile(`(?s)<</ImageType 1 /BitsPerComponent 8 /Decode \[0 1 0 1 0 1\] /Interpolate true /Width (\d+) /Height (\d+) /ImageMatrix \[(\d+) 0 0 -(\d+) 0 (\d+)\] /DataSource currentfile /ASCII85Decode filter /FlateDecode filter>>image\n.*?~>`)

func readPS(data []byte, eps float64) ([]c12Prim, float64, float64, error) {
	// an image is a dictionary followed by in-line data; its ImageMatrix [w 0 0 -h 0 h] maps the unit
	// square of user space onto the image with the first row on top
	src := c12PSImageRe.ReplaceAllStringFunc(string(data), func(m string) string {
		g := c12PSImageRe.FindStringSubmatch(m)
		if g[1] != g[3] || g[2] != g[4] || g[2] != g[5] {
			return " BADIMAGE "
		}
		return " IMAGE "
	})
	W, H := 0.0, 0.0
	var body []string
	for _, ln := range strings.Split(src, "\n") {
		if strings.HasPrefix(ln, "%%BoundingBox:") {
			f := strings.Fields(ln)
			if len(f) == 5 {
				W, _ = strconv.ParseFloat(f[3], 64)
				H, _ = strconv.ParseFloat(f[4], 64)
			}
		}
		if k := strings.IndexByte(ln, '%'); k >= 0 {
			ln = ln[:k] // a comment runs from % to the end of the line
		}
		if strings.HasPrefix(ln, "/ellipse{") || strings.HasPrefix(ln, "/ellipsen{") {
			// the two procedures the renderer defines; their semantics are built into refsyn.ParsePS
			if !strings.Contains(ln, "x y translate rot rotate rx ry scale 0 0 1 a0 a1 arc") {
				return nil, 0, 0, fmt.Errorf("unexpected definition of ellipse: %s", ln)
			}
			k := strings.Index(ln, "}def")
			if k < 0 {
				return nil, 0, 0, fmt.Errorf("unterminated definition: %s", ln)
			}
			ln = ln[k+4:] // the program continues on the same line
		}
		body = append(body, ln)
	}
	toks := strings.Fields(strings.NewReplacer("[", " [ ", "]", " ] ").Replace(strings.Join(body, " ")))
	type state struct {
		col       [4]float64
		w         float64
		cap, join int
		limit     float64
		dashes    []float64
		dashOff   float64
		path      []string
		ctm       aff
	}
	gs := state{col: [4]float64{0, 0, 0, 1}, w: 1, limit: 10, ctm: affI}
	var stack []state
	var nums []float64
	var arr []float64
	inArr := false
	var prims []c12Prim
	id := func(p Pt) Pt { return p }
	build := func() ([]geom.Sub, error) {
		subs, err := refsyn.ParsePS(strings.Join(gs.path, " "))
		if err != nil {
			return nil, err
		}
		var out []geom.Sub
		for _, s := range subs {
			g := geom.Sub{Start: s.Start, Closed: s.Closed}
			for _, it := range s.Items {
				if !it.IsArc {
					g.Segs = append(g.Segs, it.Seg)
					continue
				}
				// sample the arc finely
				r := math.Max(it.Arc.Rx, it.Arc.Ry)
				n := int(math.Ceil(math.Abs(it.Arc.A1-it.Arc.A0)/math.Sqrt(8*eps/math.Max(r, eps)))) + 2
				prev := it.Arc.At(0)
				for k := 1; k <= n; k++ {
					p := it.Arc.At(float64(k) / float64(n))
					g.Segs = append(g.Segs, geom.Seg{Kind: geom.Line, P0: prev, P3: p})
					prev = p
				}
			}
			out = append(out, g)
		}
		return out, nil
	}
	pathOps := map[string]int{"moveto": 2, "lineto": 2, "curveto": 6, "closepath": 0, "ellipse": 7, "ellipsen": 7}
	for _, t := range toks {
		if v, err := strconv.ParseFloat(t, 64); err == nil {
			if inArr {
				arr = append(arr, v)
			} else {
				nums = append(nums, v)
			}
			continue
		}
		if strings.HasPrefix(t, "/") {
			continue // a literal name (operand of setcolorspace)
		}
		if n, ok := pathOps[t]; ok {
			if len(nums) != n {
				return nil, 0, 0, fmt.Errorf("%s with %d operands", t, len(nums))
			}
			for _, v := range nums {
				gs.path = append(gs.path, strconv.FormatFloat(v, 'g', -1, 64))
			}
			gs.path = append(gs.path, t)
			nums = nil
			continue
		}
		need := func(n int) error {
			if len(nums) != n {
				return fmt.Errorf("%s with %d operands", t, len(nums))
			}
			return nil
		}
		var err error
		switch t {
		case "[":
			inArr, arr = true, nil
		case "]":
			inArr = false
		case "setcolorspace":
		case "concat":
			if len(arr) != 6 {
				return nil, 0, 0, fmt.Errorf("concat with %d numbers", len(arr))
			}
			gs.ctm = gs.ctm.mul(aff{arr[0], arr[2], arr[4], arr[1], arr[3], arr[5]})
		case "IMAGE":
			prims = append(prims, c12ImagePrim([]Pt{gs.ctm.dot(Pt{X: 0, Y: 0}), gs.ctm.dot(Pt{X: 1, Y: 0}), gs.ctm.dot(Pt{X: 1, Y: 1}), gs.ctm.dot(Pt{X: 0, Y: 1})}))
		case "gsave":
			st := gs
			st.path = append([]string(nil), gs.path...)
			stack = append(stack, st)
		case "grestore":
			if len(stack) == 0 {
				return nil, 0, 0, fmt.Errorf("grestore without gsave")
			}
			gs = stack[len(stack)-1]
			stack = stack[:len(stack)-1]
		case "setgray":
			if err = need(1); err == nil {
				gs.col = [4]float64{nums[0] * 255, nums[0] * 255, nums[0] * 255, 1}
			}
		case "setrgbcolor":
			if err = need(3); err == nil {
				gs.col = [4]float64{nums[0] * 255, nums[1] * 255, nums[2] * 255, 1}
			}
		case "setlinewidth":
			if err = need(1); err == nil {
				gs.w = nums[0]
			}
		case "setlinecap":
			if err = need(1); err == nil {
				gs.cap = int(nums[0])
			}
		case "setlinejoin":
			if err = need(1); err == nil {
				gs.join = []int{0, 1, 2}[int(nums[0])%3]
			}
		case "setmiterlimit":
			if err = need(1); err == nil {
				gs.limit = nums[0]
			}
		case "setdash":
			if err = need(1); err == nil {
				gs.dashes, gs.dashOff = arr, nums[0]
			}
		case "fill", "eofill":
			subs, e := build()
			if e != nil {
				return nil, 0, 0, e
			}
			pr := c12Prim{fill: subsToPolys(subs, eps, true, id), col: gs.col}
			if t == "eofill" {
				pr.rule = 1
			}
			prims = append(prims, pr)
			gs.path = nil
		case "stroke":
			subs, e := build()
			if e != nil {
				return nil, 0, 0, e
			}
			prims = append(prims, c12Prim{line: subsToPolys(subs, eps, false, id), hw: gs.w / 2, cap: gs.cap, join: gs.join, limit: gs.limit, dashes: gs.dashes, dashOff: gs.dashOff, col: gs.col})
			gs.path = nil
		default:
			return nil, 0, 0, fmt.Errorf("PostScript token %q is not read", t)
		}
		if err != nil {
			return nil, 0, 0, err
		}
		nums = nil
	}
	return prims, W, H, nil
}

// ---- check ---------------------------------------------------------------------------------------

func c12Check(ci any, o *core.Obs) {
	c := ci.(*c12Case)
	checkGlobals(o)
	var cv *canvas.Canvas
	var img *image.RGBA
	var bSVG, bPDF, bPS bytes.Buffer
	if !o.Call("Context", func() { cv = c12Canvas(c) }) {
		return
	}
	if !o.Call("rasterizer.Draw", func() { img = rasterizer.Draw(cv, canvas.DPMM(c.DPMM), canvas.LinearColorSpace{}) }) {
		return
	}
	if !o.Call("svg renderer", func() {
		var opts *svg.Options
		if c.SVGComp != 0 || c.SVGUnits != "" {
			oo := svg.DefaultOptions
			oo.Compression = c.SVGComp
			if c.SVGUnits != "" {
				oo.SizeUnits = c.SVGUnits
			}
			opts = &oo
		}
		r := svg.New(&bSVG, cv.W, cv.H, opts)
		cv.RenderTo(r)
		r.Close()
	}) {
		return
	}
	if !o.Call("pdf renderer", func() {
		r := pdf.New(&bPDF, cv.W, cv.H, &pdf.Options{Compress: c.PDFComp, SubsetFonts: true})
		cv.RenderTo(r)
		r.Close()
	}) {
		return
	}
	if !o.Call("ps renderer", func() {
		opts := ps.DefaultOptions
		if c.EPS {
			opts.Format = ps.EncapsulatedPostScript
		}
		r := ps.New(&bPS, cv.W, cv.H, &opts)
		cv.RenderTo(r)
		r.Close()
	}) {
		return
	}
	o.NonTrivial()
	if dir := os.Getenv("VERIF_C12_OUT"); dir != "" {
		os.WriteFile(dir+"/out.svg", bSVG.Bytes(), 0o644)
		os.WriteFile(dir+"/out.pdf", bPDF.Bytes(), 0o644)
		os.WriteFile(dir+"/out.ps", bPS.Bytes(), 0o644)
	}
	eps := 0.01 / c.DPMM
	type backend struct {
		name  string
		prims []c12Prim
	}
	var backs []backend
	if p, err := readSVG(bSVG.Bytes(), eps, c.SVGUnits, c.SVGComp != 0); err != nil {
		o.Fail("svg-unreadable", "the SVG output cannot be interpreted: %v; %s", err, c12Str(c))
		return
	} else {
		backs = append(backs, backend{"svg", p})
	}
	if p, w, h, err := readPDF(bPDF.Bytes(), eps*72/25.4); err != nil {
		o.Fail("pdf-unreadable", "the PDF output cannot be interpreted: %v; %s", err, c12Str(c))
		return
	} else {
		if math.Abs(w-c.W) > 1e-6*c.W || math.Abs(h-c.H) > 1e-6*c.H {
			o.Fail("pdf-size", "PDF page measures %.6gx%.6g mm, the canvas %.6gx%.6g", w, h, c.W, c.H)
			return
		}
		backs = append(backs, backend{"pdf", p})
	}
	psOpaque := true
	for _, d := range c.Draws {
		if (d.Fill != nil && (d.Fill[3] != 255 || d.Grad)) || (d.Stroke != nil && d.Stroke[3] != 255) {
			psOpaque = false // PostScript has neither transparency nor gradients: documented limits of that back-end
		}
	}
	if psOpaque {
		if p, w, h, err := readPS(bPS.Bytes(), eps); err != nil {
			o.Fail("ps-unreadable", "the PostScript output cannot be interpreted: %v; %s", err, c12Str(c))
			return
		} else {
			if math.Abs(w-c.W) > 1e-6*c.W || math.Abs(h-c.H) > 1e-6*c.H {
				o.Fail("ps-size", "PostScript bounding box is %.6gx%.6g, the canvas %.6gx%.6g", w, h, c.W, c.H)
				return
			}
			backs = append(backs, backend{"ps", p})
		}
		o.Count("postscript_outputs_interpreted", 1)
	}
	for bi := range backs {
		for k := range backs[bi].prims {
			backs[bi].prims[k].prepare()
			backs[bi].prims[k].makeBoxes()
		}
	}
	// the drawing the canvas prescribes, in the same primitive form (the analytic model C14 ties the
	// rasterizer to); strokes the back-ends may express natively are distance bands, the others the
	// outline Path.Stroke returns for the dashes scaled by the stroke width (as the rasterizer does)
	model, ok := c12Model(c, eps, o, false)
	if !ok {
		return
	}
	modelSVG, ok := c12Model(c, eps, o, true) // SVG 2 has an arcs join, PDF and PostScript do not
	if !ok {
		return
	}
	for k := range model {
		model[k].prepare()
		model[k].makeBoxes()
	}
	for k := range modelSVG {
		modelSVG[k].prepare()
		modelSVG[k].makeBoxes()
	}
	// images, in the order of appearance: the four corners must land where DrawImage puts them
	for _, bk := range backs {
		var mi, bi [][]Pt
		mdl := model
		for _, pr := range mdl {
			if pr.corners != nil {
				mi = append(mi, pr.corners)
			}
		}
		for _, pr := range bk.prims {
			if pr.corners != nil {
				bi = append(bi, pr.corners)
			}
		}
		o.Decided(1)
		if len(mi) != len(bi) {
			o.Fail(bk.name+"-image", "the drawing has %d images, the %s output %d; %s", len(mi), bk.name, len(bi), c12Str(c))
			return
		}
		for i := range mi {
			for k := 0; k < 4; k++ {
				if mi[i][k].Dist(bi[i][k]) > 1e-4*(c.W+c.H) {
					o.Fail(bk.name+"-image", "image %d: its corner %d (0 bottom-left, 1 bottom-right, 2 top-right, 3 top-left) lands at %v in the %s output, DrawImage puts it at %v; %s", i, k, bi[i][k], bk.name, mi[i][k], c12Str(c))
					return
				}
			}
			o.Count("image_placements_compared_"+bk.name, 1)
		}
	}
	// gradient vectors, in the order of appearance
	for _, bk := range backs {
		if bk.name == "ps" {
			continue
		}
		var ma, ba, mr, br [][]float64
		var brErr []string
		for _, pr := range model {
			if pr.grad && pr.corners == nil {
				ma = append(ma, pr.axis)
				mr = append(mr, pr.ramp)
			}
		}
		for _, pr := range bk.prims {
			if pr.grad && pr.corners == nil {
				ba = append(ba, pr.axis)
				br = append(br, pr.ramp)
				brErr = append(brErr, pr.rampErr)
				// the drawing's gradients are opaque: the opacity in force when the PDF paints one must be 1
				// (it is part of the graphics state and may be left over from an earlier translucent fill)
				if bk.name == "pdf" && math.Abs(pr.col[3]-1) > 1e-3 {
					o.Fail("pdf-gradient-opacity", "gradient %d is painted with the non-stroking opacity %.4g in the pdf output, the drawing's gradient is opaque; %s", len(br)-1, pr.col[3], c12Str(c))
					return
				}
			}
		}
		o.Decided(1)
		if len(ma) != len(ba) {
			o.Fail(bk.name+"-gradient", "the drawing has %d gradient fills, the %s output %d; %s", len(ma), bk.name, len(ba), c12Str(c))
			return
		}
		for i := range mr {
			if i < len(br) && mr[i] != nil {
				if len(br[i]) != len(mr[i]) {
					o.Fail(bk.name+"-gradient-ramp", "gradient %d of the %s output has no readable colour ramp (%s); %s", i, bk.name, brErr[i], c12Str(c))
					return
				}
				for k := range mr[i] {
					// the alpha of a stop is not compared for PDF (opaque shadings; soft masks are not modelled)
					if bk.name == "pdf" && k%4 == 3 {
						continue
					}
					if math.Abs(br[i][k]-mr[i][k]) > 2.5 {
						o.Fail(bk.name+"-gradient-ramp", "gradient %d: at t = %.1f the %s output has colour component %d = %.4g, the drawing %.4g (0..255; ramp of the output %.4g, of the drawing %.4g); %s", i, float64(k/4)/10, bk.name, k%4, br[i][k], mr[i][k], br[i], mr[i], c12Str(c))
						return
					}
				}
			}
		}
		for i := range ma {
			if len(ba[i]) != 4 || math.Abs(ba[i][0]-ma[i][0])+math.Abs(ba[i][1]-ma[i][1])+math.Abs(ba[i][2]-ma[i][2])+math.Abs(ba[i][3]-ma[i][3]) > 1e-4*(c.W+c.H) {
				o.Fail(bk.name+"-gradient", "gradient %d runs along %v in the %s output, along %v in the drawing (canvas mm); %s", i, ba[i], bk.name, ma[i], c12Str(c))
				return
			}
		}
	}
	wpx, hpx := img.Bounds().Dx(), img.Bounds().Dy()
	r := caseRng(c, "pixels")
	var samples []Pt
	for k := 0; k < 120; k++ {
		samples = append(samples, Pt{X: r.Range(0, c.W), Y: r.Range(0, c.H)})
	}
	for _, pr := range model {
		polys := pr.fill
		if polys == nil {
			polys = pr.line
		}
		for _, poly := range polys {
			for k := 0; k < 30 && len(poly.V) > 1; k++ {
				vi := r.Intn(len(poly.V) - 1)
				a, b := poly.V[vi].P, poly.V[vi+1].P
				p := a.Lerp(b, r.Float())
				n := Pt{X: -(b.Y - a.Y), Y: b.X - a.X}
				if l := n.Len(); l > 0 {
					n = n.Mul(1 / l)
				}
				off := r.Range(1.6, 5) / c.DPMM
				if pr.line != nil {
					off = core.PickF(r, []float64{0, pr.hw - 2/c.DPMM, pr.hw + 2/c.DPMM, pr.hw * r.Range(0, 1.5)})
				}
				if r.Bool() {
					off = -off
				}
				samples = append(samples, p.Add(n.Mul(off)))
			}
			// just beyond the ends of dashes and open sub-paths, where the cap decides
			if pr.line != nil && len(pr.pieces) > 0 {
				for k := 0; k < 16; k++ {
					pc := pr.pieces[r.Intn(len(pr.pieces))]
					if len(pc) < 2 {
						continue
					}
					e, b := pc[len(pc)-1], pc[len(pc)-2]
					if r.Bool() {
						e, b = pc[0], pc[1]
					}
					dir := e.Sub(b)
					if l := dir.Len(); l > 0 {
						side := Pt{X: -dir.Y / l, Y: dir.X / l}
						samples = append(samples, e.Add(dir.Mul(pr.hw*r.Range(0.2, 0.95)/l)).Add(side.Mul(pr.hw*r.Range(-0.5, 0.5))))
					}
				}
			}
			// beyond sharp corners of stroked lines, where the join (mitre limit, bevel, round) decides
			if pr.line != nil {
				nv := 0
				for vi := 1; vi+1 < len(poly.V) && nv < 12; vi++ {
					d0, d1 := poly.V[vi].P.Sub(poly.V[vi-1].P), poly.V[vi+1].P.Sub(poly.V[vi].P)
					l0, l1 := d0.Len(), d1.Len()
					if l0 == 0 || l1 == 0 {
						continue
					}
					d0, d1 = d0.Mul(1/l0), d1.Mul(1/l1)
					if d0.Dot(d1) > 0.5 { // turning by less than 60 degrees
						continue
					}
					out := d0.Sub(d1)
					if ol := out.Len(); ol > 0 {
						nv++
						for k := 0; k < 3; k++ {
							samples = append(samples, poly.V[vi].P.Add(out.Mul(pr.hw*r.Range(1.1, 5)/ol)))
						}
					}
				}
			}
		}
	}
	mg := 1.5 / c.DPMM
	// colour a primitive list prescribes at q: known=false when a boundary is nearer than the margin
	eval := func(prims []c12Prim, q Pt) (exp [4]float64, known, painted, gradient bool, trace string) {
		known = true
		for k := range prims {
			pr := &prims[k]
			switch pr.cover(q, mg) {
			case covAmb:
				return exp, false, painted, gradient, trace
			case covIn:
				painted = true
				trace += fmt.Sprintf(" #%d", k)
				if pr.grad {
					gradient = true
					continue
				}
				gradient = false
				a := pr.col[3]
				src := [4]float64{pr.col[0] * a, pr.col[1] * a, pr.col[2] * a, 255 * a}
				for ch := 0; ch < 4; ch++ {
					exp[ch] = src[ch] + exp[ch]*(1-a)
				}
			}
		}
		return
	}
	if os.Getenv("VERIF_C12_DUMP") != "" {
		// development aid: raster image, model and the coverage each output prescribes, as character maps
		all := append([]backend{{"model", model}}, backs...)
		for j := 0; j < hpx; j++ {
			row := ""
			for i := 0; i < wpx; i++ {
				g := img.RGBAAt(i, j)
				ch := "."
				if g.A > 0 {
					ch = string(rune('a' + int(g.R)%26))
				}
				row += ch
			}
			for _, bk := range all {
				row += "   "
				for i := 0; i < wpx; i++ {
					q := Pt{X: (float64(i) + 0.5) / c.DPMM, Y: (float64(hpx) - (float64(j) + 0.5)) / c.DPMM}
					oc := "."
					for k := range bk.prims {
						switch bk.prims[k].cover(q, 0) {
						case covIn:
							oc = string(rune('A' + k))
						case covAmb:
							if oc == "." {
								oc = "?"
							}
						}
					}
					row += oc
				}
			}
			fmt.Println(row)
		}
	}
	rasterAgree, rasterDiffer := 0, 0
	for _, bk := range backs {
		judged := 0
		mdl := model
		if bk.name == "svg" {
			mdl = modelSVG
		}
		for _, q := range samples {
			me, mk, mp, mgr, mt := eval(mdl, q)
			be, bkn, bp, bgr, bt := eval(bk.prims, q)
			if !mk || !bkn {
				continue
			}
			judged++
			o.Decided(1)
			switch {
			case mp != bp:
				tag := bk.name + "-missing"
				if bp {
					tag = bk.name + "-extra"
				}
				o.Fail(tag, "at canvas point (%.5g,%.5g) the drawing paints=%v (primitives%s), the %s output paints=%v (primitives%s), both decided by more than 1.5 pixels; %s", q.X, q.Y, mp, mt, bk.name, bp, bt, c12Str(c))
				return
			case mp && mgr != bgr:
				o.Fail(bk.name+"-paint", "at canvas point (%.5g,%.5g) the drawing's topmost paint is a gradient=%v, in the %s output gradient=%v; %s", q.X, q.Y, mgr, bk.name, bgr, c12Str(c))
				return
			case mp && !mgr:
				worst := 0.0
				for ch := 0; ch < 4; ch++ {
					worst = math.Max(worst, math.Abs(me[ch]-be[ch]))
				}
				o.Max("colour_difference_"+bk.name, worst)
				if worst > 4 {
					o.Fail(bk.name+"-colour", "at canvas point (%.5g,%.5g) the drawing paints premultiplied (%.0f,%.0f,%.0f,%.0f) (primitives%s), the %s output (%.0f,%.0f,%.0f,%.0f) (primitives%s); %s", q.X, q.Y, me[0], me[1], me[2], me[3], mt, bk.name, be[0], be[1], be[2], be[3], bt, c12Str(c))
					return
				}
			}
			// the rasterizer's pixel, for the record (its agreement with the drawing is C14's subject)
			if bk.name == "svg" {
				i, j := int(math.Floor(q.X*c.DPMM)), int(math.Floor(float64(hpx)-q.Y*c.DPMM))
				if i >= 0 && j >= 0 && i < wpx && j < hpx {
					got := img.RGBAAt(i, j)
					if (got.A != 0) == mp {
						rasterAgree++
					} else {
						rasterDiffer++
					}
				}
			}
		}
		o.Count("points_judged_"+bk.name, float64(judged))
	}
	o.Count("points_where_the_rasterizer_agrees_on_coverage", float64(rasterAgree))
	o.Count("points_where_the_rasterizer_differs_on_coverage", float64(rasterDiffer))
}

// c12ImagePrim: an image paints its parallelogram with colours that are not judged.
func c12ImagePrim(corners []Pt) c12Prim {
	poly := geom.Poly{Closed: true}
	for _, p := range append(append([]Pt{}, corners...), corners[0]) {
		poly.V = append(poly.V, geom.Vertex{P: p})
	}
	return c12Prim{fill: []geom.Poly{poly}, grad: true, corners: corners}
}

// c12Model builds the primitives the recorded drawing prescribes.
func c12Model(c *c12Case, eps float64, o *core.Obs, arcsNative bool) ([]c12Prim, bool) {
	ds := make([]*c12Draw, len(c.Draws))
	for i := range c.Draws {
		ds[i] = &c.Draws[i]
	}
	sort.SliceStable(ds, func(i, j int) bool { return ds[i].Z < ds[j].Z })
	var prims []c12Prim
	for _, d := range ds {
		view := affI
		if d.View != nil {
			var v aff
			copy(v[:], d.View)
			view = affAbout(v, d.X, d.Y)
		}
		m := sysView(c.Sys, c.W, c.H).mul(view).mul(affT(d.X, d.Y))
		if d.Img != nil {
			// DrawImage: one image pixel measures 1/res mm; the image stays upright in flipped systems
			w, h := float64(d.Img[0]), float64(d.Img[1])
			mi := m.mul(affS(1/d.Res, 1/d.Res))
			if c.Sys == 2 || c.Sys == 3 {
				mi = mi.mul(affAbout(affS(1, -1), 0, h/2))
			}
			if c.Sys == 1 || c.Sys == 2 {
				mi = mi.mul(affAbout(affS(-1, 1), w/2, 0))
			}
			prims = append(prims, c12ImagePrim([]Pt{mi.dot(Pt{X: 0, Y: 0}), mi.dot(Pt{X: w, Y: 0}), mi.dot(Pt{X: w, Y: h}), mi.dot(Pt{X: 0, Y: h})}))
			continue
		}
		subs, err := geom.Decode(d.Data)
		if err != nil {
			o.Skip("generated path does not decode")
			return nil, false
		}
		tr := func(p Pt) Pt { return m.dot(p) }
		epsPath := eps / math.Max(m.sigmaMin(), 1e-6)
		col := func(v []int) [4]float64 {
			return [4]float64{float64(v[0]), float64(v[1]), float64(v[2]), float64(v[3]) / 255}
		}
		if d.Fill != nil && (d.Grad || d.Fill[3] != 0) {
			pr := c12Prim{fill: subsToPolys(subs, epsPath, true, tr), rule: d.Rule, grad: d.Grad}
			if !d.Grad {
				pr.col = col(d.Fill)
			} else {
				pr.axis = []float64{0, 0, c.W, c.H} // gradients are given in canvas coordinates
				offs, cols := []float64{0, 1}, [][4]float64{{255, 0, 0, 255}, {0, 0, 255, 255}}
				if d.GStops != nil {
					offs, cols = nil, nil
					for i := 0; i+4 < len(d.GStops); i += 5 {
						offs = append(offs, d.GStops[i])
						cols = append(cols, [4]float64{d.GStops[i+1], d.GStops[i+2], d.GStops[i+3], d.GStops[i+4]})
					}
				}
				pr.ramp = c12Ramp(offs, cols)
			}
			prims = append(prims, pr)
		}
		if d.Stroke == nil || d.Stroke[3] == 0 || d.Width <= 0 {
			continue
		}
		// canonical dashes as DrawPath passes them on
		dashes, offset := append([]float64(nil), d.Dashes...), d.DashOff
		p := pathFrom(d.Data)
		var canon []float64
		strokeOK := true
		if !o.Call("Context.DrawPath", func() {
			// the canonical form and the 'first dash covers the whole path' rule are C05's subject: read
			// them off a recording of the same draw
			rec := &c15Recorder{w: c.W, h: c.H}
			ctx := canvas.NewContext(rec)
			ctx.SetStrokeColor(canvas.Black)
			ctx.SetFill(nil)
			ctx.SetStrokeWidth(d.Width)
			ctx.SetDashes(offset, dashes...)
			ctx.DrawPath(0, 0, p)
			if len(rec.calls) == 1 {
				canon, offset = rec.calls[0].Style.Dashes, rec.calls[0].Style.DashOffset // the offset belongs to the canonical pattern
				strokeOK = rec.calls[0].Style.HasStroke()
			} else {
				strokeOK = false
			}
		}) {
			return nil, false
		}
		if !strokeOK {
			continue
		}
		similar := math.Abs(m[0]*m[1]+m[3]*m[4]) < 1e-9*(m[0]*m[0]+m[3]*m[3]) && math.Abs((m[0]*m[0]+m[3]*m[3])-(m[1]*m[1]+m[4]*m[4])) < 1e-9*(m[0]*m[0]+m[3]*m[3])
		native := similar && (d.JoinX == 0 || d.JoinX == 1 || d.JoinX == 2 || d.JoinX == 5 || (d.JoinX == 3 && arcsNative))
		w := d.Width
		if native {
			sc := math.Sqrt(math.Abs(m.det()))
			pr := c12Prim{line: subsToPolys(subs, epsPath, false, tr), hw: w * sc / 2, cap: d.Cap, col: col(d.Stroke), dashOff: offset * w * sc}
			switch d.JoinX {
			case 0:
				pr.join, pr.limit = 0, 4
			case 5:
				pr.join, pr.limit = 0, 2
			case 1:
				pr.join = 2
			case 2:
				pr.join = 1
			case 3:
				pr.join, pr.limit = 3, 4
			}
			for _, v := range canon {
				pr.dashes = append(pr.dashes, v*w*sc)
			}
			prims = append(prims, pr)
			continue
		}
		var outline *canvas.Path
		if !o.Call("Path.Stroke", func() {
			q := p
			if len(canon) > 0 {
				off2, d2 := canvas.ScaleDash(w, offset, canon)
				q = q.Dash(off2, d2...)
			}
			outline = q.Stroke(w, c14Caps[d.Cap], c12Joins[d.JoinX], canvas.Tolerance)
		}) {
			return nil, false
		}
		osubs, err := geom.Decode(outline.Data())
		if err != nil {
			o.Skip("stroke outline does not decode")
			return nil, false
		}
		prims = append(prims, c12Prim{fill: subsToPolys(osubs, epsPath, true, tr), rule: 0, col: col(d.Stroke)})
	}
	return prims, true
}

func c12Str(c *c12Case) string {
	s := fmt.Sprintf("canvas %.6gx%.6g at %.6g px/mm, system %d:", c.W, c.H, c.DPMM, c.Sys)
	ds := append([]c12Draw(nil), c.Draws...)
	sort.SliceStable(ds, func(i, j int) bool { return ds[i].Z < ds[j].Z })
	for _, d := range ds {
		if d.Img != nil {
			s += fmt.Sprintf(" [image %dx%d px at %.4g px/mm at (%.6g,%.6g) view %v z %d]", d.Img[0], d.Img[1], d.Res, d.X, d.Y, d.View, d.Z)
			continue
		}
		s += fmt.Sprintf(" [%s at (%.6g,%.6g) view %v fill %v grad %v stroke %v w %.4g cap %d join %d dashes %v offset %.4g rule %d z %d]", dstr(d.Data), d.X, d.Y, d.View, d.Fill, d.Grad, d.Stroke, d.Width, d.Cap, d.JoinX, d.Dashes, d.DashOff, d.Rule, d.Z)
	}
	return s
}

func c12Describe(ci any) any { return map[string]any{"drawing": c12Str(ci.(*c12Case))} }

func init() {
	core.Register(&core.Property{
		ID:    "C12",
		Title: "SVG, PDF and PostScript output encode the drawing the rasterizer renders",
		Rule: "drawings of 1-3 styled paths (C14's shapes; opaque/translucent fills, linear gradients, strokes of 3 caps x {miter 4, miter 2, bevel, round, arcs, miter-clip}, dashes with offsets and zero entries, NonZero/EvenOdd, similarity and non-similarity views, four coordinate systems, z-indices) are rendered to SVG, PDF (compressed or not), PostScript/EPS and with the rasterizer; the vector outputs are interpreted by independent readers into painted primitives in canvas space (fills by exact winding numbers of an independent flattening; native strokes as distance bands around the dashes of the centre line, decided inside hw-1.5px, outside limit*hw+1.5px); " +
			"at 120 uniform pixels plus 30 per contour the colour each output prescribes (source-over) is compared with the rasterizer's pixel (4 levels); page sizes; linear gradient vectors (SVG, PDF) and the four corners of every image (all three outputs) are compared with where DrawImage/the gradient definition put them; PostScript is compared for opaque, gradient-free drawings only (documented limits of that back-end)",
		Strata: []core.Stratum{
			{Name: "mixed", Quick: 400, Thorough: 12000, Gen: genC12("mixed")},
			{Name: "similar", Quick: 300, Thorough: 8000, Gen: genC12("similar")},
			{Name: "dash", Quick: 300, Thorough: 8000, Gen: genC12("dash")},
			{Name: "ps", Quick: 300, Thorough: 8000, Gen: genC12("ps")},
			{Name: "state", Quick: 800, Thorough: 10000, Gen: genC12State},
			{Name: "nearsim", Quick: 400, Thorough: 8000, Gen: genC12("nearsim"), Note: "views that pass a one-sided similarity test (scale then rotation by 45 degrees and its transpose, shears with equal diagonal) next to true similarities and reflections"},
			{Name: "state-image", Quick: 500, Thorough: 10000, Gen: genC12StateImage, Note: "images between draws whose fills alternate between translucent and opaque"},
			{Name: "gradients", Quick: 500, Thorough: 10000, Gen: genC12("gradients"), Note: "linear gradients of 2-5 stops, first stop after 0 / last stop before 1: the colour ramp of the SVG stops and of the PDF shading function is compared at 11 positions"},
			{Name: "defaults", Quick: 500, Thorough: 10000, Gen: genC12("defaults"), Note: "paints and widths that are defaults of the output formats (opaque black and white, width 1), filled and stroked, on shapes where the fill rules differ"},
			{Name: "selfx-stroke", Quick: 200, Thorough: 4000, Gen: genC12("selfx-stroke"), WitnessOnly: true, Note: "strokes of closed self-crossing or nested contours: Path.Stroke loses lobes (F-C04-closed-selfx), so the rasterizer and the outline fall-backs differ from native strokes"},
		},
		NewCase:  func() any { return &c12Case{} },
		Check:    c12Check,
		Describe: c12Describe,
		Assumptions: []string{
			"the interpreters implement SVG 1.1 painting (path grammar, presentation attributes and style declarations, userSpaceOnUse gradients as 'painted, colour not judged'), PDF 32000-1 graphics state and path painting operators, and the PostScript operators the renderer emits (its ellipse procedures via harness/refsyn)",
			"the rasterizer image is the reference the property names; its own agreement with the analytic region is C14",
			"text is not part of these drawings; images are compared by placement (corner positions, order), not by pixel content",
		},
	})
}
