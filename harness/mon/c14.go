package mon

import (
	"bytes"
	"fmt"
	"image"
	"image/color"
	"math"
	"os"
	"sort"

	"github.com/tdewolff/canvas"
	"github.com/tdewolff/canvas/renderers/rasterizer"

	"verif/core"
	"verif/geom"
)

// C14: rasterization paints exactly the pixels inside the filled region.
//
// A case is a small drawing (1-3 styled paths under views, a coordinate system, z-indices) and a
// resolution. The image of rasterizer.Draw is compared, pixel by pixel at sampled pixel centres, with
// an analytic oracle: exact winding numbers of the transformed reference polygons decide fills, exact
// distances to the path decide strokes; a pixel is only judged when it is more than 1.5 pixels away
// from every boundary that could change its colour.

type c14Draw struct {
	Data   []float64
	Fill   []int // r g b a (non-premultiplied), nil: no fill
	Stroke []int
	Grad   bool // fill with a gradient instead of Fill
	GradR  bool `json:",omitempty"` // the gradient is radial (coverage and "painted" are judged, not its colour)
	// Dash: dash array of the stroke in units of the stroke width (nil: solid), DashOff its offset
	Dash    []float64 `json:",omitempty"`
	DashOff float64   `json:",omitempty"`
	// LStops: offset, R, G, B quintuples (alpha 255) of the linear gradient; nil: c14Stop0 at 0, c14Stop1 at 1
	LStops []float64 `json:",omitempty"`
	Width  float64
	Cap    int
	Join   int
	Rule   int // 0 NonZero, 1 EvenOdd
	X, Y   float64
	View   []float64
	Z      int
	Shape  string  `json:",omitempty"` // generator class of the shape
	Size   float64 `json:",omitempty"` // its nominal size
}

type c14Case struct {
	W, H  float64
	DPMM  float64
	Sys   int
	CS    int // 0 linear (default), 1 sRGB, 2 gamma 2.2
	Draws []c14Draw
	// Pic: a raster image of Pic[0] x Pic[1] pixels drawn below the shapes at (Pic[2], Pic[3]) % of the
	// canvas with Pic[4]/10 px/mm; its pixels are not judged, only that rendering does not alter it
	Pic  []int `json:",omitempty"`
	Kind string
}

func c14Shape(r *core.Rng, size float64, kind string) *canvas.Path {
	switch kind {
	case "selfx":
		return contoursPath([][]Pt{scalePts(selfCrossing(r, false), size/20)})
	case "nested":
		// two or three nested contours with random orientations: the fill rule decides the middle
		p := &canvas.Path{}
		n := r.IntRange(2, 3)
		for k := 0; k < n; k++ {
			s := size * (1 - 0.3*float64(k))
			addPoly(p, rectPoly(-s/2, -s/2, s/2, s/2, r.Bool()))
		}
		return p
	case "open":
		p := genPath(r, pathOpts{Kinds: kAll, MinSegs: 2, MaxSegs: 4, MaxSubs: 1, Closed: 0, MildCurve: true, CircArcs: true, Scale: size / 100})
		return p
	case "poly":
		return contoursPath([][]Pt{starPoly(r, 0, 0, size*0.25, size*0.5, r.IntRange(3, 9), r.Bool())})
	case "dense":
		// a closed polyline sampled much finer than the image: 600-3000 vertices on a wavy ring, so that
		// consecutive vertices are hundredths of a pixel apart
		n := r.IntRange(600, 3000)
		lobes := float64(r.IntRange(0, 5))
		amp := r.Range(0, 0.25)
		pts := make([]Pt, n)
		for i := range pts {
			a := 2 * math.Pi * float64(i) / float64(n)
			rad := size * 0.45 * (1 - amp + amp*math.Cos(lobes*a))
			pts[i] = Pt{X: rad * math.Cos(a), Y: rad * math.Sin(a)}
		}
		if r.Bool() {
			for i, j := 0, n-1; i < j; i, j = i+1, j-1 {
				pts[i], pts[j] = pts[j], pts[i]
			}
		}
		return contoursPath([][]Pt{pts})
	}
	return simpleClosedShape(r, 0, 0, size*0.45, r.Bool())
}

func scalePts(pts []Pt, f float64) []Pt {
	out := make([]Pt, len(pts))
	for i, p := range pts {
		out[i] = Pt{X: p.X * f, Y: p.Y * f}
	}
	return out
}

// c14CrossesTopLeft reports whether any shape (with its stroke) reaches beyond the top or the left
// border of the image.
func c14CrossesTopLeft(c *c14Case) bool {
	for k := range c.Draws {
		d := &c.Draws[k]
		view := affI
		if d.View != nil {
			var v aff
			copy(v[:], d.View)
			view = affAbout(v, d.X, d.Y)
		}
		m := sysView(c.Sys, c.W, c.H).mul(view).mul(affT(d.X, d.Y))
		subs, err := geom.Decode(d.Data)
		if err != nil {
			return true
		}
		pad := 1.5 / c.DPMM
		if d.Stroke != nil {
			pad += d.Width / 2 * 4.2 * math.Sqrt(m[0]*m[0]+m[1]*m[1]+m[3]*m[3]+m[4]*m[4])
		}
		top := float64(int(c.H*c.DPMM+0.5)) / c.DPMM
		for _, p := range geom.SampleSubs(subs, 16) {
			q := m.dot(p)
			if q.X-pad < 0 || q.Y+pad > top {
				return true
			}
		}
	}
	return false
}

func genC14(kind string) func(r *core.Rng) any {
	return func(r *core.Rng) any {
		for {
			c := genC14Once(kind, r)
			// shapes that cross the top or the left border are the subject of the stratum "border" only
			// (finding F-C14-top-left-border)
			if c14CrossesTopLeft(c) == (kind == "border") {
				return c
			}
		}
	}
}

func genC14Once(kind string, r *core.Rng) *c14Case {
	{
		c := &c14Case{W: r.Range(8, 40), H: r.Range(8, 40), Kind: kind}
		c.DPMM = core.PickF(r, []float64{1, 2, 3.7, 5, 8, r.Range(0.5, 10)})
		small := kind == "lowres" || r.Chance(0.3) // small shapes anywhere on the canvas instead of large ones near the middle
		if kind == "lowres" {
			// large canvases at less than one pixel per millimetre
			c.W, c.H = r.Range(40, 300), r.Range(40, 300)
			c.DPMM = r.Range(20/math.Min(c.W, c.H), 1)
		}
		if c.W*c.DPMM > 320 {
			c.DPMM = 320 / c.W
		}
		if c.H*c.DPMM > 320 {
			c.DPMM = 320 / c.H
		}
		c.Sys = r.Intn(4)
		c.CS = core.PickI(r, []int{0, 0, 0, 1, 2})
		if kind == "images" {
			c.CS = core.PickI(r, []int{0, 1, 1, 2})
			c.Pic = []int{r.IntRange(2, 8), r.IntRange(2, 8), r.IntRange(5, 60), r.IntRange(5, 60), core.PickI(r, []int{10, 20, 5, 37})}
		}
		n := r.IntRange(1, 3)
		for k := 0; k < n; k++ {
			size := math.Min(c.W, c.H) * r.Range(0.4, 0.9)
			if small {
				size = math.Min(c.W, c.H) * r.Range(0.15, 0.4)
			}
			sk := core.PickS(r, []string{"curved", "poly", "selfx", "nested", "open"})
			if kind == "rule" {
				sk = core.PickS(r, []string{"selfx", "nested"})
			}
			if kind == "dense" {
				sk = "dense"
			}
			if kind == "gradient-stops" {
				sk = core.PickS(r, []string{"curved", "poly"})
			}
			d := c14Draw{Data: dataCopy(c14Shape(r, size, sk)), X: c.W * r.Range(0.3, 0.7), Y: c.H * r.Range(0.3, 0.7), Rule: r.Intn(2), Z: core.PickI(r, []int{0, 0, 0, 1, -1}), Shape: sk, Size: size}
			col := func() []int {
				a := 255
				if n == 1 && c.CS == 0 && r.Chance(0.3) {
					a = core.PickI(r, []int{128, 64, 200})
				}
				return []int{r.Intn(256), r.Intn(256), r.Intn(256), a}
			}
			if sk != "open" || r.Chance(0.3) {
				d.Fill = col()
				if r.Chance(0.1) {
					d.Grad = true
					d.GradR = r.Chance(0.4)
				}
			}
			if kind == "dashed" || kind == "dashed-short" {
				// dashed strokes of widths other than 1 (dash lengths are multiples of the width)
				d.Stroke = col()
				d.Width = r.Range(0.4, 2.5)
				d.Cap, d.Join = r.Intn(3), r.Intn(3)
				for k, nd := 0, r.IntRange(1, 3); k < nd; k++ {
					d.Dash = append(d.Dash, r.Range(1.5, 5))
				}
				d.DashOff = core.PickF(r, []float64{0, 0, 1, r.Range(-3, 3)})
				if r.Bool() {
					d.Fill = nil
				}
				// at least four periods along the path: what DrawPath does with paths shorter than a dash or a
				// gap (it may drop the dashes or the stroke) is not this property's subject
				per := 0.0
				for _, v := range d.Dash {
					per += v * d.Width
				}
				if len(d.Dash)%2 == 1 {
					per *= 2
				}
				if L := pathFrom(d.Data).Length(); kind == "dashed-short" && L > 0 {
					// a path of the order of one dash or gap: where it starts in the pattern decides whether
					// it is stroked whole, in part or not at all
					f := L * r.Range(0.3, 3) / per
					for i := range d.Dash {
						d.Dash[i] *= f
					}
					if r.Chance(0.3) {
						d.Dash = append([]float64{0}, d.Dash...) // a leading zero: the pattern starts with a gap
					}
				} else if per > L/4 && L > 0 {
					f := L / 4 / per
					for i := range d.Dash {
						d.Dash[i] *= f
					}
				}
			}
			if kind == "gradient-stops" {
				// a large shape filled with a linear gradient of 2-4 stops; the first may lie after 0, the last
				// before 1 (strictly increasing offsets with two decimals)
				d.Fill, d.Grad, d.GradR = col(), true, false
				d.Fill[3] = 255
				ns := r.IntRange(2, 4)
				off := 0.0
				if r.Chance(0.6) {
					off = float64(r.IntRange(5, 45)) / 100
				}
				for i := 0; i < ns; i++ {
					d.LStops = append(d.LStops, off, float64(r.Intn(256)), float64(r.Intn(256)), float64(r.Intn(256)))
					off += float64(r.IntRange(10, 30)) / 100
					if i == ns-2 && r.Chance(0.4) {
						off = 1
					}
					if off > 1 {
						off = 1
					}
				}
				// offsets must be strictly increasing: drop stops that ran into 1 twice
				for len(d.LStops) >= 8 && d.LStops[len(d.LStops)-4] <= d.LStops[len(d.LStops)-8] {
					d.LStops = d.LStops[:len(d.LStops)-4]
				}
			}
			if sk == "open" || r.Chance(0.4) {
				d.Stroke = col()
				d.Width = r.Range(0.3, 3)
				d.Cap, d.Join = r.Intn(3), r.Intn(3)
				if r.Chance(0.6) {
					d.Cap, d.Join = 1, 2 // round cap, round join: the stroke region is exactly the distance band
				}
			}
			if kind == "view" || r.Chance(0.4) {
				m := affI
				switch r.Intn(5) {
				case 0:
					m = affR(r.Range(-180, 180))
				case 1:
					m = affS(r.Range(0.5, 1.6), r.Range(0.5, 1.6))
				case 2:
					m = affSh(r.Range(-0.7, 0.7), r.Range(-0.7, 0.7))
				case 3:
					m = affS(-1, 1).mul(affR(r.Range(-90, 90)))
				case 4:
					m = affR(r.Range(-180, 180)).mul(affS(r.Range(0.6, 1.5), r.Range(0.6, 1.5)))
				}
				// keep the drawing position fixed: the view is applied about the drawing point
				d.View = m[:]
			}
			if small {
				d.X, d.Y = c.W*r.Range(0.1, 0.9), c.H*r.Range(0.1, 0.9)
			}
			c.Draws = append(c.Draws, d)
		}
		return c
	}
}

// mid-tone stops: a colour-space conversion applied to the caller's gradient would change them
var c14Stop0 = color.RGBA{200, 100, 50, 255}
var c14Stop1 = color.RGBA{30, 160, 220, 255}

var c14Caps = []canvas.Capper{canvas.ButtCap, canvas.RoundCap, canvas.SquareCap}
var c14Joins = []canvas.Joiner{canvas.MiterJoin, canvas.BevelJoin, canvas.RoundJoin}

func nrgba(i []int) color.NRGBA {
	return color.NRGBA{uint8(i[0]), uint8(i[1]), uint8(i[2]), uint8(i[3])}
}

// sigmaMin returns the smallest singular value of the linear part.
func (m aff) sigmaMin() float64 {
	a, b, c, d := m[0], m[1], m[3], m[4]
	s1 := a*a + b*b + c*c + d*d
	s2 := math.Sqrt(math.Max(0, (a*a+b*b-c*c-d*d)*(a*a+b*b-c*c-d*d)+4*(a*c+b*d)*(a*c+b*d)))
	return math.Sqrt(math.Max(0, (s1-s2)/2))
}

func (m aff) inv() aff {
	det := m.det()
	return aff{m[4] / det, -m[1] / det, (m[1]*m[5] - m[4]*m[2]) / det, -m[3] / det, m[0] / det, (m[3]*m[2] - m[0]*m[5]) / det}
}

type c14Layer struct {
	d         *c14Draw
	m, minv   aff
	fillDev   []geom.Poly // closed reference polygons in canvas space (mm)
	linePath  []geom.Poly // reference polylines in path space (open kept open)
	strokeDev []geom.Poly // outline of the stroke in canvas space
	smin      float64
	seq       int
	grad      *canvas.LinearGradient
	gradR     *canvas.RadialGradient
}

func c14Check(ci any, o *core.Obs) {
	c := ci.(*c14Case)
	checkGlobals(o)
	cv := canvas.New(c.W, c.H)
	ctx := canvas.NewContext(cv)
	ctx.SetCoordSystem(canvas.CoordSystem(c.Sys))
	var layers []*c14Layer
	var pic, picCopy *image.RGBA
	if len(c.Pic) == 5 {
		pic = image.NewRGBA(image.Rect(0, 0, c.Pic[0], c.Pic[1]))
		for i := range pic.Pix {
			pic.Pix[i] = uint8(60 + 17*i%120)
			if i%4 == 3 {
				pic.Pix[i] = 255
			}
		}
		picCopy = image.NewRGBA(pic.Bounds())
		copy(picCopy.Pix, pic.Pix)
		ctx.SetZIndex(-5)
		ctx.DrawImage(c.W*float64(c.Pic[2])/100, c.H*float64(c.Pic[3])/100, pic, canvas.DPMM(float64(c.Pic[4])/10))
	}
	for k := range c.Draws {
		d := &c.Draws[k]
		p := pathFrom(d.Data)
		view := affI
		if d.View != nil {
			var v aff
			copy(v[:], d.View)
			// view about the drawing point so that the shape stays on the canvas
			view = affAbout(v, d.X, d.Y)
		}
		L := &c14Layer{d: d, seq: k}
		ctx.SetZIndex(d.Z)
		ctx.SetView(view.lib())
		ctx.SetFill(nil)
		ctx.SetStroke(nil)
		if d.Fill != nil {
			if d.Grad && d.GradR {
				// concentric, centred on a pixel centre near the drawing position
				cx := (math.Floor(d.X*c.DPMM) + 0.5) / c.DPMM
				cy := (math.Floor(d.Y*c.DPMM) + 0.5) / c.DPMM
				L.gradR = canvas.NewRadialGradient(canvas.Point{X: cx, Y: cy}, 0, canvas.Point{X: cx, Y: cy}, math.Max(d.Size, 5))
				L.gradR.Add(0, c14Stop0)
				L.gradR.Add(1, c14Stop1)
				ctx.SetFillGradient(L.gradR)
			} else if d.Grad {
				// in canvas coordinates (mm, Y up), across the whole canvas
				L.grad = canvas.NewLinearGradient(canvas.Point{X: 0, Y: 0}, canvas.Point{X: c.W, Y: c.H})
				if d.LStops == nil {
					L.grad.Add(0, c14Stop0)
					L.grad.Add(1, c14Stop1)
				}
				for i := 0; i+3 < len(d.LStops); i += 4 {
					L.grad.Add(d.LStops[i], color.RGBA{uint8(d.LStops[i+1]), uint8(d.LStops[i+2]), uint8(d.LStops[i+3]), 255})
				}
				ctx.SetFillGradient(L.grad)
			} else {
				ctx.SetFillColor(nrgba(d.Fill))
			}
		}
		if d.Stroke != nil {
			ctx.SetStrokeColor(nrgba(d.Stroke))
			ctx.SetStrokeWidth(d.Width)
			ctx.SetStrokeCapper(c14Caps[d.Cap])
			ctx.SetStrokeJoiner(c14Joins[d.Join])
			ctx.SetDashes(d.DashOff, d.Dash...)
		}
		ctx.SetFillRule(canvas.FillRule(d.Rule))
		ctx.DrawPath(d.X, d.Y, p)
		L.m = sysView(c.Sys, c.W, c.H).mul(view).mul(affT(d.X, d.Y))
		L.minv = L.m.inv()
		L.smin = L.m.sigmaMin()
		subs, err := geom.Decode(d.Data)
		if err != nil {
			o.Skip("generated path does not decode: " + err.Error())
			return
		}
		eps := 0.01 / c.DPMM / math.Max(L.smin, 1e-6) // a hundredth of a pixel
		L.linePath = geom.Flatten(subs, eps, false)
		closed := geom.Flatten(subs, eps, true)
		for _, poly := range closed {
			q := geom.Poly{Closed: true}
			for _, v := range poly.V {
				vv := v
				vv.P = L.m.dot(v.P)
				q.V = append(q.V, vv)
			}
			L.fillDev = append(L.fillDev, q)
		}
		if d.Stroke != nil {
			// the stroke region is the outline Path.Stroke returns (its geometry is C04's subject), moved
			// to the canvas by this monitor's own arithmetic and filled non-zero
			var outline *canvas.Path
			if !o.Call("Path.Stroke", func() {
				q := p
				if len(d.Dash) > 0 {
					// dashes are given in units of the stroke width
					ds := make([]float64, len(d.Dash))
					for i := range ds {
						ds[i] = d.Dash[i] * d.Width
					}
					q = p.Dash(d.DashOff*d.Width, ds...)
				}
				outline = q.Stroke(d.Width, c14Caps[d.Cap], c14Joins[d.Join], 0.1/c.DPMM) // a tenth of a pixel, as documented for PixelTolerance
			}) {
				return
			}
			osubs, err := geom.Decode(outline.Data())
			if err != nil {
				o.Skip("stroke outline does not decode: " + err.Error())
				return
			}
			for _, poly := range geom.Flatten(osubs, eps, true) {
				q := geom.Poly{Closed: true}
				for _, v := range poly.V {
					vv := v
					vv.P = L.m.dot(v.P)
					q.V = append(q.V, vv)
				}
				L.strokeDev = append(L.strokeDev, q)
			}
		}
		layers = append(layers, L)
	}
	sort.SliceStable(layers, func(i, j int) bool { return layers[i].d.Z < layers[j].d.Z })
	// snapshot of the recorded operations
	snap := func() []c15Call {
		rec := &c15Recorder{w: cv.W, h: cv.H}
		cv.RenderTo(rec)
		return rec.calls
	}
	before := snap()
	var css = []canvas.ColorSpace{canvas.LinearColorSpace{}, canvas.SRGBColorSpace{}, canvas.GammaColorSpace{Gamma: 2.2}}
	var img, img2 *image.RGBA
	if !o.Call("rasterizer.Draw", func() { img = rasterizer.Draw(cv, canvas.DPMM(c.DPMM), css[c.CS]) }) {
		return
	}
	if !o.Call("rasterizer.Draw", func() { img2 = rasterizer.Draw(cv, canvas.DPMM(c.DPMM), css[c.CS]) }) {
		return
	}
	o.NonTrivial()
	wpx, hpx := int(c.W*c.DPMM+0.5), int(c.H*c.DPMM+0.5)
	o.Decided(1)
	if img.Bounds().Dx() != wpx || img.Bounds().Dy() != hpx {
		o.Fail("size", "image is %dx%d pixels for a canvas of %gx%g mm at %g px/mm, expected %dx%d", img.Bounds().Dx(), img.Bounds().Dy(), c.W, c.H, c.DPMM, wpx, hpx)
		return
	}
	if !bytes.Equal(img.Pix, img2.Pix) {
		o.Fail("repeat", "rendering the same canvas twice gives different images; %s", c14Str(c))
		return
	}
	if pic != nil && !bytes.Equal(pic.Pix, picCopy.Pix) {
		o.Fail("image-changed", "rendering changed the pixels of the image drawn on the canvas (first pixel %v, was %v); %s", pic.Pix[:4], picCopy.Pix[:4], c14Str(c))
		return
	}
	// the box of the image on the canvas (from the recorded call), two pixels wider: not judged
	picBox := geom.EmptyBox()
	for _, cl := range before {
		if cl.Kind == "image" && cl.Img != nil {
			m := affOf(cl.M)
			b := cl.Img.Bounds()
			for _, q := range []Pt{{0, 0}, {float64(b.Dx()), 0}, {0, float64(b.Dy())}, {float64(b.Dx()), float64(b.Dy())}} {
				picBox = picBox.Add(m.dot(q))
			}
		}
	}
	after := snap()
	if len(before) != len(after) {
		o.Fail("canvas-changed", "the canvas replays %d operations after rendering, %d before", len(after), len(before))
		return
	}
	for k := range before {
		if !bitsEqual(before[k].Data, after[k].Data) || before[k].M != after[k].M || before[k].Style.Fill.Color != after[k].Style.Fill.Color || before[k].Style.Fill.Gradient != after[k].Style.Fill.Gradient {
			o.Fail("canvas-changed", "rendering changed recorded operation %d", k)
			return
		}
	}
	for _, L := range layers {
		if L.grad != nil {
			changed := L.grad.Start != (canvas.Point{X: 0, Y: 0}) || L.grad.End != (canvas.Point{X: c.W, Y: c.H})
			if L.d.LStops == nil {
				changed = changed || len(L.grad.Stops) != 2 || L.grad.Stops[0].Color != c14Stop0 || L.grad.Stops[1].Color != c14Stop1
			} else {
				changed = changed || len(L.grad.Stops) != len(L.d.LStops)/4
				for i := 0; !changed && i < len(L.grad.Stops); i++ {
					st := L.grad.Stops[i]
					changed = st.Offset != L.d.LStops[4*i] || st.Color != (color.RGBA{uint8(L.d.LStops[4*i+1]), uint8(L.d.LStops[4*i+2]), uint8(L.d.LStops[4*i+3]), 255})
				}
			}
			if changed {
				o.Fail("gradient-changed", "rendering changed the gradient of the caller: %+v", L.grad)
				return
			}
		}
		if L.gradR != nil {
			if len(L.gradR.Stops) != 2 || L.gradR.Stops[0].Color != c14Stop0 || L.gradR.Stops[1].Color != c14Stop1 {
				o.Fail("gradient-changed", "rendering changed the gradient of the caller: %+v", L.gradR)
				return
			}
		}
	}
	if os.Getenv("VERIF_C14_DUMP") != "" {
		// development aid: image (left) and oracle (right) as character maps
		for j := 0; j < hpx; j++ {
			row, orow := "", ""
			for i := 0; i < wpx; i++ {
				g := img.RGBAAt(i, j)
				ch := "."
				if g.A > 0 {
					ch = string(rune('a' + int(g.R)%26))
				}
				row += ch
				q := Pt{X: (float64(i) + 0.5) / c.DPMM, Y: (float64(hpx) - (float64(j) + 0.5)) / c.DPMM}
				oc := "."
				for _, L := range layers {
					if L.d.Fill != nil {
						w := geom.Winding(q, L.fillDev)
						if (L.d.Rule == 0 && w != 0) || (L.d.Rule == 1 && w%2 != 0) {
							oc = string(rune('A' + L.seq))
						}
					}
					if L.d.Stroke != nil && geom.Winding(q, L.strokeDev) != 0 {
						oc = string(rune('0' + L.seq))
					}
				}
				orow += oc
			}
			fmt.Println(row + "   " + orow)
		}
	}
	// pixels to judge: a uniform sample plus pixels around every boundary
	r := caseRng(c, "pixels")
	type px struct{ i, j int }
	var samples []px
	for k := 0; k < 160; k++ {
		samples = append(samples, px{r.Intn(wpx), r.Intn(hpx)})
	}
	for _, L := range layers {
		for _, poly := range L.fillDev {
			for k := 0; k < 40 && len(poly.V) > 1; k++ {
				vi := r.Intn(len(poly.V))
				a, b := poly.V[vi].P, poly.V[(vi+1)%len(poly.V)].P
				p := a.Lerp(b, r.Float())
				n := Pt{X: -(b.Y - a.Y), Y: b.X - a.X}
				if l := n.Len(); l > 0 {
					n = n.Mul(1 / l)
				}
				off := r.Range(1.6, 5) / c.DPMM
				if L.d.Stroke != nil && r.Bool() {
					off = L.d.Width/2*L.smin + r.Range(-4, 4)/c.DPMM
				}
				if r.Bool() {
					off = -off
				}
				q := p.Add(n.Mul(off))
				i, j := int(math.Floor(q.X*c.DPMM)), int(math.Floor(float64(hpx)-q.Y*c.DPMM))
				if i >= 0 && j >= 0 && i < wpx && j < hpx {
					samples = append(samples, px{i, j})
				}
			}
		}
	}
	for _, L := range layers {
		if L.gradR != nil {
			i, j := int(math.Floor(L.gradR.C0.X*c.DPMM)), int(math.Floor(float64(hpx)-L.gradR.C0.Y*c.DPMM))
			if i >= 0 && j >= 0 && i < wpx && j < hpx {
				samples = append(samples, px{i, j})
			}
		}
	}
	const margin = 1.5 // pixels: 1 from the property, the rest for the flattening tolerance and 26.6 rounding
	judged, skipped := 0, 0
	for _, s := range samples {
		q := Pt{X: (float64(s.i) + 0.5) / c.DPMM, Y: (float64(hpx) - (float64(s.j) + 0.5)) / c.DPMM}
		if !picBox.Empty() && q.X > picBox.X0-6/c.DPMM && q.X < picBox.X1+6/c.DPMM && q.Y > picBox.Y0-6/c.DPMM && q.Y < picBox.Y1+6/c.DPMM {
			skipped++
			continue
		}
		// expected colour: premultiplied RGBA in 0..255, known or not
		var exp [4]float64
		known := true
		blended := false
		untouched := true
		var gradCol *[4]float64
		paint := func(col []int, grad bool) {
			untouched = false
			if grad && gradCol != nil {
				// linear gradient in the linear colour space: the colour along the gradient vector
				blended = true // interpolation and sub-pixel position: three levels of slack
				for ch := 0; ch < 4; ch++ {
					exp[ch] = gradCol[ch]
				}
				gradCol = nil
				return
			}
			if grad {
				known = false
				return
			}
			a := float64(col[3]) / 255
			if col[3] != 255 {
				blended = true
			}
			src := [4]float64{float64(col[0]) * a, float64(col[1]) * a, float64(col[2]) * a, float64(col[3])}
			for ch := 0; ch < 4; ch++ {
				exp[ch] = src[ch] + exp[ch]*(1-a)
			}
		}
		ambiguous := false
		diag := ""
		for _, L := range layers {
			d := L.d
			gradCol = nil
			if d.Fill != nil && d.Grad && !d.GradR && c.CS == 0 {
				t := (q.X*c.W + q.Y*c.H) / (c.W*c.W + c.H*c.H)
				t = math.Min(1, math.Max(0, t))
				gradCol = &[4]float64{}
				offs, cols := []float64{0, 1}, [][4]float64{{float64(c14Stop0.R), float64(c14Stop0.G), float64(c14Stop0.B), 255}, {float64(c14Stop1.R), float64(c14Stop1.G), float64(c14Stop1.B), 255}}
				if d.LStops != nil {
					offs, cols = nil, nil
					for i := 0; i+3 < len(d.LStops); i += 4 {
						offs = append(offs, d.LStops[i])
						cols = append(cols, [4]float64{d.LStops[i+1], d.LStops[i+2], d.LStops[i+3], 255})
					}
				}
				// the first colour before the first stop, the last after the last one, linear in between
				switch {
				case t <= offs[0]:
					*gradCol = cols[0]
				case t >= offs[len(offs)-1]:
					*gradCol = cols[len(cols)-1]
				default:
					for i := 0; i+1 < len(offs); i++ {
						if t >= offs[i] && t <= offs[i+1] {
							u := (t - offs[i]) / (offs[i+1] - offs[i])
							for ch := 0; ch < 4; ch++ {
								gradCol[ch] = (1-u)*cols[i][ch] + u*cols[i+1][ch]
							}
							break
						}
					}
				}
			}
			if d.Fill != nil {
				dist := geom.DistPtPolys(q, L.fillDev) * c.DPMM
				diag += fmt.Sprintf(" shape %d: %.1f px from the outline, winding %d;", L.seq, dist, geom.Winding(q, L.fillDev))
				if dist <= margin {
					ambiguous = true
					break
				}
				w := geom.Winding(q, L.fillDev)
				in := w != 0
				if d.Rule == 1 {
					in = w%2 != 0
				}
				if in {
					paint(d.Fill, d.Grad)
				}
			}
			if d.Stroke != nil && !ambiguous {
				dist := geom.DistPtPolys(q, L.strokeDev) * c.DPMM
				w := geom.Winding(q, L.strokeDev)
				diag += fmt.Sprintf(" shape %d stroke outline: %.1f px away, winding %d;", L.seq, dist, w)
				if dist <= margin {
					ambiguous = true
					break
				}
				if w != 0 {
					paint(d.Stroke, false)
				}
			}
		}
		if ambiguous {
			skipped++
			continue
		}
		judged++
		o.Decided(1)
		got := img.RGBAAt(s.i, s.j)
		switch {
		case untouched:
			if got != (color.RGBA{}) {
				o.Fail("painted-outside", "pixel (%d,%d) (canvas point %.4g,%.4g) is more than %.1f pixels outside every shape but has colour %v (%s); %s", s.i, s.j, q.X, q.Y, margin, got, diag, c14Str(c))
				return
			}
		case !known:
			if got.A == 0 {
				o.Fail("not-painted", "pixel (%d,%d) (canvas point %.4g,%.4g) lies inside a gradient-filled shape by more than %.1f pixels but is untouched; %s", s.i, s.j, q.X, q.Y, margin, c14Str(c))
				return
			}
		default:
			g := [4]float64{float64(got.R), float64(got.G), float64(got.B), float64(got.A)}
			worst := 0.0
			for ch := 0; ch < 4; ch++ {
				lo, hi := exp[ch]-1.01, exp[ch]+1.01
				if blended {
					lo, hi = exp[ch]-3.01, exp[ch]+3.01 // premultiplication is rounded twice
				}
				if c.CS != 0 && ch < 3 {
					// the image is kept in 8-bit linear light and converted back at the end: the paint
					// survives only up to that quantisation
					lo, hi = c14RoundTrip(c.CS, exp[ch])
				}
				worst = math.Max(worst, math.Max(lo-g[ch], g[ch]-hi))
			}
			o.Max("colour_deviation_beyond_quantisation_levels", math.Max(worst, 0))
			if worst > 0 {
				tag := "wrong-colour"
				if got == (color.RGBA{}) {
					tag = "not-painted"
				}
				o.Fail(tag, "pixel (%d,%d) (canvas point %.4g,%.4g) has colour %v, expected premultiplied (%.0f,%.0f,%.0f,%.0f) from the topmost shape covering it (%s); %s", s.i, s.j, q.X, q.Y, got, exp[0], exp[1], exp[2], exp[3], diag, c14Str(c))
				return
			}
		}
	}
	o.Count("pixels_judged", float64(judged))
	o.Count("pixels_within_margin_skipped", float64(skipped))
}

// c14RoundTrip returns the range of 8-bit values an opaque channel value v can come back as after
// conversion to linear light (quantised to 8 bits, one level of slack) and back.
func c14RoundTrip(cs int, v float64) (lo, hi float64) {
	toLin := func(c float64) float64 {
		if cs == 2 {
			return math.Pow(c, 2.2)
		}
		if c <= 0.04045 {
			return c / 12.92
		}
		return math.Pow((c+0.055)/1.055, 2.4)
	}
	fromLin := func(c float64) float64 {
		c = math.Min(math.Max(c, 0), 1)
		if cs == 2 {
			return math.Pow(c, 1/2.2)
		}
		if c < 0.0031308 {
			return 12.92 * c
		}
		return 1.055*math.Pow(c, 1/2.4) - 0.055
	}
	lin := math.Round(toLin(v/255) * 255)
	return math.Floor(fromLin((lin-1)/255)*255) - 1, math.Ceil(fromLin((lin+1)/255)*255) + 1
}

// c14AwayFromEnds: for butt and square caps the distance band is cut off (or extended) at the ends of
// open sub-paths; a point is judged as stroked only if it is farther than r from every open end.
func c14AwayFromEnds(q Pt, polys []geom.Poly, r float64) bool {
	for _, p := range polys {
		if p.Closed || len(p.V) == 0 {
			continue
		}
		if q.Dist(p.V[0].P) < r*1.5 || q.Dist(p.V[len(p.V)-1].P) < r*1.5 {
			return false
		}
	}
	return true
}

func c14Str(c *c14Case) string {
	s := fmt.Sprintf("canvas %.6gx%.6g at %.6g px/mm, system %d, colour space %d:", c.W, c.H, c.DPMM, c.Sys, c.CS)
	for _, d := range c.Draws {
		s += fmt.Sprintf(" [%s at (%.6g,%.6g) view %v fill %v grad %v stroke %v w %.4g cap %d join %d rule %d z %d]", dstr(d.Data), d.X, d.Y, d.View, d.Fill, d.Grad, d.Stroke, d.Width, d.Cap, d.Join, d.Rule, d.Z)
	}
	return s
}

func c14Describe(ci any) any { return map[string]any{"drawing": c14Str(ci.(*c14Case))} }

func init() {
	core.Register(&core.Property{
		ID:    "C14",
		Title: "Rasterization paints exactly the pixels inside the filled region",
		Rule: "drawings of 1-3 shapes (curved simple contours, star polygons, self-crossing polygons, nested contours of mixed orientation, open curves) with opaque or (single shape) translucent fills, linear-gradient fills, strokes of 3 caps x 3 joins, NonZero/EvenOdd, views (rotation, anisotropic scale, shear, reflection) about the drawing point, four coordinate systems, z-indices, 0.5-10 px/mm (stratum lowres: canvases of 40-300 mm at 0.07-1 px/mm), large shapes near the middle or small shapes anywhere, linear/sRGB/gamma colour spaces are rendered with rasterizer.Draw; " +
			"160 uniformly drawn pixels and 40 pixels per contour placed 1.6-5 pixels (or around half the stroke width) off the boundary are judged against exact winding numbers and exact distances of an independent flattening (0.01 pixel): more than 1.5 pixels inside => the paint of the topmost covering shape (source-over for the translucent case), more than 1.5 pixels outside everything => untouched; image size, bit-identical second rendering, canvas operations and gradients unchanged",
		Strata: []core.Stratum{
			{Name: "mixed", Quick: 500, Thorough: 40000, Gen: genC14("mixed")},
			{Name: "view", Quick: 300, Thorough: 25000, Gen: genC14("view")},
			{Name: "rule", Quick: 300, Thorough: 15000, Gen: genC14("rule")},
			{Name: "lowres", Quick: 300, Thorough: 8000, Gen: genC14("lowres")},
			{Name: "dashed-short", Quick: 300, Thorough: 6000, Gen: genC14("dashed-short"), Note: "dashed strokes of paths about as long as one dash or gap of the pattern (Context.DrawPath decides for them whether the stroke is solid, dashed or absent)"},
			{Name: "dashed", Quick: 300, Thorough: 8000, Gen: genC14("dashed"), Note: "dashed strokes of widths other than 1 (the canvas keeps dashes in units of the width; every rendering scales them)"},
			{Name: "images", Quick: 200, Thorough: 4000, Gen: genC14("images"), Note: "a raster image below the shapes, mostly in non-linear colour spaces: rendering twice gives the same image and leaves the source image alone (the image's own pixels are not judged)"},
			{Name: "gradient-stops", Quick: 300, Thorough: 8000, Gen: genC14("gradient-stops"), Note: "linear gradients of 2-4 stops whose first stop may lie after 0 and whose last before 1"},
			{Name: "dense", Quick: 60, Thorough: 1500, Gen: genC14("dense"), Note: "closed polylines of 600-3000 vertices, hundredths of a pixel apart"},
			{Name: "border", Quick: 300, Thorough: 6000, Gen: genC14("border"), WitnessOnly: true, Note: "shapes crossing the top or the left border of the image: geometry within one pixel outside those borders is accumulated into row 0 / column 0 (integer truncation in the scanx dependency), about 1 case in 100"},
		},
		NewCase:  func() any { return &c14Case{} },
		Check:    c14Check,
		Describe: c14Describe,
		Assumptions: []string{
			"harness/geom flattening (0.01 pixel), exact-sign winding numbers and point-segment distances",
			"the stroke region is the outline returned by Path.Stroke for the style (C04 decides its geometry); the monitor transforms and fills it itself",
			"text and images are not part of the drawings (C16/C18 and C12)",
		},
	})
}
