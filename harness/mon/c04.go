package mon

import (
	"math"

	"github.com/tdewolff/canvas"

	"verif/core"
	"verif/geom"
)

type c04Case struct {
	P     []float64
	W     float64 // stroke width, or offset distance in mode "offset"
	Cap   int     // 0 butt 1 round 2 square
	Join  int     // 0 bevel 1 round 2 miter 3 miterclip 4 arcs 5 arcsclip
	Limit float64
	Tol   float64
	Mode  string // "stroke" | "offset"
	Kind  string
}

var capNames = []string{"Butt", "Round", "Square"}
var joinNames = []string{"Bevel", "Round", "Miter", "MiterClip", "Arcs", "ArcsClip"}

func (c *c04Case) capper() canvas.Capper {
	return []canvas.Capper{canvas.ButtCap, canvas.RoundCap, canvas.SquareCap}[c.Cap]
}
func (c *c04Case) joiner() canvas.Joiner {
	switch c.Join {
	case 0:
		return canvas.BevelJoin
	case 1:
		return canvas.RoundJoin
	case 2:
		return canvas.MiterJoiner{GapJoiner: canvas.BevelJoin, Limit: c.Limit}
	case 3:
		return canvas.MiterJoiner{GapJoiner: nil, Limit: c.Limit}
	case 4:
		return canvas.ArcsJoiner{GapJoiner: canvas.BevelJoin, Limit: c.Limit}
	}
	return canvas.ArcsJoiner{GapJoiner: nil, Limit: c.Limit}
}

func genC04(kind string) func(r *core.Rng) any {
	return func(r *core.Rng) any {
		c := &c04Case{Mode: "stroke", Kind: kind, Cap: r.Intn(3), Join: r.Intn(6), Limit: core.PickF(r, []float64{1, 2, 4, 10}), Tol: core.PickF(r, []float64{0.1, 0.01, 0.001})}
		var p *canvas.Path
		s := 5.0
		c.W = s * r.LogRange(0.05, 4)
		switch kind {
		case "open-polylines":
			p = genPath(r, pathOpts{Kinds: kLine, MinSegs: 1, MaxSegs: 6, MaxSubs: 1, Closed: 0})
		case "open-polylines-round":
			p = genPath(r, pathOpts{Kinds: kLine, MinSegs: 1, MaxSegs: 6, MaxSubs: 2, Closed: 0})
			c.Cap, c.Join = 1, 1
		case "open-curves":
			p = genPath(r, pathOpts{Kinds: kAll, MinSegs: 1, MaxSegs: 4, MaxSubs: 1, Closed: 0, MildCurve: true, CircArcs: true})
		case "open-curves-narrow":
			// width below 0.4 times the smallest radius of curvature: the offset curves have no cusps
			p = genPath(r, pathOpts{Kinds: kAll, MinSegs: 1, MaxSegs: 4, MaxSubs: 1, Closed: 0, MildCurve: true, CircArcs: true})
			if subs, err := refSubs(p); err == nil {
				if rm := minCurvatureRadius(subs); c.W > 0.4*rm {
					c.W = 0.4 * rm
				}
			}
			if r.Bool() {
				c.Cap, c.Join = 1, 1
			}
			if c.Join == 5 {
				c.Join = r.Intn(5) // ArcsClip between curved segments is its own class (curves-arcsclip)
			}
		case "curves-arcsclip":
			p = genPath(r, pathOpts{Kinds: kAll, MinSegs: 2, MaxSegs: 4, MaxSubs: 1, Closed: 0, MildCurve: true, CircArcs: true})
			if subs, err := refSubs(p); err == nil {
				if rm := minCurvatureRadius(subs); c.W > 0.4*rm {
					c.W = 0.4 * rm
				}
			}
			c.Join = 5
		case "open-curves-round":
			p = genPath(r, pathOpts{Kinds: kAll, MinSegs: 1, MaxSegs: 4, MaxSubs: 1, Closed: 0, MildCurve: true, CircArcs: true})
			c.Cap, c.Join = 1, 1
			if subs, err := refSubs(p); err == nil {
				if rm := minCurvatureRadius(subs); c.W > 0.8*rm {
					c.W = 0.8 * rm
				}
			}
		case "closed-compound":
			// two or three closed contours with independent orientations in one path: side by side, or a
			// shape with a hole in it
			rad := r.Range(10, 30)
			p = &canvas.Path{}
			cx, cy := r.Range(-20, 20), r.Range(-20, 20)
			fams := []int{0, 1, 2, 4}
			if r.Bool() { // hole: the inner radius of every family is at least 0.3*rad
				p = p.Append(simpleClosedShapeK(r, cx, cy, rad, r.Bool(), core.PickI(r, fams)))
				p = p.Append(simpleClosedShapeK(r, cx, cy, rad*0.12, r.Bool(), core.PickI(r, []int{1, 2})))
			} else {
				for k, n := 0, r.IntRange(2, 3); k < n; k++ {
					p = p.Append(simpleClosedShapeK(r, cx+float64(k)*rad*5, cy+r.Range(-5, 5), rad, r.Bool(), core.PickI(r, fams)))
				}
			}
			if r.Bool() {
				c.Cap, c.Join = 1, 1
			}
			c.W = rad * r.LogRange(0.01, 0.1)
			if subs, err := refSubs(p); err == nil {
				if rm := minCurvatureRadius(subs); c.W > 0.4*rm {
					c.W = 0.4 * rm
				}
			}
		case "closed-cornered":
			// lens / teardrop / bulged polygon: the edges of a convex polygon replaced by outward quads or
			// cubics; corners at every vertex, the path starts at one and the last curve lands exactly on it
			// (the Close has zero length)
			rad := r.Range(8, 40)
			cx, cy := r.Range(-20, 20), r.Range(-20, 20)
			for {
				n := r.IntRange(2, 5)
				ph := r.Range(0, 2*math.Pi)
				if r.Chance(0.2) {
					// a teardrop: one cubic that starts and ends in the same point, with a corner there
					v := Pt{cx, cy}
					dir := Pt{math.Cos(ph), math.Sin(ph)}
					nrm := Pt{-dir.Y, dir.X}
					l, wd := rad*r.Range(1, 2), rad*r.Range(0.5, 1.5)
					c1, c2 := v.Add(dir.Mul(l)).Add(nrm.Mul(wd)), v.Add(dir.Mul(l)).Sub(nrm.Mul(wd))
					p = &canvas.Path{}
					p.MoveTo(v.X, v.Y)
					p.CubeTo(c1.X, c1.Y, c2.X, c2.Y, v.X, v.Y)
					p.Close()
					if math.Abs(refArea(p)) >= 1 {
						break
					}
					continue
				}
				var vs []Pt
				for i := 0; i < n; i++ {
					a := ph + (float64(i)+r.Range(-0.2, 0.2))*2*math.Pi/float64(n)
					vs = append(vs, Pt{cx + rad*math.Cos(a), cy + rad*math.Sin(a)})
				}
				p = &canvas.Path{}
				p.MoveTo(vs[0].X, vs[0].Y)
				for i := 0; i < n; i++ {
					a, b := vs[i], vs[(i+1)%n]
					e := b.Sub(a)
					out := Pt{X: e.Y, Y: -e.X} // outward for a counter-clockwise polygon
					bulge := r.Range(0.15, 0.5)
					if n > 2 && r.Chance(0.3) {
						p.LineTo(b.X, b.Y)
					} else if r.Bool() {
						c1 := a.Lerp(b, 0.5).Add(out.Mul(bulge))
						p.QuadTo(c1.X, c1.Y, b.X, b.Y)
					} else {
						c1, c2 := a.Lerp(b, 0.3).Add(out.Mul(bulge)), a.Lerp(b, 0.7).Add(out.Mul(bulge))
						p.CubeTo(c1.X, c1.Y, c2.X, c2.Y, b.X, b.Y)
					}
				}
				p.Close()
				if math.Abs(refArea(p)) >= 1 {
					break
				}
			}
			if r.Bool() {
				p = p.Reverse()
			}
			c.W = rad * r.LogRange(0.01, 0.15)
			if subs, err := refSubs(p); err == nil {
				if rm := minCurvatureRadius(subs); c.W > 0.4*rm {
					c.W = 0.4 * rm
				}
			}
			if c.Join == 5 {
				c.Join = r.Intn(5) // ArcsClip between curved segments is its own class (curves-arcsclip)
			}
		case "closed-circles", "closed-ellipses", "closed-roundrects", "closed-quadchains", "closed-polygons", "closed-wide":
			fam, ok := map[string]int{"closed-circles": 2, "closed-ellipses": 3, "closed-roundrects": 4, "closed-quadchains": 5}[kind]
			if !ok {
				fam = r.Intn(2) // polygons
			}
			if kind == "closed-wide" {
				fam = core.PickI(r, []int{0, 1, 2, 4})
			}
			rad := r.Range(8, 40)
			p = simpleClosedShapeK(r, r.Range(-20, 20), r.Range(-20, 20), rad, r.Bool(), fam)
			for math.Abs(refArea(p)) < 1 { // no degenerate (two-point) contours: pinned by F-C04-two-point-contour
				p = simpleClosedShapeK(r, r.Range(-20, 20), r.Range(-20, 20), rad, r.Bool(), fam)
			}
			if r.Bool() {
				c.Cap, c.Join = 1, 1
			}
			// the stroke is narrower than the shape: half the width stays below the inner radius of every
			// family (>= 0.3*rad) and below 0.4 times the smallest radius of curvature; strokes wider
			// than the shape are a class of their own (closed-wide)
			c.W = rad * r.LogRange(0.01, 0.2)
			if subs, err := refSubs(p); err == nil {
				if rm := minCurvatureRadius(subs); c.W > 0.4*rm {
					c.W = 0.4 * rm
				}
			}
			if kind == "closed-wide" {
				c.W = rad * r.Range(0.6, 2.5)
			}
		case "sharp": // segments shorter than the width, near 0 and near 180 degree turns
			p = &canvas.Path{}
			x, y := r.Range(-10, 10), r.Range(-10, 10)
			p.MoveTo(x, y)
			dir := r.Range(0, 2*math.Pi)
			for i, n := 0, r.IntRange(2, 6); i < n; i++ {
				l := c.W * r.LogRange(0.05, 5)
				switch r.Intn(3) {
				case 0:
					dir += r.Range(-0.05, 0.05)
				case 1:
					dir += math.Pi + r.Range(-0.1, 0.1)
				default:
					dir += r.Range(-math.Pi, math.Pi)
				}
				x, y = x+l*math.Cos(dir), y+l*math.Sin(dir)
				p.LineTo(x, y)
			}
		case "closed-selfx":
			p = contoursPath([][]Pt{selfCrossing(r, false)})
		case "offset-curved", "offset-polygons", "offset-deep":
			c.Mode = "offset"
			rad := r.Range(8, 40)
			fam := r.Intn(2)
			if kind == "offset-curved" {
				fam = core.PickI(r, []int{2, 4}) // circles and rounded rectangles
			} else if kind == "offset-deep" {
				fam = core.PickI(r, []int{0, 1, 2, 4})
			}
			p = simpleClosedShapeK(r, r.Range(-20, 20), r.Range(-20, 20), rad, r.Bool(), fam)
			// shrinking stays well below the inner radius (>= 0.3*rad); deeper offsets are their own class
			c.W = rad * r.LogRange(0.01, 0.2)
			if kind == "offset-deep" {
				c.W = rad * r.Range(0.3, 1.2)
			}
			if r.Bool() {
				c.W = -c.W
			}
		}
		// a tolerance that is coarse compared with the width (> 4%) is only used in the demoted strata
		switch kind {
		case "sharp", "open-curves", "curves-arcsclip", "closed-ellipses", "closed-wide", "closed-selfx", "offset-deep":
		default:
			if c.Tol > 0.04*math.Abs(c.W) {
				c.Tol = 0.04 * math.Abs(c.W)
			}
		}
		// polylines: segments shorter than the width (with sharp turns) are the class "sharp"
		if kind == "open-polylines" || kind == "open-polylines-round" || kind == "closed-polygons" {
			if subs, err := refSubs(p); err == nil {
				shortest := math.Inf(1)
				for si := range subs {
					for k := range subs[si].Segs {
						shortest = math.Min(shortest, subs[si].Segs[k].P0.Dist(subs[si].Segs[k].P3))
					}
				}
				if c.W > shortest {
					c.W = shortest
				}
				if c.Tol > 0.04*c.W {
					c.Tol = 0.04 * c.W
				}
			}
		}
		c.P = dataCopy(p)
		return c
	}
}

// bandPoints samples points around the path: at random path positions, displaced sideways by up to
// reach, plus points around every vertex and open end.
func bandPoints(r *core.Rng, subs []geom.Sub, reach float64, n int) []Pt {
	var pts []Pt
	type loc struct{ si, seg int }
	var locs []loc
	for si := range subs {
		for k := range subs[si].Segs {
			locs = append(locs, loc{si, k})
		}
	}
	if len(locs) == 0 {
		return nil
	}
	for i := 0; i < n; i++ {
		l := locs[r.Intn(len(locs))]
		sg := &subs[l.si].Segs[l.seg]
		t := r.Float()
		if r.Chance(0.25) {
			t = core.PickF(r, []float64{0, 1, 0.001, 0.999})
		}
		p := sg.At(t)
		a := r.Range(0, 2*math.Pi)
		d := reach * r.Float()
		if r.Chance(0.3) {
			d = reach * core.PickF(r, []float64{0.45, 0.55, 0.3, 0.7, 0.9}) // near the stroke edge at w/2
		}
		pts = append(pts, Pt{p.X + d*math.Cos(a), p.Y + d*math.Sin(a)})
	}
	return pts
}

func c04Check(ci any, o *core.Obs) {
	c := ci.(*c04Case)
	checkGlobals(o)
	P := pathFrom(c.P)
	src, err := refSubs(P)
	if err != nil || len(src) == 0 {
		o.Skip("source not decodable")
		return
	}
	r := caseRng(c, "C04pts")
	if c.Mode == "offset" {
		c04Offset(c, o, P, src, r)
		return
	}
	w := c.W
	hw := w / 2
	var S *canvas.Path
	if !o.Call("Path.Stroke", func() { S = pathFrom(c.P).Stroke(w, c.capper(), c.joiner(), c.Tol) }) {
		return
	}
	res, err := refSubs(S)
	if err != nil {
		o.Fail("malformed", "Stroke returned undecodable data: %v", err)
		return
	}
	polyR := geom.Flatten(res, math.Min(1e-4*w, 1e-3), true)
	// tolerance: Stroke flattens/approximates Béziers with the same step formulas as Flatten, whose
	// error is a small multiple of the tolerance (C03: up to 3.8*t observed, K = 6 for cubics);
	// observed up to 6.6*tol in strokes (1.1M cases) -> 8*tol for paths with curves
	tolEff := c.Tol
	for si := range src {
		for k := range src[si].Segs {
			if src[si].Segs[k].Kind != geom.Line {
				tolEff = 8 * c.Tol
			}
		}
	}
	// margin: the outline is settled, which flattens its arcs at the package-wide Tolerance (0.01)
	// whatever the tolerance argument of Stroke is
	m := 1e-3*w + 1e-6 + canvas.Tolerance
	// reach of a miter/arcs join from its vertex: the tip of an unclipped miter is at most limit*w/2
	// away; a clipped miter is cut by a line at that distance across the bisector, its two corners lie
	// on the offset lines at up to sqrt(limit^2+1)*w/2 from the vertex
	lim := math.Max(c.Limit, 1.001)
	limitReach := hw * math.Sqrt(lim*lim+1)
	// interior vertices and open ends
	var interior, ends []Pt
	for si := range src {
		s := &src[si]
		n := len(s.Segs)
		if n == 0 {
			continue
		}
		for k := 1; k < n; k++ {
			interior = append(interior, s.Segs[k].P0)
		}
		if s.Closed {
			interior = append(interior, s.Start)
		} else {
			ends = append(ends, s.Start, s.End())
		}
	}
	near := func(x Pt, ps []Pt, d float64) bool {
		for _, p := range ps {
			if x.Dist(p) < d {
				return true
			}
		}
		return false
	}
	pts := bandPoints(r, src, 1.2*w, 72)
	// probes around every vertex (the start point of a closed sub-path is one): the outer wedge of a
	// join is only reached from there
	{
		probes := 0
		for si := range src {
			s := &src[si]
			for k := range s.Segs {
				if k == 0 && !s.Closed {
					continue
				}
				if probes >= 48 {
					break
				}
				v := s.Segs[k].P0
				ph := r.Range(0, math.Pi/4)
				for j := 0; j < 8; j++ {
					rad := hw * core.PickF(r, []float64{0.3, 0.55, 0.8})
					a := ph + float64(j)*math.Pi/4
					pts = append(pts, Pt{v.X + rad*math.Cos(a), v.Y + rad*math.Sin(a)})
					probes++
				}
			}
		}
	}
	// inBevel: x lies in the triangle (vertex, vertex + hw*n1, vertex + hw*n2) spanned by the outer
	// normals of the two segments meeting at the vertex nearest to x, shrunk by mrg. Every join type
	// covers that triangle (a bevel is exactly it; round, mitre, arcs and their clipped forms contain it).
	inBevel := func(s *geom.Sub, pos geom.Pos, x Pt, mrg float64) bool {
		n := len(s.Segs)
		var a, b *geom.Seg
		if pos.T > 0.5 {
			a = &s.Segs[pos.Seg]
			if pos.Seg+1 < n {
				b = &s.Segs[pos.Seg+1]
			} else if s.Closed {
				b = &s.Segs[0]
			}
		} else {
			b = &s.Segs[pos.Seg]
			if pos.Seg > 0 {
				a = &s.Segs[pos.Seg-1]
			} else if s.Closed {
				a = &s.Segs[n-1]
			}
		}
		if a == nil || b == nil {
			return false
		}
		u, wv := a.Deriv(1), b.Deriv(0)
		if u.Len() < 1e-9 || wv.Len() < 1e-9 {
			return false
		}
		u, wv = u.Mul(1/u.Len()), wv.Mul(1/wv.Len())
		cr := u.Cross(wv)
		if math.Abs(cr) < 0.05 || u.Dot(wv) < -0.95 {
			return false // nearly straight or a hairpin: no wedge to speak of
		}
		sgn := 1.0 // left turn: the outer side is on the right
		if cr < 0 {
			sgn = -1
		}
		v := b.P0
		t1 := v.Add(Pt{X: u.Y * sgn, Y: -u.X * sgn}.Mul(hw))
		t2 := v.Add(Pt{X: wv.Y * sgn, Y: -wv.X * sgn}.Mul(hw))
		tri := [3]Pt{v, t1, t2}
		area := t1.Sub(v).Cross(t2.Sub(v))
		if math.Abs(area) < 1e-12 {
			return false
		}
		for i := 0; i < 3; i++ {
			p0, p1 := tri[i], tri[(i+1)%3]
			e := p1.Sub(p0)
			d := e.Cross(x.Sub(p0)) / e.Len()
			if area < 0 {
				d = -d
			}
			if d < mrg {
				return false
			}
		}
		return true
	}
	nIn, nOut := 0, 0
	for _, x := range pts {
		si, pos, d := geom.NearestOnSubs(x, src)
		s := &src[si]
		atVertex := pos.T < 1e-9 || pos.T > 1-1e-9
		isOpenEnd := false
		if atVertex && !s.Closed && ((pos.Seg == 0 && pos.T < 1e-9) || (pos.Seg == len(s.Segs)-1 && pos.T > 1-1e-9)) {
			isOpenEnd = true
		}
		got := geom.Winding(x, polyR) != 0
		if geom.DistPtPolys(x, polyR) < m {
			continue // on the outline itself
		}
		switch {
		case d < hw-tolEff-m:
			// must be inside, except beyond a butt cut and in the outer wedge of a non-round join
			if isOpenEnd && c.Cap == 0 {
				o.Count("skipped_beyond_butt_cut", 1)
				continue
			}
			if atVertex && !isOpenEnd && c.Join != 1 {
				if !inBevel(s, pos, x, tolEff+m) {
					o.Count("skipped_join_wedge", 1)
					continue
				}
				o.Count("points_in_bevel_triangle", 1)
			}
			// a point near an open end with a butt cap may lie beyond the cut although its nearest point
			// is on the segment interior only if the end is closer than hw; that cannot happen: the
			// nearest point of a point beyond the end plane is the end point itself (straight ends) —
			// for curved ends allow a small zone
			if c.Cap == 0 && near(x, ends, hw) {
				o.Count("skipped_near_butt_end", 1)
				continue
			}
			nIn++
			o.Decided(1)
			if !got {
				if c.Join == 1 && c04TwoPointTurn(c.P, x.X, x.Y, hw) {
					// the class of F-C04-two-point-contour: named apart so that the finding covers exactly it
					o.Fail("hole-two-point-turn", "Stroke: round join at the 180 degree turn of a closed two-point contour: point %v is %.4g from the path (< w/2 - tol) but not filled; Stroke(w=%.4g,%s,%s limit %g,tol=%g) of %s", x, d, w, capNames[c.Cap], joinNames[c.Join], c.Limit, c.Tol, pstr(P))
					return
				}
				o.Fail("hole", "Stroke(w=%.4g,%s,%s limit %g,tol=%g): point %v is %.4g from the path (< w/2 - tol) but not filled; path %s", w, capNames[c.Cap], joinNames[c.Join], c.Limit, c.Tol, x, d, pstr(P))
				return
			}
		case d > hw+tolEff+m:
			// must be outside, except inside a miter/arcs join or a square cap
			if c.Join >= 2 && near(x, interior, limitReach+tolEff+m) {
				o.Count("skipped_miter_reach", 1)
				continue
			}
			if c.Cap == 2 && near(x, ends, math.Sqrt2*hw+tolEff+m) {
				o.Count("skipped_square_cap", 1)
				continue
			}
			nOut++
			o.Decided(1)
			if got {
				o.Fail("spurious", "Stroke(w=%.4g,%s,%s limit %g,tol=%g): point %v is %.4g from the path (> w/2 + tol) but filled; path %s", w, capNames[c.Cap], joinNames[c.Join], c.Limit, c.Tol, x, d, pstr(P))
				return
			}
		}
	}
	o.Count("points_inside_rule", float64(nIn))
	o.Count("points_outside_rule", float64(nOut))
	if nIn > 0 && nOut > 0 {
		o.NonTrivial()
	}
	checkGlobals(o)
}

// c04Offset checks Offset(d) of a simple closed contour against the signed distance to it.
func c04Offset(c *c04Case, o *core.Obs, P *canvas.Path, src []geom.Sub, r *core.Rng) {
	polyS := geom.Flatten(src, 1e-5, true)
	area := geom.AreaPolys(polyS)
	if math.Abs(area) < 1e-6 {
		o.Skip("degenerate contour")
		return
	}
	// effective growth of the region: Offset moves the boundary to the right-hand side
	e := c.W
	if area < 0 {
		e = -c.W
	}
	var R *canvas.Path
	if !o.Call("Path.Offset", func() { R = pathFrom(c.P).Offset(c.W, c.Tol) }) {
		return
	}
	res, err := refSubs(R)
	if err != nil {
		o.Fail("malformed", "Offset returned undecodable data: %v", err)
		return
	}
	polyR := geom.Flatten(res, 1e-4, true)
	m := 1e-3*math.Abs(c.W) + 1e-6 + canvas.Tolerance
	nIn, nOut := 0, 0
	for _, x := range bandPoints(r, src, 2*math.Abs(c.W), 72) {
		_, _, d := geom.NearestOnSubs(x, src)
		sd := d // signed distance: negative inside the contour
		if geom.Winding(x, polyS) != 0 {
			sd = -d
		}
		if geom.DistPtPolys(x, polyR) < m {
			continue
		}
		got := geom.Winding(x, polyR) != 0
		switch {
		case sd < e-c.Tol-m:
			nIn++
			o.Decided(1)
			if !got {
				o.Fail("offset-missing", "Offset(%.4g,tol=%g) of a %s contour: point %v at signed distance %.4g should be inside the result; path %s result %s", c.W, c.Tol, orientName(area), x, sd, pstr(P), pstr(R))
				return
			}
		case sd > e+c.Tol+m:
			nOut++
			o.Decided(1)
			if got {
				o.Fail("offset-spurious", "Offset(%.4g,tol=%g) of a %s contour: point %v at signed distance %.4g should be outside the result; path %s result %s", c.W, c.Tol, orientName(area), x, sd, pstr(P), pstr(R))
				return
			}
		}
	}
	if nIn+nOut > 0 {
		o.NonTrivial()
	}
}

func orientName(area float64) string {
	if area > 0 {
		return "counter-clockwise"
	}
	return "clockwise"
}

func c04Describe(ci any) any {
	c := ci.(*c04Case)
	return map[string]any{"kind": c.Kind, "mode": c.Mode, "P": dstr(c.P), "w": c.W, "cap": capNames[c.Cap], "join": joinNames[c.Join], "limit": c.Limit, "tol": c.Tol}
}

func init() {
	core.Register(&core.Property{
		ID:    "C04",
		Title: "Stroke and Offset realise exact distance offsets of the path",
		Rule: "open polylines/curves (may self-cross), closed simple contours of both orientations (polygons, circles, ellipses, rounded rectangles, quad chains), sharp/short-segment paths x widths 0.25..20 x 3 caps x 6 joins x limits {1,2,4,10} x tolerances {0.1,0.01,0.001}; dedicated round/round strata (exact neighbourhood, no exceptions); " +
			"72 points per case in a band around the path, decided by their exact distance to the path: d < w/2-tol => filled (except beyond a butt cut / in the wedge of a non-round join), d > w/2+tol => not filled (except within limit*w/2 of a vertex for miter/arcs joins, within sqrt2*w/2 of an end for square caps); Offset: signed distance vs d; non-trivial = both rules decided at least once; distinct = distinct case hash",
		Strata: []core.Stratum{
			{Name: "open-polylines", Quick: 800, Thorough: 6000, Gen: genC04("open-polylines")},
			{Name: "open-polylines-round", Quick: 500, Thorough: 4000, Gen: genC04("open-polylines-round")},
			{Name: "open-curves-narrow", Quick: 700, Thorough: 6000, Gen: genC04("open-curves-narrow"), Note: "mild Béziers and circular arcs, width <= 0.4 x smallest radius of curvature, all caps, joins except ArcsClip"},
			{Name: "open-curves-round", Quick: 500, Thorough: 4000, Gen: genC04("open-curves-round"), Note: "round cap + round join, width <= 0.8 x smallest radius of curvature: exact neighbourhood"},
			{Name: "closed-polygons", Quick: 500, Thorough: 4000, Gen: genC04("closed-polygons")},
			{Name: "closed-circles", Quick: 400, Thorough: 3000, Gen: genC04("closed-circles")},
			{Name: "closed-roundrects", Quick: 400, Thorough: 3000, Gen: genC04("closed-roundrects")},
			{Name: "closed-quadchains", Quick: 400, Thorough: 3000, Gen: genC04("closed-quadchains")},
			{Name: "closed-compound", Quick: 400, Thorough: 4000, Gen: genC04("closed-compound"), Note: "several closed contours of independent orientation in one path (side by side, or a hole)"},
			{Name: "closed-cornered", Quick: 500, Thorough: 4000, Gen: genC04("closed-cornered"), Note: "closed contours of outward curves meeting at corners, starting at a corner with a zero-length Close"},
			{Name: "offset-polygons", Quick: 500, Thorough: 4000, Gen: genC04("offset-polygons")},
			{Name: "offset-curved", Quick: 500, Thorough: 4000, Gen: genC04("offset-curved")},
			// The counts above are deliberately small: over 1.7M calibration cases two further genuine
			// failures (pinned as F-C04-rare) turned up in these strata, about 1e-6 per case.
			// demoted (DESIGN 4.5): rates measured on the unchanged tree
			{Name: "sharp", Quick: 1000, Thorough: 30000, Gen: genC04("sharp"), WitnessOnly: true, Note: "segments much shorter than the width with near-0/180 degree turns: 0.6% holes inside the stroke (inner-bend repair)"},
			{Name: "open-curves", Quick: 1000, Thorough: 30000, Gen: genC04("open-curves"), WitnessOnly: true, Note: "width beyond the radius of curvature, all joins: 0.8% holes/spurious area"},
			{Name: "curves-arcsclip", Quick: 500, Thorough: 10000, Gen: genC04("curves-arcsclip"), WitnessOnly: true, Note: "ArcsClip between curved segments: 6% fill beyond sqrt(limit^2+1)*w/2 from the vertex"},
			{Name: "closed-ellipses", Quick: 800, Thorough: 20000, Gen: genC04("closed-ellipses"), WitnessOnly: true, Note: "ellipses: the offset of an elliptic arc is approximated by an elliptic arc: 26% off by more than the tolerance"},
			{Name: "closed-wide", Quick: 1000, Thorough: 20000, Gen: genC04("closed-wide"), WitnessOnly: true, Note: "stroke wider than the closed shape: 8% holes (inner offset inverts)"},
			{Name: "closed-selfx", Quick: 1000, Thorough: 20000, Gen: genC04("closed-selfx"), WitnessOnly: true, Note: "closed self-intersecting contours: 88% lose lobes (sides settled by one CCW() answer)"},
			{Name: "offset-deep", Quick: 1000, Thorough: 20000, Gen: genC04("offset-deep"), WitnessOnly: true, Note: "shrinking by more than the inner radius: 4% leave inverted residue"},
		},
		NewCase:  func() any { return &c04Case{} },
		Check:    c04Check,
		Describe: c04Describe,
		Assumptions: []string{
			"exact distance to the input path by harness/geom nearest-point search; result region by winding number on a flattening of the result (arcs of round caps/joins flattened to 1e-4*w)",
			"the join-wedge and butt-cut exceptions are this monitor's reading of the statement's 'except beyond the cut of a butt cap / inside a join / square cap'",
		},
	})
}

// minCurvatureRadius estimates the smallest radius of curvature over all curved segments by finite
// differences at 64 parameters per segment.
func minCurvatureRadius(subs []geom.Sub) float64 {
	best := math.Inf(1)
	for si := range subs {
		for k := range subs[si].Segs {
			sg := &subs[si].Segs[k]
			if sg.Kind == geom.Line {
				continue
			}
			const N = 64
			h := 1.0 / (2 * N)
			for i := 1; i < 2*N; i += 2 {
				t := float64(i) * h
				a, b, c := sg.At(t-h), sg.At(t), sg.At(t+h)
				d1 := c.Sub(a).Mul(1 / (2 * h))
				d2 := c.Sub(b.Mul(2)).Add(a).Mul(1 / (h * h))
				cr := math.Abs(d1.Cross(d2))
				if cr > 0 {
					l := d1.Len()
					best = math.Min(best, l*l*l/cr)
				}
			}
		}
	}
	return best
}

// c04TwoPointTurn reports whether (x,y) lies within hw of an end of a closed sub-path that consists of
// one line and its way back (M a L b z): both vertices of such a contour are 180 degree turns.
func c04TwoPointTurn(d []float64, x, y, hw float64) bool {
	for i := 0; i+12 <= len(d); {
		n := 4
		switch d[i] {
		case canvas.QuadToCmd:
			n = 6
		case canvas.CubeToCmd, canvas.ArcToCmd:
			n = 8
		}
		j := i
		i += n
		if d[j] != canvas.MoveToCmd {
			continue
		}
		i = j
		if d[i] == canvas.MoveToCmd && d[i+3] == canvas.MoveToCmd && d[i+4] == canvas.LineToCmd && d[i+7] == canvas.LineToCmd &&
			d[i+8] == canvas.CloseCmd && d[i+11] == canvas.CloseCmd && d[i+9] == d[i+1] && d[i+10] == d[i+2] {
			if math.Hypot(x-d[i+1], y-d[i+2]) <= hw || math.Hypot(x-d[i+5], y-d[i+6]) <= hw {
				return true
			}
		}
		i += 4
	}
	return false
}
