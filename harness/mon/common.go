package mon

import (
	"fmt"
	"math"
	"sort"

	"github.com/tdewolff/canvas"

	"verif/core"
	"verif/geom"
)

type Pt = geom.Pt

// ---- conversion between library paths and the reference geometry --------------------------------

// dataCopy returns a private copy of the path's raw data (bit exact).
func dataCopy(p *canvas.Path) []float64 {
	d := p.Data()
	out := make([]float64, len(d))
	copy(out, d)
	return out
}

// pathFrom rebuilds a library path from stored raw data (a fresh slice each time, so that cases
// cannot influence each other through aliasing).
func pathFrom(d []float64) *canvas.Path {
	c := make([]float64, len(d))
	copy(c, d)
	return canvas.NewPathFromData(c)
}

// refPolys decodes a library path with the reference decoder and flattens it.
func refPolys(p *canvas.Path, eps float64, closeOpen bool) ([]geom.Poly, error) {
	subs, err := geom.Decode(p.Data())
	if err != nil {
		return nil, err
	}
	return geom.Flatten(subs, eps, closeOpen), nil
}

func refSubs(p *canvas.Path) ([]geom.Sub, error) { return geom.Decode(p.Data()) }

func bitsEqual(a, b []float64) bool {
	if len(a) != len(b) {
		return false
	}
	for i := range a {
		if math.Float64bits(a[i]) != math.Float64bits(b[i]) {
			return false
		}
	}
	return true
}

func pstr(p *canvas.Path) string {
	s := p.String()
	if len(s) > 600 {
		return s[:600] + "…"
	}
	return s
}

func dstr(d []float64) string { return pstr(canvas.NewPathFromData(d)) }

// ---- polygon generators ------------------------------------------------------------------------

// starPoly returns a polygon that is star-shaped about (cx,cy): n vertices at increasing angles with
// radii in [rmin,rmax]. Such a polygon is simple. ccw selects the orientation.
func starPoly(r *core.Rng, cx, cy, rmin, rmax float64, n int, ccw bool) []Pt {
	angs := make([]float64, n)
	// jittered equal spacing keeps every angular gap below pi so that the polygon stays star-shaped
	// about the centre
	for i := range angs {
		angs[i] = (float64(i) + r.Range(0.1, 0.9)) * 2 * math.Pi / float64(n)
	}
	rot := r.Range(0, 2*math.Pi)
	pts := make([]Pt, n)
	for i, a := range angs {
		rad := r.Range(rmin, rmax)
		pts[i] = Pt{cx + rad*math.Cos(a+rot), cy + rad*math.Sin(a+rot)}
	}
	if !ccw {
		reversePts(pts)
	}
	return pts
}

func reversePts(pts []Pt) {
	for i, j := 0, len(pts)-1; i < j; i, j = i+1, j-1 {
		pts[i], pts[j] = pts[j], pts[i]
	}
}

// convexPoly returns a convex polygon (points on an ellipse at sorted angles).
func convexPoly(r *core.Rng, cx, cy, rx, ry float64, n int, ccw bool) []Pt {
	angs := make([]float64, n)
	for i := range angs {
		angs[i] = r.Range(0, 2*math.Pi)
	}
	sort.Float64s(angs)
	pts := make([]Pt, 0, n)
	for _, a := range angs {
		p := Pt{cx + rx*math.Cos(a), cy + ry*math.Sin(a)}
		if len(pts) > 0 && pts[len(pts)-1].Dist(p) < 1e-3*(rx+ry) {
			continue
		}
		pts = append(pts, p)
	}
	if !ccw {
		reversePts(pts)
	}
	return pts
}

// rectPoly returns an axis-parallel rectangle.
func rectPoly(x0, y0, x1, y1 float64, ccw bool) []Pt {
	pts := []Pt{{x0, y0}, {x1, y0}, {x1, y1}, {x0, y1}}
	if !ccw {
		reversePts(pts)
	}
	return pts
}

// rectilinearPoly returns a simple rectilinear "staircase" polygon: x-monotone skyline over a base.
func rectilinearPoly(r *core.Rng, x0, y0, w, h float64, steps int, ccw bool, integer bool) []Pt {
	xs := make([]float64, steps+1)
	for i := range xs {
		xs[i] = x0 + w*float64(i)/float64(steps)
		if integer {
			xs[i] = math.Round(xs[i])
		}
	}
	pts := []Pt{{xs[0], y0}, {xs[steps], y0}}
	for i := steps; i > 0; i-- {
		y := y0 + r.Range(0.2, 1)*h
		if integer {
			y = math.Max(y0+1, math.Round(y))
		}
		if xs[i] == xs[i-1] {
			continue
		}
		pts = append(pts, Pt{xs[i], y}, Pt{xs[i-1], y})
	}
	pts = dedupPts(pts)
	if !ccw {
		reversePts(pts)
	}
	return pts
}

// dedupPts removes consecutive duplicates (also last==first).
func dedupPts(pts []Pt) []Pt {
	out := pts[:0:0]
	for _, p := range pts {
		if len(out) == 0 || out[len(out)-1] != p {
			out = append(out, p)
		}
	}
	for len(out) > 1 && out[0] == out[len(out)-1] {
		out = out[:len(out)-1]
	}
	return out
}

// polyIsSimple tests by brute force that no two non-adjacent edges of the closed polygon touch or
// cross and no vertex repeats.
func polyIsSimple(pts []Pt) bool {
	n := len(pts)
	if n < 3 {
		return false
	}
	for i := 0; i < n; i++ {
		a, b := pts[i], pts[(i+1)%n]
		if a == b {
			return false
		}
		for j := i + 1; j < n; j++ {
			c, d := pts[j], pts[(j+1)%n]
			adjacent := j == i+1 || (i == 0 && j == n-1)
			if adjacent {
				// adjacent edges must not fold back onto each other
				var p, q, s Pt
				if j == i+1 {
					p, q, s = a, b, d
				} else {
					p, q, s = c, a, b // c -> a(=d) -> b
				}
				if geom.Orient(p, q, s) == 0 && q.Sub(p).Dot(s.Sub(q)) < 0 {
					return false
				}
				continue
			}
			if segsTouch(a, b, c, d) {
				return false
			}
		}
	}
	return true
}

// segsTouch reports whether closed segments ab and cd share a point.
func segsTouch(a, b, c, d Pt) bool {
	o1, o2 := geom.Orient(a, b, c), geom.Orient(a, b, d)
	o3, o4 := geom.Orient(c, d, a), geom.Orient(c, d, b)
	if o1*o2 < 0 && o3*o4 < 0 {
		return true
	}
	on := func(p, q, x Pt) bool {
		return math.Min(p.X, q.X) <= x.X && x.X <= math.Max(p.X, q.X) && math.Min(p.Y, q.Y) <= x.Y && x.Y <= math.Max(p.Y, q.Y)
	}
	if o1 == 0 && on(a, b, c) {
		return true
	}
	if o2 == 0 && on(a, b, d) {
		return true
	}
	if o3 == 0 && on(c, d, a) {
		return true
	}
	if o4 == 0 && on(c, d, b) {
		return true
	}
	return false
}

// addPoly appends a closed polygon to a library path through the builder API.
func addPoly(p *canvas.Path, pts []Pt) {
	if len(pts) == 0 {
		return
	}
	p.MoveTo(pts[0].X, pts[0].Y)
	for _, q := range pts[1:] {
		p.LineTo(q.X, q.Y)
	}
	p.Close()
}

// addOpenPoly appends an open polyline.
func addOpenPoly(p *canvas.Path, pts []Pt) {
	if len(pts) == 0 {
		return
	}
	p.MoveTo(pts[0].X, pts[0].Y)
	for _, q := range pts[1:] {
		p.LineTo(q.X, q.Y)
	}
}

// symmetry applies one of the 8 symmetries of the square grid plus an integer translation.
type symmetry struct {
	K      int // 0..7
	Tx, Ty float64
}

func (s symmetry) apply(p Pt) Pt {
	x, y := p.X, p.Y
	switch s.K & 7 {
	case 1:
		x = -x
	case 2:
		y = -y
	case 3:
		x, y = -x, -y
	case 4:
		x, y = y, x
	case 5:
		x, y = -y, x
	case 6:
		x, y = y, -x
	case 7:
		x, y = -y, -x
	}
	return Pt{x + s.Tx, y + s.Ty}
}

func (s symmetry) matrix() canvas.Matrix {
	var m canvas.Matrix
	switch s.K & 7 {
	case 0:
		m = canvas.Matrix{{1, 0, 0}, {0, 1, 0}}
	case 1:
		m = canvas.Matrix{{-1, 0, 0}, {0, 1, 0}}
	case 2:
		m = canvas.Matrix{{1, 0, 0}, {0, -1, 0}}
	case 3:
		m = canvas.Matrix{{-1, 0, 0}, {0, -1, 0}}
	case 4:
		m = canvas.Matrix{{0, 1, 0}, {1, 0, 0}}
	case 5:
		m = canvas.Matrix{{0, -1, 0}, {1, 0, 0}}
	case 6:
		m = canvas.Matrix{{0, 1, 0}, {-1, 0, 0}}
	case 7:
		m = canvas.Matrix{{0, -1, 0}, {-1, 0, 0}}
	}
	m[0][2], m[1][2] = s.Tx, s.Ty
	return m
}

// symData applies the symmetry to flat path data directly on the coordinates (exact: only sign
// flips, swaps and an integer translation), without going through the library.
func symDataFlat(d []float64, s symmetry) []float64 {
	out := make([]float64, len(d))
	copy(out, d)
	for i := 0; i < len(out); {
		cmd := out[i]
		n := 4
		switch cmd {
		case 4:
			n = 6
		case 8, 16:
			n = 8
		}
		if cmd == 16 {
			panic("symDataFlat: arcs not supported")
		}
		for j := i + 1; j+1 < i+n-1; j += 2 {
			q := s.apply(Pt{out[j], out[j+1]})
			out[j], out[j+1] = q.X, q.Y
		}
		i += n
	}
	return out
}

// ---- sample points -------------------------------------------------------------------------------

// samplePoints returns n points: uniform in the (slightly enlarged) box, plus points near polygon
// vertices and centroids of the grid spanned by the vertex coordinates.
func samplePoints(r *core.Rng, polys []geom.Poly, nUniform, nTargeted int) []Pt {
	box := geom.BoxPolys(polys)
	if box.Empty() {
		return nil
	}
	mx, my := 0.1*box.W()+1e-3, 0.1*box.H()+1e-3
	var pts []Pt
	for i := 0; i < nUniform; i++ {
		pts = append(pts, Pt{r.Range(box.X0-mx, box.X1+mx), r.Range(box.Y0-my, box.Y1+my)})
	}
	var xs, ys []float64
	var verts []Pt
	for i := range polys {
		for _, v := range polys[i].V {
			xs = append(xs, v.P.X)
			ys = append(ys, v.P.Y)
			verts = append(verts, v.P)
		}
	}
	if len(verts) == 0 {
		return pts
	}
	sort.Float64s(xs)
	sort.Float64s(ys)
	for i := 0; i < nTargeted; i++ {
		switch i % 2 {
		case 0: // centroid of a cell of the coordinate grid
			a, b := r.Intn(len(xs)-1+1), r.Intn(len(ys)-1+1)
			x0, y0 := xs[a], ys[b]
			x1, y1 := x0+mx, y0+my
			if a+1 < len(xs) {
				x1 = xs[a+1]
			}
			if b+1 < len(ys) {
				y1 = ys[b+1]
			}
			pts = append(pts, Pt{(x0 + x1) / 2, (y0 + y1) / 2})
		case 1: // close to a vertex
			v := verts[r.Intn(len(verts))]
			e := core.PickF(r, []float64{1e-3, 1e-2, 1e-4}) * math.Max(1e-3, box.Scale()/10)
			a := r.Range(0, 2*math.Pi)
			pts = append(pts, Pt{v.X + e*math.Cos(a), v.Y + e*math.Sin(a)})
		}
	}
	return pts
}

func nzFill(w int) bool { return w != 0 }

func fillsRule(rule int, w int) bool {
	switch rule {
	case 0:
		return w != 0
	case 1:
		return w%2 != 0
	case 2:
		return w > 0
	case 3:
		return w < 0
	}
	return false
}

var ruleNames = []string{"NonZero", "EvenOdd", "Positive", "Negative"}
var rules = []canvas.FillRule{canvas.NonZero, canvas.EvenOdd, canvas.Positive, canvas.Negative}

// globals asserts that the library-wide tunables still have their documented defaults.
func checkGlobals(o *core.Obs) {
	if canvas.Tolerance != 0.01 || canvas.PixelTolerance != 0.1 || canvas.Epsilon != 1e-10 || canvas.Precision != 8 || canvas.BentleyOttmannEpsilon != 1e-8 || canvas.FastStroke {
		o.Fail("globals", "package tunables changed: Tolerance=%v PixelTolerance=%v Epsilon=%v Precision=%v BOEps=%v FastStroke=%v", canvas.Tolerance, canvas.PixelTolerance, canvas.Epsilon, canvas.Precision, canvas.BentleyOttmannEpsilon, canvas.FastStroke)
	}
}

// Pool monitor (build tag verif in /repo): every object returned to the sweep-line pools is
// overwritten with poison while any monitor runs, so a use after release or state carried over to
// the next user changes results (seen by the oracles) and is counted at the hooks in the result
// tracing; a case during which the count rose is a violation of C20's pool clause, reported under
// the property being run.
var poolStale int64

func init() {
	canvas.VerifSetPoison(true)
	core.AfterCase = func(o *core.Obs) {
		if n := canvas.VerifStaleReads(); n != poolStale {
			o.Fail("pool-stale-read", "%d reads of sweep points that had already been released to the shared pool during this case", n-poolStale)
			poolStale = n
		}
	}
}

func f4(x float64) string { return fmt.Sprintf("%.4g", x) }

// caseRng derives the PRNG of the oracle's own random choices (sample points) from the case itself,
// so that a replayed case makes the same choices.
func caseRng(c any, purpose string) *core.Rng {
	h, _ := core.CaseHash(c)
	return core.NewRng(0, purpose, h, 0)
}
