package mon

import (
	"math"

	"github.com/tdewolff/canvas"

	"verif/core"
	"verif/geom"
)

// c06Case: a path of closed sub-paths and query points; Mode selects the clause checked.
type c06Case struct {
	P    []float64
	Pts  []Pt
	Mode string // "windings" | "boundary" | "ccw" | "filling"
	Kind string
	Rule int
}

func refArea(p *canvas.Path) float64 {
	polys, err := refPolys(p, 1e-6, true)
	if err != nil {
		return 0
	}
	return geom.AreaPolys(polys)
}

func pathScale(polys []geom.Poly) float64 { return geom.BoxPolys(polys).Scale() }

// queryPoints builds the query points of a windings case.
// level: add points level with vertices / horizontal edges; extrema: add points level with the
// y-extrema of curved segments; ends: allow "level with a vertex" for end points of curved segments.
func queryPoints(r *core.Rng, p *canvas.Path, uniform int, level, extrema, curveEnds bool) []Pt {
	subs, err := refSubs(p)
	if err != nil {
		return nil
	}
	polys := geom.Flatten(subs, 1e-4, true)
	box := geom.BoxPolys(polys)
	if box.Empty() {
		return nil
	}
	mx, my := 0.15*box.W()+1e-3, 0.15*box.H()+1e-3
	var pts []Pt
	for i := 0; i < uniform; i++ {
		pts = append(pts, Pt{r.Range(box.X0-mx, box.X1+mx), r.Range(box.Y0-my, box.Y1+my)})
	}
	randX := func() float64 { return r.Range(box.X0-mx, box.X1+mx) }
	for si := range subs {
		s := &subs[si]
		if level {
			// level with vertices
			verts := []struct {
				p      Pt
				curved bool
			}{}
			prevCurved := false
			if n := len(s.Segs); n > 0 && s.Closed {
				prevCurved = s.Segs[n-1].Kind != geom.Line
			}
			for i := range s.Segs {
				sg := &s.Segs[i]
				verts = append(verts, struct {
					p      Pt
					curved bool
				}{sg.P0, prevCurved || sg.Kind != geom.Line})
				prevCurved = sg.Kind != geom.Line
			}
			verts = append(verts, struct {
				p      Pt
				curved bool
			}{s.End(), prevCurved})
			for _, v := range verts {
				if v.curved && !curveEnds {
					continue
				}
				if !v.curved && curveEnds {
					continue
				}
				pts = append(pts, Pt{randX(), v.p.Y}, Pt{box.X0 - mx, v.p.Y})
			}
		}
		if extrema {
			for i := range s.Segs {
				sg := &s.Segs[i]
				if sg.Kind == geom.Line {
					continue
				}
				// y-extrema from a dense sampling of the segment (interior only)
				const N = 4096
				prev, cur := sg.At(0).Y, sg.At(1.0/N).Y
				for k := 2; k <= N; k++ {
					next := sg.At(float64(k) / N).Y
					if (cur-prev)*(next-cur) < 0 {
						pts = append(pts, Pt{randX(), cur})
					}
					prev, cur = cur, next
				}
			}
		}
	}
	return pts
}

func genC06(kind string) func(r *core.Rng) any {
	return func(r *core.Rng) any {
		var p *canvas.Path
		c := &c06Case{Mode: "windings", Kind: kind}
		switch kind {
		case "poly-generic", "poly-level", "poly-level-crossings", "poly-grid-level":
			p = genPath(r, pathOpts{Kinds: kLine, MinSegs: 2, MaxSegs: 8, MaxSubs: 3, Closed: 1, Integer: kind == "poly-grid-level"})
			c.Pts = queryPoints(r, p, 12, kind != "poly-generic", false, false)
			if kind == "poly-level" {
				c.Mode = "windings-nocrossings"
			}
		case "curved-generic":
			p = genPath(r, pathOpts{Kinds: kAll, MinSegs: 1, MaxSegs: 6, MaxSubs: 3, Closed: 1})
			c.Pts = queryPoints(r, p, 16, false, false, false)
		case "curved-extrema":
			p = genPath(r, pathOpts{Kinds: kAll, MinSegs: 1, MaxSegs: 5, MaxSubs: 2, Closed: 1})
			c.Pts = queryPoints(r, p, 4, false, true, false)
		case "curved-linelevel":
			// level with those vertices where two straight segments meet, in a path that also has curves
			p = genPath(r, pathOpts{Kinds: kAll, MinSegs: 2, MaxSegs: 7, MaxSubs: 2, Closed: 1})
			c.Pts = queryPoints(r, p, 2, true, false, false)
		case "curved-endlevel":
			p = genPath(r, pathOpts{Kinds: kAll, MinSegs: 1, MaxSegs: 5, MaxSubs: 2, Closed: 1})
			c.Pts = queryPoints(r, p, 0, true, false, true)
		case "connector-level":
			// an S-shaped (or convex) cubic with horizontal tangents at both ends, closed by three lines;
			// query points exactly level with the end points of the cubic, at distances from 1e-3 to 1e3
			// times the width on both sides
			x0, y0 := r.Range(-50, 50), r.Range(-50, 50)
			w, h := r.Range(5, 40), r.Range(5, 40)
			if r.Bool() {
				h = -h
			}
			a, b := r.Range(0.2, 1.2), r.Range(0.2, 1.2)
			if r.Chance(0.5) {
				x0, y0, w, h = math.Round(x0), math.Round(y0), math.Round(w), math.Round(h)
				a, b = math.Round(a*w)/w, math.Round(b*w)/w
			}
			x1, y1 := x0+w, y0+h
			yb := math.Min(y0, y1) - r.Range(2, 20)
			if r.Bool() {
				yb = math.Max(y0, y1) + r.Range(2, 20)
			}
			p = &canvas.Path{}
			p.MoveTo(x0, y0)
			if r.Chance(0.8) {
				p.CubeTo(x0+a*w, y0, x1-b*w, y1, x1, y1)
			} else { // convex: horizontal tangent at the start only
				p.CubeTo(x0+a*w, y0, x1, y1-b*h, x1, y1)
			}
			p.LineTo(x1, yb)
			p.LineTo(x0, yb)
			p.Close()
			if r.Bool() {
				p = p.Reverse()
			}
			c.Mode = "windings-nocrossings"
			// one query point per case, left of the path or between the end points (a ray towards +x from
			// the right of the path meets nothing)
			y := y0
			if r.Bool() {
				y = y1
			}
			if r.Chance(0.7) {
				c.Pts = append(c.Pts, Pt{x0 - r.LogRange(1e-3, 1e3)*w, y})
			} else {
				c.Pts = append(c.Pts, Pt{x0 + r.Range(0.02, 0.98)*w, y})
			}
		case "boundary-float", "boundary-poly", "boundary-curved":
			c.Mode = "boundary"
			kinds := kLine
			if kind == "boundary-curved" {
				kinds = kAll
			}
			p = genPath(r, pathOpts{Kinds: kinds, MinSegs: 2, MaxSegs: 6, MaxSubs: 2, Closed: 1, Integer: kind != "boundary-float"})
			subs, _ := refSubs(p)
			for si := range subs {
				for i := range subs[si].Segs {
					sg := &subs[si].Segs[i]
					c.Pts = append(c.Pts, sg.P0)
					if sg.Kind == geom.Line && kind != "boundary-float" {
						// midpoints of integer edges are exactly representable and exactly on the edge
						c.Pts = append(c.Pts, sg.P0.Lerp(sg.P3, 0.5))
					}
				}
			}
		case "ccw-poly", "ccw-curved":
			c.Mode = "ccw"
			fam := r.Intn(2)
			if kind == "ccw-curved" {
				fam = r.IntRange(2, 5)
			}
			p = simpleClosedShapeK(r, r.Range(-30, 30), r.Range(-30, 30), r.Range(2, 40), r.Bool(), fam)
		case "filling-poly", "filling-curved":
			c.Mode = "filling"
			c.Rule = r.Intn(4)
			// nested and disjoint simple contours that do not touch: concentric shapes with shrinking radii
			// around a few centres far apart
			p = &canvas.Path{}
			for g, ng := 0, r.IntRange(1, 2); g < ng; g++ {
				cx, cy := float64(g)*200+r.Range(-20, 20), r.Range(-20, 20)
				rad := r.Range(30, 60)
				for k, nk := 0, r.IntRange(1, 3); k < nk; k++ {
					// a circle of radius rad*0.3 fits inside every family member of size rad (their
					// inner radius is at least 0.3*rad for polygons; 0.2 for ellipses: use circles inside)
					var q *canvas.Path
					if kind == "filling-poly" {
						// star polygons with radii in [0.5,1]*rad nest when rad shrinks by more than half
						q = contoursPath([][]Pt{starPoly(r, cx, cy, rad*0.6, rad, r.IntRange(5, 9), r.Bool())})
						rad *= 0.25
					} else if k == 0 {
						q = simpleClosedShape(r, cx, cy, rad, r.Bool())
						rad *= 0.18
					} else {
						q = canvas.Circle(rad).Transform(canvas.Identity.Translate(cx, cy))
						if r.Bool() {
							q = q.Reverse()
						}
						rad *= 0.6
					}
					p = p.Append(q)
				}
			}
		}
		if c.Mode == "filling" && contoursTouch(p) {
			// regenerate deterministically from the same stream
			return genC06(kind)(r)
		}
		c.P = dataCopy(p)
		return c
	}
}

// contoursTouch reports whether any two sub-paths of p come closer than 1e-3*scale (reference
// flattening), i.e. whether "the contours that enclose it" is not well defined.
func contoursTouch(p *canvas.Path) bool {
	polys, err := refPolys(p, 1e-4, true)
	if err != nil {
		return true
	}
	tol := 1e-3 * pathScale(polys)
	for i := range polys {
		for j := range polys {
			if i == j {
				continue
			}
			for _, v := range polys[i].V {
				if geom.DistPtPolys(v.P, polys[j:j+1]) < tol {
					return true
				}
			}
		}
	}
	// vertices of i far from j and vice versa, plus edge crossings
	for i := range polys {
		for j := i + 1; j < len(polys); j++ {
			a, b := polys[i].V, polys[j].V
			for k := 0; k+1 < len(a); k++ {
				for l := 0; l+1 < len(b); l++ {
					if segsTouch(a[k].P, a[k+1].P, b[l].P, b[l+1].P) {
						return true
					}
				}
			}
		}
	}
	return false
}

// rayCrossings counts the edges of the polylines crossing the horizontal line y to the right of x.
func rayCrossings(x, y float64, polys []geom.Poly) int {
	n := 0
	for i := range polys {
		v := polys[i].V
		for j := 0; j+1 < len(v); j++ {
			a, b := v[j].P, v[j+1].P
			if (a.Y <= y) == (b.Y <= y) {
				continue
			}
			// x coordinate of the crossing
			t := (y - a.Y) / (b.Y - a.Y)
			if a.X+t*(b.X-a.X) > x {
				n++
			}
		}
	}
	return n
}

func c06Check(ci any, o *core.Obs) {
	c := ci.(*c06Case)
	checkGlobals(o)
	P := pathFrom(c.P)
	subs, err := refSubs(P)
	if err != nil {
		o.Skip("not decodable")
		return
	}
	coarse := geom.Flatten(subs, 1e-3, true)
	scale := pathScale(coarse)
	margin := 1e-5 * scale
	polys := geom.Flatten(subs, margin/20, true)
	switch c.Mode {
	case "windings", "windings-nocrossings":
		for _, x := range c.Pts {
			d := geom.DistPtPolys(x, polys)
			if d <= margin {
				o.Count("points_near_boundary_skipped", 1)
				continue
			}
			want := geom.Winding(x, polys)
			var got int
			var onb bool
			xx := x
			if !o.Call("Path.Windings", func() { got, onb = pathFrom(c.P).Windings(xx.X, xx.Y) }) {
				return
			}
			o.Decided(1)
			o.Count("points_decided", 1)
			if want != 0 {
				o.NonTrivial()
			}
			if onb {
				o.Fail("boundary-false-positive", "Windings(%v) reports boundary but the point is %.3g away from the path %s", x, d, pstr(P))
				return
			}
			if got != want {
				o.Fail("windings", "Windings(%v) = %d, reference winding number %d; path %s", x, got, want, pstr(P))
				return
			}
			for ri, rule := range rules {
				var in bool
				if !o.Call("Path.Contains", func() { in = pathFrom(c.P).Contains(xx.X, xx.Y, rule) }) {
					return
				}
				if in != fillsRule(ri, want) {
					o.Fail("contains", "Contains(%v,%s) = %v but the winding number is %d; path %s", x, ruleNames[ri], in, want, pstr(P))
					return
				}
			}
			// crossings: only when the count is the same just above and just below the ray
			ca, cb := rayCrossings(x.X, x.Y+margin/2, polys), rayCrossings(x.X, x.Y-margin/2, polys)
			cm := rayCrossings(x.X, x.Y, polys)
			if ca == cb && ca == cm && c.Mode == "windings" {
				var gotc int
				if !o.Call("Path.Crossings", func() { gotc, _ = pathFrom(c.P).Crossings(xx.X, xx.Y) }) {
					return
				}
				o.Decided(1)
				o.Count("crossings_decided", 1)
				if gotc != ca {
					o.Fail("crossings", "Crossings(%v) = %d, reference %d; path %s", x, gotc, ca, pstr(P))
					return
				}
			}
		}
	case "boundary":
		for _, x := range c.Pts {
			var onb bool
			xx := x
			if !o.Call("Path.Windings", func() { _, onb = pathFrom(c.P).Windings(xx.X, xx.Y) }) {
				return
			}
			o.Decided(1)
			o.NonTrivial()
			if !onb {
				o.Fail("boundary-missed", "Windings(%v) does not report boundary for a point exactly on the path %s", x, pstr(P))
				return
			}
		}
	case "ccw":
		a := geom.AreaPolys(polys)
		if math.Abs(a) < 1e-6*scale*scale {
			o.Skip("degenerate area")
			return
		}
		var got bool
		if !o.Call("Path.CCW", func() { got = pathFrom(c.P).CCW() }) {
			return
		}
		o.Decided(1)
		o.NonTrivial()
		if got != (a > 0) {
			o.Fail("ccw", "CCW() = %v but the signed area is %.6g; path %s", got, a, pstr(P))
		}
	case "filling":
		var got []bool
		if !o.Call("Path.Filling", func() { got = pathFrom(c.P).Filling(rules[c.Rule]) }) {
			return
		}
		if len(got) != len(subs) {
			o.Fail("filling-len", "Filling returned %d values for %d sub-paths", len(got), len(subs))
			return
		}
		for i := range subs {
			// a point just inside contour i: step from the midpoint of an edge to the inside
			pi := polys[i]
			in, ok := pointJustInside(pi, polys, margin*4)
			if !ok {
				o.Count("filling_no_inside_point", 1)
				continue
			}
			w := geom.Winding(in, polys)
			o.Decided(1)
			o.NonTrivial()
			if got[i] != fillsRule(c.Rule, w) {
				o.Fail("filling", "Filling(%s)[%d] = %v but the winding number just inside that contour is %d; path %s", ruleNames[c.Rule], i, got[i], w, pstr(P))
				return
			}
		}
	}
	checkGlobals(o)
}

// pointJustInside returns a point at distance about d inside the closed polyline p (on the side of
// its own interior), clear of all polylines by d/2.
func pointJustInside(p geom.Poly, all []geom.Poly, d float64) (Pt, bool) {
	ccw := geom.Area(p.Pts()) > 0
	v := p.V
	for j := 0; j+1 < len(v); j++ {
		a, b := v[j].P, v[j+1].P
		dir := b.Sub(a)
		l := dir.Len()
		if l < 4*d {
			continue
		}
		n := Pt{-dir.Y / l, dir.X / l} // left normal
		if !ccw {
			n = n.Mul(-1)
		}
		x := a.Lerp(b, 0.5).Add(n.Mul(d))
		if geom.DistPtPolys(x, all) >= d/2 && geom.Winding(x, []geom.Poly{p}) != 0 {
			return x, true
		}
	}
	return Pt{}, false
}

func c06Describe(ci any) any {
	c := ci.(*c06Case)
	n := len(c.Pts)
	pts := c.Pts
	if n > 6 {
		pts = pts[:6]
	}
	return map[string]any{"kind": c.Kind, "mode": c.Mode, "P": dstr(c.P), "points": n, "first_points": pts}
}

func init() {
	core.Register(&core.Property{
		ID:    "C06",
		Title: "Containment and winding queries agree with the path's winding number",
		Rule: "closed paths (1-3 sub-paths, 1-8 segments each) with query points: uniform, level with vertices and horizontal edges (polylines, integer grids), level with y-extrema of curves, exact boundary points, simple contours for CCW, nested non-touching contours for Filling; " +
			"a point is decided when farther than 1e-5*scale from the reference boundary; non-trivial = a decided point with non-zero winding (or a boundary/CCW/Filling answer); distinct = distinct case hash",
		Strata: []core.Stratum{
			{Name: "poly-generic", Quick: 2000, Thorough: 60000, Gen: genC06("poly-generic")},
			{Name: "poly-level", Quick: 2000, Thorough: 60000, Gen: genC06("poly-level"), Note: "Windings/Contains only; Crossings on rays through vertices is demoted (poly-level-crossings)"},
			{Name: "curved-generic", Quick: 2000, Thorough: 60000, Gen: genC06("curved-generic")},
			{Name: "boundary-float", Quick: 1000, Thorough: 20000, Gen: genC06("boundary-float"), Note: "vertices of float polylines"},
			{Name: "ccw-poly", Quick: 1500, Thorough: 40000, Gen: genC06("ccw-poly")},
			{Name: "ccw-curved", Quick: 1500, Thorough: 40000, Gen: genC06("ccw-curved"), Note: "circles, ellipses, rounded rectangles, quad chains in both orientations (clean since the CCW fix)"},
			{Name: "filling-poly", Quick: 800, Thorough: 20000, Gen: genC06("filling-poly")},
			// demoted strata (DESIGN 4.5): the library fails on a large share of these inputs; the failing
			// inputs are kept as exact-input witnesses in known_findings.json
			{Name: "poly-level-crossings", Quick: 1000, Thorough: 20000, Gen: genC06("poly-level-crossings"), WitnessOnly: true, Note: "Crossings miscounts when the ray passes through a vertex (1e-4 of float polylines)"},
			{Name: "poly-grid-level", Quick: 1000, Thorough: 20000, Gen: genC06("poly-grid-level"), WitnessOnly: true, Note: "integer-grid polylines, ray through several vertices / along horizontal edges: 23% wrong windings, 3% panics"},
			{Name: "curved-extrema", Quick: 1000, Thorough: 20000, Gen: genC06("curved-extrema"), WitnessOnly: true, Note: "ray tangent to a curve at its y-extremum: 5% wrong windings"},
			{Name: "curved-linelevel", Quick: 1000, Thorough: 20000, Gen: genC06("curved-linelevel"), WitnessOnly: true, Note: "ray through a line-line vertex of a path that also has curves: 6% panics, 6% wrong"},
			{Name: "curved-endlevel", Quick: 1000, Thorough: 20000, Gen: genC06("curved-endlevel"), WitnessOnly: true, Note: "ray through an end point of a Bezier/arc segment: 25% panics, 15% wrong"},
			{Name: "connector-level", Quick: 1500, Thorough: 20000, Gen: genC06("connector-level"), WitnessOnly: true, Note: "cubic connectors with horizontal end tangents closed by lines, one ray level with an end point of the cubic: 40% panics, 5% wrong (F-C06-endlevel); 600 cases on which the library is right are pinned"},
			{Name: "boundary-poly", Quick: 1000, Thorough: 20000, Gen: genC06("boundary-poly"), WitnessOnly: true, Note: "vertices and edge midpoints of integer-grid polylines: 0.5% panics"},
			{Name: "boundary-curved", Quick: 1000, Thorough: 20000, Gen: genC06("boundary-curved"), WitnessOnly: true, Note: "points exactly on curved integer-grid paths: 15% panics, 15% not reported as boundary"},
			{Name: "filling-curved", Quick: 1000, Thorough: 20000, Gen: genC06("filling-curved"), WitnessOnly: true, Note: "Filling of nested curved contours: the ray from a contour's start point passes through end points of the other contours' arcs (F-C06-endlevel): 4% wrong"},
		},
		NewCase:  func() any { return &c06Case{} },
		Check:    c06Check,
		Describe: c06Describe,
		Assumptions: []string{
			"reference winding numbers on a dense flattening (deviation < 5e-7*scale) are the ground truth",
			"open sub-paths are not generated: Windings does not close them (asserted by the repository's own tests), see findings",
			"Crossings is compared only when the reference count is the same just above, on and just below the ray",
		},
	})
}
