package mon

import (
	"math"

	"github.com/tdewolff/canvas"

	"verif/core"
)

// segment kind masks for genPath
const (
	kLine = 1 << iota
	kQuad
	kCube
	kArc
	kAll = kLine | kQuad | kCube | kArc
)

type pathOpts struct {
	Kinds      int     // mask of segment kinds
	MinSegs    int     // per sub-path
	MaxSegs    int     // per sub-path
	MaxSubs    int     // number of sub-paths 1..MaxSubs
	Closed     int     // 0 open, 1 closed, 2 random per sub-path
	Scale      float64 // coordinate range is [-50,50]*Scale
	Integer    bool    // round all coordinates to integers (after scaling by 1/5)
	CircArcs   bool    // arcs have rx == ry
	MaxRatio   float64 // max rx/ry of arcs (default 10)
	MildCurve  bool    // Bézier control polygons turn by less than 90 degrees per segment
	EndInflect bool    // mild cubics: an inflection point next to the end point (u1 close to 2*u2)
	NearChord  bool    // mild cubics: second control point (almost) on the chord
	Inflect    int     // mild cubics: 0 random, +1 always with an inflection (S-shape), -1 never
}

func pickKind(r *core.Rng, mask int) int {
	var ks []int
	for _, k := range []int{kLine, kQuad, kCube, kArc} {
		if mask&k != 0 {
			ks = append(ks, k)
		}
	}
	return ks[r.Intn(len(ks))]
}

// genPath builds a random path through the library's builder API.
func genPath(r *core.Rng, o pathOpts) *canvas.Path {
	if o.Scale == 0 {
		o.Scale = 1
	}
	if o.MaxRatio == 0 {
		o.MaxRatio = 10
	}
	if o.MaxSubs == 0 {
		o.MaxSubs = 1
	}
	if o.MaxSegs == 0 {
		o.MaxSegs = 5
	}
	if o.MinSegs == 0 {
		o.MinSegs = 1
	}
	if o.Kinds == 0 {
		o.Kinds = kAll
	}
	coord := func(c, spread float64) float64 {
		v := c + r.Range(-spread, spread)
		if o.Integer {
			return math.Round(v / 5)
		}
		return v * o.Scale
	}
	p := &canvas.Path{}
	nsub := r.IntRange(1, o.MaxSubs)
	for s := 0; s < nsub; s++ {
		cx, cy := r.Range(-30, 30), r.Range(-30, 30)
		x, y := coord(cx, 20), coord(cy, 20)
		p.MoveTo(x, y)
		nseg := r.IntRange(o.MinSegs, o.MaxSegs)
		for i := 0; i < nseg; i++ {
			ex, ey := coord(cx, 25), coord(cy, 25)
			for ex == x && ey == y {
				ex, ey = coord(cx, 25), coord(cy, 25)
			}
			switch pickKind(r, o.Kinds) {
			case kLine:
				p.LineTo(ex, ey)
			case kQuad:
				if o.MildCurve {
					// control point near the chord's midpoint, offset sideways by less than half the chord
					mx, my := (x+ex)/2, (y+ey)/2
					dx, dy := ex-x, ey-y
					t, u := r.Range(-0.25, 0.25), r.Range(-0.45, 0.45)
					p.QuadTo(mx+t*dx-u*dy, my+t*dy+u*dx, ex, ey)
				} else {
					p.QuadTo(coord(cx, 30), coord(cy, 30), ex, ey)
				}
			case kCube:
				if o.MildCurve {
					dx, dy := ex-x, ey-y
					// control points clearly off the chord (|u| >= 0.05): a control point on the chord puts
					// an inflection point at or next to an end point, which is its own (demoted) class
					u1, u2 := r.Range(0.05, 0.3), r.Range(0.05, 0.3)
					if r.Bool() {
						u1 = -u1
					}
					if r.Bool() {
						u2 = -u2
					}
					switch {
					case o.Inflect < 0 || (o.Inflect == 0 && r.Bool()):
						u2 = math.Copysign(u2, u1) // both control points on the same side: no inflection
					case o.Inflect > 0:
						u2 = -math.Copysign(u2, u1) // S-shape
					}
					if o.NearChord {
						u2 = r.Range(-0.01, 0.01)
					}
					// u1 = 2*u2 (or u2 = 2*u1) makes the three last (first) control points collinear and
					// equally spaced: an inflection point at the end point. Near that the library's cubic
					// flattening fails (finding F-C03-end-inflection), so it is a class of its own.
					for !o.EndInflect && !o.NearChord && (math.Abs(u1-2*u2) < 0.03 || math.Abs(u2-2*u1) < 0.03) {
						u2 = math.Copysign(r.Range(0.05, 0.3), u2)
					}
					if o.EndInflect {
						u1 = 2 * u2 * (1 + r.Range(-0.02, 0.02))
					}
					p.CubeTo(x+dx/3-u1*dy, y+dy/3+u1*dx, x+2*dx/3-u2*dy, y+2*dy/3+u2*dx, ex, ey)
				} else {
					p.CubeTo(coord(cx, 30), coord(cy, 30), coord(cx, 30), coord(cy, 30), ex, ey)
				}
			case kArc:
				d := math.Hypot(ex-x, ey-y)
				rx := d * r.LogRange(0.3, 3)
				ry := rx
				if !o.CircArcs {
					ry = rx / r.LogRange(1, o.MaxRatio)
					if r.Bool() {
						rx, ry = ry, rx
					}
				}
				if o.Integer {
					rx, ry = math.Max(1, math.Round(rx)), math.Max(1, math.Round(ry))
				}
				rot := r.Range(0, 360)
				if o.Integer || r.Chance(0.2) {
					rot = core.PickF(r, []float64{0, 30, 45, 90, 135, 180, 270})
				}
				p.ArcTo(rx, ry, rot, r.Bool(), r.Bool(), ex, ey)
			}
			x, y = ex, ey
		}
		if o.Closed == 1 || (o.Closed == 2 && r.Bool()) {
			p.Close()
		}
	}
	return circlePhi(p)
}

// circlePhi gives about a third of the circular arcs of p a rotation in their record, as Transform leaves
// it after a rotation (the builder stores 0 for circles, so no builder-made path carries one). The
// geometry does not depend on it. The value is derived from the arc's end point, not from the PRNG, so
// that the stream of the generators is the same as before this was added.
func circlePhi(p *canvas.Path) *canvas.Path {
	d := p.Data()
	changed := false
	for i := 0; i < len(d); {
		n := 4
		switch d[i] {
		case 4:
			n = 6
		case 8:
			n = 8
		case 16:
			n = 8
			if d[i+1] == d[i+2] && d[i+3] == 0 {
				h := math.Abs(math.Sin(d[i+5]*12.9898+d[i+6]*78.233) * 43758.5453)
				h -= math.Floor(h)
				if h < 0.35 {
					if !changed {
						d = append([]float64(nil), d...)
						changed = true
					}
					d[i+3] = h / 0.35 * math.Pi * 0.999
				}
			}
		}
		i += n
	}
	if !changed {
		return p
	}
	return canvas.NewPathFromData(d)
}

// curvedSimpleContour returns a closed simple contour made of quads around a star-shaped control
// polygon (every quad lies in a corner triangle of the polygon, so the contour cannot cross itself),
// optionally with straight pieces, in the requested orientation.
func curvedSimpleContour(r *core.Rng, cx, cy, rmin, rmax float64, ccw bool) *canvas.Path {
	pts := starPoly(r, cx, cy, rmin, rmax, r.IntRange(3, 8), true)
	n := len(pts)
	q := &canvas.Path{}
	m0 := pts[n-1].Lerp(pts[0], 0.5)
	q.MoveTo(m0.X, m0.Y)
	for i := 0; i < n; i++ {
		m := pts[i].Lerp(pts[(i+1)%n], 0.5)
		if r.Chance(0.25) {
			q.LineTo(pts[i].X, pts[i].Y)
			q.LineTo(m.X, m.Y)
		} else {
			q.QuadTo(pts[i].X, pts[i].Y, m.X, m.Y)
		}
	}
	q.Close()
	if !ccw {
		q = q.Reverse()
	}
	return q
}

// simpleClosedShape returns one simple closed contour of a random family (polygon, circle, ellipse,
// rounded rectangle, quad chain) with the given orientation, roughly of radius rad around (cx,cy).
func simpleClosedShape(r *core.Rng, cx, cy, rad float64, ccw bool) *canvas.Path {
	return simpleClosedShapeK(r, cx, cy, rad, ccw, r.Intn(6))
}

// simpleClosedShapeK: family 0,1 = polygons; 2 circle; 3 ellipse; 4 rounded rectangle; 5 quad chain.
func simpleClosedShapeK(r *core.Rng, cx, cy, rad float64, ccw bool, family int) *canvas.Path {
	var q *canvas.Path
	switch family {
	case 0:
		q = contoursPath([][]Pt{starPoly(r, 0, 0, rad*0.3, rad, r.IntRange(3, 10), true)})
	case 1:
		q = contoursPath([][]Pt{convexPoly(r, 0, 0, rad, rad*r.Range(0.3, 1), r.IntRange(3, 9), true)})
	case 2:
		q = canvas.Circle(rad)
	case 3:
		q = canvas.Ellipse(rad, rad*r.Range(0.2, 1)).Transform(canvas.Identity.Rotate(r.Range(0, 360)))
	case 4:
		w, h := rad*r.Range(0.8, 2), rad*r.Range(0.8, 2)
		q = canvas.RoundedRectangle(w, h, r.Range(0.05, 0.45)*math.Min(w, h)).Transform(canvas.Identity.Rotate(r.Range(0, 360)).Translate(-w/2, -h/2))
	default:
		q = curvedSimpleContour(r, 0, 0, rad*0.4, rad, true)
	}
	// the shape constructors are counter-clockwise; make sure, then orient
	if refArea(q) < 0 {
		q = q.Reverse()
	}
	if !ccw {
		q = q.Reverse()
	}
	return q.Transform(canvas.Identity.Translate(cx, cy))
}
