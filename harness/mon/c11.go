package mon

import (
	"math"
	"os"
	"path/filepath"
	"strconv"
	"strings"

	"github.com/tdewolff/canvas"

	"verif/core"
	"verif/geom"
	"verif/refsyn"
)

type c11Case struct {
	P         []float64 `json:",omitempty"`
	S         string    `json:",omitempty"` // parser input (mode "parse-path" / "parse-svg")
	Mode      string    // "print" | "parse-path" | "parse-svg"
	Precision int       `json:",omitempty"`
	Kind      string
}

func genC11Print(kind string) func(r *core.Rng) any {
	return func(r *core.Rng) any {
		var p *canvas.Path
		scale := 1.0
		switch kind {
		case "mixed":
			if r.Chance(0.4) {
				scale = r.LogRange(1e-3, 1e3)
			}
			p = genPath(r, pathOpts{Kinds: kAll, MaxSegs: 6, MaxSubs: 3, Closed: 2, Scale: scale, MaxRatio: 20})
		case "grid": // integer coordinates: H/V shorthands, short numbers, packed flags
			p = genPath(r, pathOpts{Kinds: kAll, MaxSegs: 6, MaxSubs: 3, Closed: 2, Integer: true})
		case "arcs":
			p = genPath(r, pathOpts{Kinds: kArc, MaxSegs: 4, MaxSubs: 2, Closed: 2, MaxRatio: 30})
		case "shapes":
			p = &canvas.Path{}
			for i, n := 0, r.IntRange(1, 3); i < n; i++ {
				q := simpleClosedShape(r, r.Range(-30, 30), r.Range(-30, 30), r.Range(1, 30), r.Bool())
				p = p.Append(q)
			}
		}
		prec := 8
		if r.Chance(0.2) {
			prec = 4
		}
		return &c11Case{P: dataCopy(p), Mode: "print", Precision: prec, Kind: kind}
	}
}

var c11PathSeeds = []string{
	"M0 0L10 0L10 10z", "M10-20A5.5.3-4 110-.1", "m1 1l2 0 0 2zm5 5h3v3h-3z", "M0 0C1 1 2 2 3 0S5 -2 6 0", "M0 0Q5 5 10 0T20 0T30 0",
	"M.5.5.5.5", "M1e2 1e-2L-1E+1 2", "M0,0 L1,1 , 2,2", "M0 0A5 5 0 0 1 10 0A5 5 0 1 0 0 0z", "M0 0a1 1 0 111 1", "M 10 10 H 20 V 20 H 10 Z",
	"M0 0L1 1M2 2L3 3zzM4 4", "M1 2 3 4 5 6", "M0 0ZL1 1", "L1 1", "M0 0Lz", "M0 0A0 0 0 0 0 1 1", "M1e400 0L0 1e-400",
}

var c11SVGSeeds = []string{
	`<svg xmlns="http://www.w3.org/2000/svg" width="100" height="50" viewBox="0 0 100 50"><rect x="10" y="10" width="30" height="20" fill="red"/><circle cx="60" cy="25" r="10" stroke="#00f" stroke-width="2" fill="none"/></svg>`,
	`<svg width="10mm" height="2cm"><g transform="translate(1,2) rotate(30) scale(2)"><path d="M0 0L5 5z" style="fill:blue;stroke:black"/><ellipse cx="1" cy="2" rx="3" ry="4"/><line x1="0" y1="0" x2="5" y2="5"/><polyline points="0,0 1,1 2,0"/><polygon points="0 0 1 1 2 0"/></g></svg>`,
	`<?xml version="1.0"?><svg viewBox="0 0 10 10"><style>.a{fill:#0f0} #b{stroke:red} rect{fill:none}</style><rect class="a" id="b" width="5" height="5"/><text x="1" y="2">hi</text><defs><linearGradient id="g"><stop offset="0" stop-color="#fff"/></linearGradient></defs><rect fill="url(#g)" width="1" height="1"/></svg>`,
	`<svg viewBox="0 0 10 10"><defs><linearGradient id="g" x1="0" x2="1"><stop offset="0" stop-color="#fff"/><stop offset="100%" stop-color="red" stop-opacity=".5"/></linearGradient><radialGradient id="r"/></defs><path fill="url(x#)" d="M0 0L5 5z"/><rect fill="url('#g')" stroke="url(#r)" width="4" height="4"/><circle r="2" fill="url(#)"/><circle r="2" fill="url()"/><circle r="2" fill="url('#')"/><path d="M0 0h1" marker-end="url(#m)" clip-path="url(#c)" mask="url(#)"/><marker id="m" markerWidth="3" markerHeight="50%" viewBox="0 0 1 1"/></svg>`,
	`<svg width="20" height="10"><text x="1" y="5" font-family="no-such-font-xyz" font-size="3" text-anchor="middle">hi &amp; bye</text><g font-family="serif" style="font-family:another-missing-font;font-size:2px"><text x="2" y="8" text-anchor="end">x<tspan>y</tspan></text><text font-family=""> </text></g></svg>`,
	`<svg width="50%" height="1e2px" viewBox="0,0,10,10"><g><g><g transform="matrix(1 0 0 1 0 0) skewX(10)"><rect width="100%" height="50%" rx="1"/></g></g></g></svg>`,
}

func genC11ParsePath(r *core.Rng) any {
	var s string
	switch r.Intn(9) {
	case 7, 8: // valid path data cut off at an arbitrary byte: the input ends where anything may be expected
		full := genC11ParseValid(r).(*c11Case).S
		s = full[:r.Intn(len(full)+1)]
		if r.Chance(0.3) {
			s += core.PickS(r, []string{" ", ",", "\n", " , "})
		}
	case 0: // grammar based
		var sb strings.Builder
		for i, n := 0, r.IntRange(1, 12); i < n; i++ {
			sb.WriteByte("MmLlHhVvCcSsQqTtAaZz"[r.Intn(20)])
			for k, m := 0, r.IntRange(0, 8); k < m; k++ {
				sb.WriteString(core.PickS(r, []string{"0", "1", "-1", ".5", "-.5", "1e3", "1E-3", "10", "3.25", "+2", "0.0", "1e", "e1", "--1", "1..2", "", "1e400", "-0"}))
				sb.WriteString(core.PickS(r, []string{" ", ",", "", " , ", "\n", "\t"}))
			}
		}
		s = sb.String()
	case 1: // valid output of the library
		p := genPath(r, pathOpts{Kinds: kAll, MaxSegs: 5, MaxSubs: 2, Closed: 2, Integer: r.Bool()})
		s = p.ToSVG()
		if r.Bool() {
			s = p.String()
		}
	case 2, 3: // mutation of a seed
		s = core.PickS(r, c11PathSeeds)
		b := []byte(s)
		for k, m := 0, r.IntRange(1, 4); k < m && len(b) > 0; k++ {
			i := r.Intn(len(b))
			switch r.Intn(5) {
			case 0:
				b = b[:i] // truncate
			case 1:
				b = append(b[:i], append([]byte(string(b[i:])), b[i:]...)...) // duplicate the tail
			case 2:
				b[i] ^= byte(1 << r.Intn(8)) // bit flip
			case 3:
				alphabet := "MZLHVCSQTAmzlhvcsqta0123456789.-+eE, \x00\xff"
				b[i] = alphabet[r.Intn(len(alphabet))]
			default:
				b = append(b[:i], b[minInt10(i+1, len(b)):]...) // delete a byte
			}
		}
		s = string(b)
	case 4: // whitespace and separators only
		s = strings.Repeat(core.PickS(r, []string{" ", "\n", "\t", ",", " ,", "\r\n"}), r.IntRange(0, 20))
	case 5: // long
		unit := core.PickS(r, []string{"L1 1", "l1 0 0 1", "a1 1 0 0 1 1 1", "h1v1", "M0 0", "z", "1 ", "-"})
		s = "M0 0" + strings.Repeat(unit, r.IntRange(1000, 30000))
	default:
		b := make([]byte, r.IntRange(0, 40))
		for i := range b {
			b[i] = byte(r.Intn(256))
		}
		s = string(b)
	}
	return &c11Case{S: s, Mode: "parse-path", Kind: "parse-path"}
}

// genC11ParseValid writes valid SVG path data by hand, with every command letter in both cases,
// implicit repetition of commands, chains of smooth curves (S after C/S, T after Q/T, and S/T after
// other commands, where the control point is the current point) and mixed separators. Coordinates
// have at most three decimals so that the written text is the exact input of both parsers.
func genC11ParseValid(r *core.Rng) any {
	var sb strings.Builder
	num := func() string {
		v := math.Round(r.Range(-40, 40)*8) / 8
		if r.Chance(0.3) {
			v = float64(r.IntRange(-20, 20))
		}
		return strconv.FormatFloat(v, 'f', -1, 64)
	}
	sep := func() string { return core.PickS(r, []string{" ", ",", " , ", "\n"}) }
	nums := func(n int) {
		for i := 0; i < n; i++ {
			if i > 0 {
				sb.WriteString(sep())
			}
			sb.WriteString(num())
		}
	}
	up := func(c byte) byte {
		if r.Bool() {
			return c
		}
		return c + 'a' - 'A'
	}
	sb.WriteByte(up('M'))
	nums(2)
	last := byte('M')
	for k, n := 0, r.IntRange(2, 12); k < n; k++ {
		var c byte
		switch {
		case (last == 'Q' || last == 'T') && r.Chance(0.6):
			c = 'T'
		case (last == 'C' || last == 'S') && r.Chance(0.6):
			c = 'S'
		default:
			c = "LLHVCSQTAZM"[r.Intn(11)]
		}
		if c == 'Z' && (last == 'M' || last == 'Z') {
			c = 'L' // a Close directly after a MoveTo is finding F-C10-moveto-close
		}
		implicit := c == last && c != 'Z' && c != 'M' && r.Chance(0.5)
		if !implicit {
			sb.WriteByte(up(c))
		} else {
			sb.WriteString(sep())
		}
		switch c {
		case 'M', 'L', 'T':
			nums(2)
		case 'H', 'V':
			nums(1)
		case 'C':
			nums(6)
		case 'S', 'Q':
			nums(4)
		case 'A':
			sb.WriteString(strconv.Itoa(r.IntRange(1, 30)) + sep() + strconv.Itoa(r.IntRange(1, 30)) + sep() + core.PickS(r, []string{"0", "30", "45", "90", "-20"}) + sep())
			sb.WriteString(core.PickS(r, []string{"0", "1"}) + sep() + core.PickS(r, []string{"0", "1"}) + sep())
			nums(2)
		}
		last = c
	}
	return &c11Case{S: sb.String(), Mode: "parse-valid", Kind: "parse-valid"}
}

var c11SVGFiles []string

func loadSVGFiles() {
	if c11SVGFiles != nil {
		return
	}
	c11SVGFiles = []string{}
	repo := os.Getenv("VERIF_REPO")
	if repo == "" {
		repo = "/repo"
	}
	for _, f := range []string{"resources/netherlands.svg"} {
		if b, err := os.ReadFile(filepath.Join(repo, f)); err == nil && len(b) < 4<<20 {
			c11SVGFiles = append(c11SVGFiles, string(b))
		}
	}
}

func genC11ParseSVG(r *core.Rng) any {
	loadSVGFiles()
	s := core.PickS(r, c11SVGSeeds)
	if len(c11SVGFiles) > 0 && r.Chance(0.05) {
		s = c11SVGFiles[r.Intn(len(c11SVGFiles))]
		if len(s) > 60000 {
			off := r.Intn(len(s) - 50000)
			s = s[:2000] + s[off:off+50000] // head plus a window: keeps the case small
		}
	}
	b := []byte(s)
	for k, m := 0, r.IntRange(0, 5); k < m && len(b) > 0; k++ {
		i := r.Intn(len(b))
		switch r.Intn(6) {
		case 0:
			b = b[:i]
		case 1:
			j := minInt10(len(b), i+r.IntRange(1, 40))
			b = append(b[:i], append([]byte(string(b[i:j])), b[i:]...)...)
		case 2:
			b[i] ^= byte(1 << r.Intn(8))
		case 3:
			ins := core.PickS(r, []string{"<g>", "</g>", "<svg>", "\"", "'", "<", ">", "&amp;", "&#x0;", "<![CDATA[", "<!--", "transform=\"rotate(\"", "width=\"-1\"", "viewBox=\"0 0 0 0\"", "d=\"M\"", "points=\"1\"", "style=\"fill:\"", "%", "1e999", "NaN"})
			b = append(b[:i], append([]byte(ins), b[i:]...)...)
		case 4:
			b = append(b[:i], b[minInt10(i+r.IntRange(1, 10), len(b)):]...)
		default:
			b[i] = byte(r.Intn(256))
		}
	}
	return &c11Case{S: string(b), Mode: "parse-svg", Kind: "parse-svg"}
}

func c11Corpus() []any {
	var out []any
	for _, s := range append([]string{"", " ", "  \n", ",", " ,", "M", "M0", "M0 0L", "z", "M0 0A1 1 0 2 0 1 1", "M0 0A1 1 0 0 0"}, c11PathSeeds...) {
		out = append(out, &c11Case{S: s, Mode: "parse-path", Kind: "corpus"})
	}
	for _, s := range append([]string{"", "<", "<svg", "<svg/>", "<svg></svg>", "<svg width='' height=''/>", "not xml at all"}, c11SVGSeeds...) {
		out = append(out, &c11Case{S: s, Mode: "parse-svg", Kind: "corpus"})
	}
	return out
}

// subsDev compares two decoded paths: parametrically when they have the same structure (the same
// sub-paths, segment kinds and closedness), by two-sided exact-distance Hausdorff otherwise.
func subsDev(a, b []geom.Sub) (dev float64, structural bool, at Pt) {
	structural = len(a) == len(b)
	for i := 0; structural && i < len(a); i++ {
		if len(a[i].Segs) != len(b[i].Segs) || a[i].Closed != b[i].Closed {
			structural = false
			break
		}
		for k := range a[i].Segs {
			if a[i].Segs[k].Kind != b[i].Segs[k].Kind {
				structural = false
			}
		}
	}
	if structural {
		for i := range a {
			if d := a[i].Start.Dist(b[i].Start); d > dev {
				dev, at = d, a[i].Start
			}
			for k := range a[i].Segs {
				sa, sb := &a[i].Segs[k], &b[i].Segs[k]
				for j := 0; j <= 8; j++ {
					u := float64(j) / 8
					if d := sa.At(u).Dist(sb.At(u)); d > dev {
						dev, at = d, sa.At(u)
					}
				}
			}
		}
		return
	}
	h1, at1 := geom.HausdorffSubs(a, b, 16)
	h2, at2 := geom.HausdorffSubs(b, a, 16)
	if h1 > h2 {
		return h1, false, at1
	}
	return h2, false, at2
}

// c11NonEmpty drops zero-length segments (H0, "l0 0", "t0,0": they trace nothing) and sub-paths left without segments.
func c11NonEmpty(subs []geom.Sub) []geom.Sub {
	var out []geom.Sub
	for _, s := range subs {
		t := geom.Sub{Start: s.Start, Closed: s.Closed}
		for _, sg := range s.Segs {
			if sg.Kind == geom.Line && sg.P0 == sg.P3 {
				continue
			}
			// a curve with all its points in one place ("t0,0" after a moveto) and an arc from a point to
			// itself (omitted by SVG 1.1 F.6.2) trace nothing either
			if sg.P0 == sg.P3 && ((sg.Kind == geom.Quad && sg.C1 == sg.P0) || (sg.Kind == geom.Cube && sg.C1 == sg.P0 && sg.C2 == sg.P0) || sg.Kind == geom.Arc) {
				continue
			}
			t.Segs = append(t.Segs, sg)
		}
		if len(t.Segs) > 0 {
			out = append(out, t)
		}
	}
	return out
}

func c11Check(ci any, o *core.Obs) {
	c := ci.(*c11Case)
	checkGlobals(o)
	switch c.Mode {
	case "parse-path":
		var p *canvas.Path
		var err error
		if !o.Call("ParseSVGPath", func() { p, err = canvas.ParseSVGPath(c.S) }) {
			return
		}
		o.Decided(1)
		o.NonTrivial()
		if err == nil && p == nil {
			o.Fail("nil-result", "ParseSVGPath(%q) returned neither a path nor an error", trunc200(c.S))
		}
		if err == nil && p != nil {
			o.Count("parsed_ok", 1)
		}
		return
	case "parse-valid":
		ref, rerr := refsyn.ParseSVGPath(c.S)
		if rerr != nil {
			o.Skip("the reference parser rejects the generated path data: " + rerr.Error())
			return
		}
		var p *canvas.Path
		var err error
		if !o.Call("ParseSVGPath", func() { p, err = canvas.ParseSVGPath(c.S) }) {
			return
		}
		o.NonTrivial()
		o.Decided(1)
		if err != nil {
			o.Fail("parse-valid", "ParseSVGPath(%q) fails with %v on valid path data", c.S, err)
			return
		}
		got, derr := refSubs(p)
		if derr != nil {
			o.Fail("parse-valid", "ParseSVGPath(%q) returned undecodable data: %v", c.S, derr)
			return
		}
		for _, sub := range ref {
			if sub.Closed && len(c11NonEmpty([]geom.Sub{sub})) == 0 {
				// "M x y h0 z": the builder removes a MoveTo that is closed without a segment, and what
				// follows starts elsewhere: finding F-C10-moveto-close, not explored here
				o.Skip("a sub-path closed without a segment of non-zero length (F-C10-moveto-close)")
				return
			}
		}
		ref, got = c11NonEmpty(ref), c11NonEmpty(got)
		if len(ref) == 0 && len(got) == 0 {
			return
		}
		box := geom.BoxPolys(geom.Flatten(ref, 1e-2, false))
		dev, structural, at := subsDev(ref, got)
		// zero-length and collinear segments may be dropped or merged by the builder: then the point sets
		// are compared instead (Hausdorff), with the tolerance of its sampling
		tol := 1e-9 * (1 + box.Scale())
		if strings.ContainsAny(c.S, "Aa") {
			tol = 1e-6 * (1 + box.Scale()) // radii correction and centre conversion of arcs in both parsers
		}
		if !structural {
			tol = 1e-4 * (1 + box.Scale())
		}
		if dev > tol {
			o.Fail("parse-valid", "ParseSVGPath(%q) = %s is %.4g away (near %v) from the geometry the path data describes (SVG 1.1 section 8.3; structural comparison: %v)", c.S, pstr(p), dev, at, structural)
		}
		return
	case "parse-svg":
		var cv *canvas.Canvas
		var err error
		if !o.Call("ParseSVG", func() { cv, err = canvas.ParseSVG(strings.NewReader(c.S)) }) {
			return
		}
		o.Decided(1)
		o.NonTrivial()
		if err == nil && cv == nil {
			o.Fail("nil-result", "ParseSVG returned neither a canvas nor an error")
		}
		if err == nil && cv != nil {
			o.Count("parsed_ok", 1)
		}
		return
	}
	// ---- printing ----------------------------------------------------------------------------------
	P := pathFrom(c.P)
	src, err := refSubs(P)
	if err != nil || len(src) == 0 {
		o.Skip("source not decodable")
		return
	}
	scale := geom.BoxPolys(geom.Flatten(src, 1e-2, false)).Scale()
	hasArc := false
	maxR := 0.0
	for si := range src {
		for k := range src[si].Segs {
			if sg := &src[si].Segs[k]; sg.Kind == geom.Arc {
				hasArc = true
				_, _, _, rx, ry := sg.ArcCenter()
				maxR = math.Max(maxR, math.Max(rx, ry))
			}
		}
	}
	o.NonTrivial()
	// (a) String round trip (full precision)
	var str string
	if o.Call("Path.String", func() { str = P.String() }) {
		var q *canvas.Path
		var perr error
		if o.Call("ParseSVGPath", func() { q, perr = canvas.ParseSVGPath(str) }) {
			o.Decided(1)
			if perr != nil {
				o.Fail("string-roundtrip", "ParseSVGPath(p.String()) failed: %v; %s", perr, trunc200(str))
			} else if !equalModCircleRotation(P.Data(), q.Data()) {
				o.Fail("string-roundtrip", "ParseSVGPath(p.String()) does not equal p: %s -> %s", pstr(P), pstr(q))
			}
		}
	}
	// (b) ToSVG at the configured precision
	prec := c.Precision
	if prec == 0 {
		prec = 8
	}
	canvas.Precision = prec
	defer func() { canvas.Precision = 8 }()
	// numbers carry prec significant digits: a coordinate v is off by at most 0.5*10^(1-prec)*|v|;
	// arcs amplify the rounding of radii and rotation by their size
	rel := math.Pow(10, float64(1-prec))
	tol := 2 * rel * scale
	if hasArc {
		// The end-point parametrisation of an arc is ill-conditioned when the radii barely span the
		// chord (lambda of SVG F.6.6 near 1): rounding the radii by a relative delta moves the centre by
		// about r*delta/sqrt(1-lambda), and by r*sqrt(delta) in the limit. This is a property of the
		// format, not of the printer.
		tol = 12 * rel * math.Max(scale, maxR) * arcConditioning(src, rel)
	}
	var svg string
	if o.Call("Path.ToSVG", func() { svg = P.ToSVG() }) {
		ref, rerr := refsyn.ParseSVGPath(svg)
		o.Decided(1)
		if rerr != nil {
			o.Fail("tosvg-grammar", "ToSVG output is not valid SVG path data: %v; %s", rerr, trunc200(svg))
		} else {
			dev, structural, at := subsDev(src, ref)
			o.Max("tosvg_dev_over_tol", dev/tol)
			if !structural {
				o.Count("tosvg_structure_changed", 1)
				dev = math.Max(0, dev-1e-5*scale) // nearest-point search accuracy of the fallback
			}
			if dev > tol {
				o.Fail("tosvg-geometry", "ToSVG (precision %d) read by the reference parser deviates by %.4g near %v (tolerance %.3g); path %s svg %s", prec, dev, at, tol, pstr(P), trunc200(svg))
			}
		}
		var q *canvas.Path
		var perr error
		if o.Call("ParseSVGPath", func() { q, perr = canvas.ParseSVGPath(svg) }) {
			o.Decided(1)
			if perr != nil {
				o.Fail("tosvg-reparse", "ParseSVGPath(p.ToSVG()) failed: %v; %s", perr, trunc200(svg))
			} else if qs, derr := refSubs(q); derr != nil {
				o.Fail("tosvg-reparse", "ParseSVGPath(p.ToSVG()) is ill-formed: %v", derr)
			} else {
				dev, structural, at := subsDev(src, qs)
				if !structural {
					dev = math.Max(0, dev-1e-5*scale)
				}
				o.Max("tosvg_reparse_dev_over_tol", dev/tol)
				if dev > tol {
					o.Fail("tosvg-reparse-geometry", "ParseSVGPath(p.ToSVG()) (precision %d) deviates by %.4g near %v (tolerance %.3g); path %s svg %s", prec, dev, at, tol, pstr(P), trunc200(svg))
				}
			}
		}
	}
	// (c) ToPDF: fixed notation with prec decimals; arcs replaced by cubics (C03 bound)
	// dec() writes prec decimals but at most prec significant digits
	tolDec := 2*math.Max(math.Pow(10, float64(-prec)), rel*scale) + 1e-12*scale
	var pdf string
	if o.Call("Path.ToPDF", func() { pdf = P.ToPDF() }) {
		ref, rerr := refsyn.ParsePDFPath(pdf)
		o.Decided(1)
		if rerr != nil {
			o.Fail("topdf-grammar", "ToPDF output is not a valid operator sequence: %v; %s", rerr, trunc200(pdf))
		} else {
			// quadratics are degree-elevated (same parametrisation): compare against the elevated source
			elev := elevate(src)
			dev, structural, at := subsDev(elev, ref)
			t := tolDec
			if hasArc || !structural {
				t += c03ArcRel*maxR + 1e-5*scale
			}
			o.Max("topdf_dev_over_tol", dev/t)
			if dev > t {
				o.Fail("topdf-geometry", "ToPDF (precision %d) traced by the reference interpreter deviates by %.4g near %v (tolerance %.3g); path %s pdf %s", prec, dev, at, t, pstr(P), trunc200(pdf))
			}
		}
	}
	// (d) ToPS incl. ellipse/ellipsen
	var ps string
	if o.Call("Path.ToPS", func() { ps = P.ToPS() }) {
		psubs, rerr := refsyn.ParsePS(ps)
		o.Decided(1)
		if rerr != nil {
			o.Fail("tops-grammar", "ToPS output is not a valid program for the reference interpreter: %v; %s", rerr, trunc200(ps))
		} else {
			c11ComparePS(o, c, src, psubs, tolDec, scale, P, ps)
		}
	}
	canvas.Precision = 8
	checkGlobals(o)
}

// elevate turns quadratic segments into the equivalent cubics.
func elevate(subs []geom.Sub) []geom.Sub {
	out := make([]geom.Sub, len(subs))
	for i := range subs {
		out[i] = geom.Sub{Start: subs[i].Start, Closed: subs[i].Closed}
		for _, sg := range subs[i].Segs {
			if sg.Kind == geom.Quad {
				c1 := sg.P0.Lerp(sg.C1, 2.0/3)
				c2 := sg.P3.Lerp(sg.C1, 2.0/3)
				sg = geom.Seg{Kind: geom.Cube, P0: sg.P0, C1: c1, C2: c2, P3: sg.P3}
			}
			out[i].Segs = append(out[i].Segs, sg)
		}
	}
	return out
}

// c11ComparePS compares the PostScript trace item by item with the source segments (ToPS keeps the
// segment structure; an arc may be preceded by a joining line of rounding size).
func c11ComparePS(o *core.Obs, c *c11Case, src []geom.Sub, ps []refsyn.PSSub, tolDec, scale float64, P *canvas.Path, prog string) {
	elev := elevate(src)
	worst, at := 0.0, Pt{}
	fail := func(format string, a ...any) {
		o.Fail("tops-geometry", format, a...)
	}
	if len(elev) != len(ps) {
		fail("ToPS traces %d sub-paths, the path has %d; ps %s", len(ps), len(elev), trunc200(prog))
		return
	}
	// angles are written in degrees with prec decimals: arc points move by up to r*1e-prec*pi/180
	for i := range elev {
		if elev[i].Closed != ps[i].Closed {
			fail("sub-path %d closed=%v in PostScript, %v in the path", i, ps[i].Closed, elev[i].Closed)
			return
		}
		k := 0
		for _, it := range ps[i].Items {
			if !it.IsArc && it.Seg.Kind == geom.Line && it.Seg.P0.Dist(it.Seg.P3) <= 100*tolDec && k < len(elev[i].Segs) && elev[i].Segs[k].Kind == geom.Arc {
				continue // the joining line arc prepends when its start differs by rounding
			}
			if k >= len(elev[i].Segs) {
				if !it.IsArc && it.Seg.FromClose {
					continue
				}
				fail("PostScript traces more segments than the path has in sub-path %d; ps %s", i, trunc200(prog))
				return
			}
			sg := &elev[i].Segs[k]
			k++
			for j := 0; j <= 8; j++ {
				u := float64(j) / 8
				var q Pt
				if it.IsArc {
					if sg.Kind != geom.Arc {
						fail("segment %d of sub-path %d is traced as an ellipse but is not an arc", k-1, i)
						return
					}
					q = it.Arc.At(u)
				} else {
					if sg.Kind == geom.Arc {
						fail("arc segment %d of sub-path %d is not traced by ellipse/ellipsen", k-1, i)
						return
					}
					q = it.Seg.At(u)
				}
				if d := sg.At(u).Dist(q); d > worst {
					worst, at = d, sg.At(u)
				}
			}
		}
		if k != len(elev[i].Segs) {
			fail("PostScript traces %d of the %d segments of sub-path %d", k, len(elev[i].Segs), i)
			return
		}
	}
	maxR := 0.0
	for si := range src {
		for k := range src[si].Segs {
			if sg := &src[si].Segs[k]; sg.Kind == geom.Arc {
				_, _, _, rx, ry := sg.ArcCenter()
				maxR = math.Max(maxR, math.Max(rx, ry))
			}
		}
	}
	prec := c.Precision
	if prec == 0 {
		prec = 8
	}
	// centre, radii (tolDec each) and three angles in degrees with prec decimals; observed up to 1.4x of
	// the first-order estimate on 900k calibration cases -> factor 4
	t := 4 * (tolDec + 4*maxR*math.Pow(10, float64(-prec))*math.Pi/180 + 1e-7*maxR)
	o.Max("tops_dev_over_tol", worst/t)
	if worst > t {
		fail("ToPS (precision %d) traced by the reference interpreter deviates by %.4g near %v (tolerance %.3g); path %s ps %s", prec, worst, at, t, pstr(P), trunc200(prog))
	}
}

func c11Describe(ci any) any {
	c := ci.(*c11Case)
	if c.Mode == "print" {
		return map[string]any{"kind": c.Kind, "mode": c.Mode, "precision": c.Precision, "P": dstr(c.P)}
	}
	return map[string]any{"kind": c.Kind, "mode": c.Mode, "input": trunc200(c.S), "bytes": len(c.S)}
}

func init() {
	core.Register(&core.Property{
		ID:                "C11",
		Title:             "Textual path formats round-trip and parsers never panic",
		StatesTermination: true,
		Rule: "printing: random builder paths (all segment kinds, arcs of any rotation incl. >= 90 degrees, integer grids for the shorthand/packing minifications, scales 1e-3..1e3, shape constructors) at Precision 8 and 4: ParseSVGPath(String()) equals p; ToSVG read by an independent SVG path-data parser and by ParseSVGPath; ToPDF and ToPS traced by independent mini-interpreters (incl. ellipse/ellipsen with Red Book arc semantics), each compared with the source parametrically at 9 parameters per segment; " +
			"parsing: grammar-based, mutated (truncate, duplicate, bit flips, byte edits), whitespace-only, long (up to 200 kB) and random byte strings for ParseSVGPath; mutated SVG documents (4 templates plus windows of resources/netherlands.svg) for ParseSVG: a value or an error, no panic, no hang; every case non-trivial; distinct = distinct case hash",
		Strata: []core.Stratum{
			{Name: "print-mixed", Quick: 1500, Thorough: 50000, Gen: genC11Print("mixed")},
			{Name: "print-grid", Quick: 1500, Thorough: 50000, Gen: genC11Print("grid")},
			{Name: "print-arcs", Quick: 1000, Thorough: 30000, Gen: genC11Print("arcs")},
			{Name: "print-shapes", Quick: 500, Thorough: 10000, Gen: genC11Print("shapes")},
			{Name: "parse-path", Quick: 6000, Thorough: 200000, Gen: genC11ParsePath},
			{Name: "parse-valid", Quick: 3000, Thorough: 100000, Gen: genC11ParseValid, Note: "valid path data with every command, implicit repetition and chains of smooth curves, decoded by an independent parser"},
			{Name: "parse-svg", Quick: 3000, Thorough: 100000, Gen: genC11ParseSVG},
		},
		NewCase:      func() any { return &c11Case{} },
		Corpus:       c11Corpus,
		Check:        c11Check,
		Describe:     c11Describe,
		CaseTimeoutS: 30,
		SoloTimeoutS: 120, // parsing and printing a path of a few segments takes microseconds
		Assumptions: []string{
			"reference readers in harness/refsyn written from the SVG 1.1 path grammar, PDF 32000-1 path operators and the Red Book arc/arcn semantics plus the ellipse procedures of the PS renderer",
			"tolerances follow the number formats: 2*10^(1-Precision) relative for ToSVG (x4 with arcs), 2*10^-Precision absolute for ToPDF/ToPS, plus the ReplaceArcs bound of C03 for arcs in ToPDF",
		},
	})
}

// equalModCircleRotation: the same commands and numbers (to 1e-9), except that the rotation of a
// circular arc (rx = ry) is immaterial: the parser canonicalises it to zero.
func equalModCircleRotation(a, b []float64) bool {
	if len(a) != len(b) {
		return false
	}
	for i := 0; i < len(a); {
		if a[i] != b[i] {
			return false
		}
		n := 4
		switch a[i] {
		case 4:
			n = 6
		case 8, 16:
			n = 8
		}
		for j := i + 1; j < i+n-1; j++ {
			if a[i] == 16 && j == i+3 && math.Abs(a[i+1]-a[i+2]) <= 1e-9*a[i+1] {
				continue
			}
			if math.Abs(a[j]-b[j]) > 1e-9*math.Max(1, math.Abs(a[j])) {
				return false
			}
		}
		i += n
	}
	return true
}

// arcConditioning returns the largest amplification (rx/ry)/sqrt(max(1-lambda, delta)) over the arcs.
func arcConditioning(subs []geom.Sub, delta float64) float64 {
	worst := 1.0
	for si := range subs {
		for k := range subs[si].Segs {
			sg := &subs[si].Segs[k]
			if sg.Kind != geom.Arc {
				continue
			}
			cp, sp := math.Cos(sg.Phi), math.Sin(sg.Phi)
			dx, dy := (sg.P0.X-sg.P3.X)/2, (sg.P0.Y-sg.P3.Y)/2
			x1, y1 := cp*dx+sp*dy, -sp*dx+cp*dy
			lam := x1*x1/(sg.Rx*sg.Rx) + y1*y1/(sg.Ry*sg.Ry)
			// a skinny ellipse moves sideways by rx/ry times the rounding of its end points
			worst = math.Max(worst, (sg.Rx/sg.Ry)/math.Sqrt(math.Max(1-lam, delta)))
		}
	}
	return worst
}
