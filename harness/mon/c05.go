package mon

import (
	"fmt"
	"math"

	"github.com/tdewolff/canvas"

	"verif/core"
	"verif/geom"
)

type c05Case struct {
	P      []float64
	Dashes []float64
	Offset float64
	Kind   string
}

func genC05(kind string) func(r *core.Rng) any {
	return func(r *core.Rng) any {
		var p *canvas.Path
		switch kind {
		case "lines":
			p = genPath(r, pathOpts{Kinds: kLine, MaxSegs: 6, MaxSubs: 3, Closed: 2})
		case "lines-grid":
			p = genPath(r, pathOpts{Kinds: kLine, MaxSegs: 5, MaxSubs: 2, Closed: 2, Integer: true})
		case "mild-beziers":
			p = genPath(r, pathOpts{Kinds: kQuad | kCube | kLine, MaxSegs: 4, MaxSubs: 2, Closed: 2, MildCurve: true})
		case "circular-arcs":
			p = genPath(r, pathOpts{Kinds: kArc | kLine, MaxSegs: 3, MaxSubs: 2, Closed: 2, CircArcs: true})
		case "mild-elliptic-arcs":
			p = genPath(r, pathOpts{Kinds: kArc, MaxSegs: 3, MaxSubs: 2, Closed: 2, MaxRatio: 1.5})
		case "end-boundary": // a dash ends just before the end of a curved sub-path
			p = genPath(r, pathOpts{Kinds: kArc | kQuad | kCube, MaxSegs: 3, MaxSubs: 1, Closed: 0, MildCurve: true, CircArcs: true})
		default: // mixed
			p = genPath(r, pathOpts{Kinds: kAll, MaxSegs: 5, MaxSubs: 3, Closed: 2, MildCurve: true, CircArcs: true})
		}
		L := p.Length()
		if !(L > 0) {
			L = 100
		}
		u := L / r.Range(3, 30)
		if kind == "lines-grid" {
			u = float64(r.IntRange(1, 4))
		}
		n := r.IntRange(0, 6)
		if r.Chance(0.9) && n == 0 {
			n = r.IntRange(1, 4)
		}
		d := make([]float64, n)
		for i := range d {
			d[i] = u * core.PickF(r, []float64{0, 0.1, 0.5, 1, 1, 2.5, 7, 500})
		}
		if n >= 2 && r.Chance(0.15) { // repeated sub-pattern
			d = append(d, d...)
		}
		period := 0.0
		for _, x := range d {
			period += x
		}
		if len(d)%2 == 1 {
			period *= 2
		}
		off := 0.0
		switch r.Intn(4) {
		case 0:
		case 1:
			off = r.Range(-3, 3) * period
		case 2:
			off = float64(r.IntRange(-3, 3)) * period
		default:
			off = r.Range(-1, 1) * u
		}
		if math.IsInf(off, 0) || math.IsNaN(off) || math.Abs(off) > 1e6*u {
			off = 0
		}
		if kind == "end-boundary" {
			// two-element pattern whose k-th dash ends at (1 - 1e-4..1e-3) of the length
			k := float64(r.IntRange(2, 8))
			gap := L / k * r.Range(0.05, 0.3)
			dash := (L*(1-r.LogRange(1e-5, 2e-3)) - (k-1)*gap) / k
			d, off = []float64{dash, gap}, 0
		}
		c := &c05Case{P: dataCopy(p), Dashes: d, Offset: off, Kind: kind}
		if kind != "end-boundary" {
			// On curved sub-paths a dash boundary next to the sub-path's end (or start) is decided by
			// the difference between two approximate length computations of the library and the dash
			// next to it can get lost (finding F-C05-end-boundary): that zone (on both sides of the
			// end) is a class of its own. Polylines only have the join-by-position case.
			zone := 0.003
			if kind == "lines" || kind == "lines-grid" {
				zone = 0
			}
			for try := 0; try < 50 && boundaryNearEnd(c, zone); try++ {
				c.Offset = r.Range(-1, 1) * period
			}
		}
		return c
	}
}

// boundaryNearEnd reports whether some dash boundary falls into the zone around the end (or just
// after the start) of a sub-path where the library's two arc-length estimates (Length and the one
// inside SplitAt) may disagree: twice the measured error of Length on that sub-path plus frac*L.
// For closed polylines it also reports a dash that starts exactly on the sub-path's start point
// further along the path (the wrap-around join is made by position, finding F-C05-join-coincidence).
func boundaryNearEnd(c *c05Case, frac float64) bool {
	subs, err := geom.Decode(c.P)
	if err != nil {
		return false
	}
	for si := range subs {
		fp := geom.FlattenSub(&subs[si], 1e-6)
		tab := geom.NewArcTable(fp)
		L := tab.Total()
		zone := frac * L
		one := []geom.Sub{subs[si]}
		if lib := libLength(one); lib > 0 {
			zone += 2 * math.Abs(lib-L)
		}
		// evaluate the pattern on a slightly longer stretch so that boundaries just beyond the end count
		on, _, _, ok := dashModel(c.Dashes, c.Offset, L+zone)
		if !ok {
			return false
		}
		for _, iv := range on {
			for _, x := range []float64{iv.a, iv.b} {
				if (x > 0 && x < zone) || (x < L+zone && x > L-zone) {
					return true
				}
			}
			if subs[si].Closed && iv.a > zone && iv.a < L && tab.PosAt(iv.a).Dist(subs[si].Start) < 1e-9*(1+L) {
				return true
			}
		}
	}
	return false
}

// libLength is the library's Length() of reference sub-paths (rebuilt through the builder API).
func libLength(subs []geom.Sub) (l float64) {
	defer func() { recover() }()
	p := &canvas.Path{}
	for si := range subs {
		p.MoveTo(subs[si].Start.X, subs[si].Start.Y)
		for i := range subs[si].Segs {
			sg := &subs[si].Segs[i]
			switch sg.Kind {
			case geom.Line:
				p.LineTo(sg.P3.X, sg.P3.Y)
			case geom.Quad:
				p.QuadTo(sg.C1.X, sg.C1.Y, sg.P3.X, sg.P3.Y)
			case geom.Cube:
				p.CubeTo(sg.C1.X, sg.C1.Y, sg.C2.X, sg.C2.Y, sg.P3.X, sg.P3.Y)
			case geom.Arc:
				p.ArcTo(sg.Rx, sg.Ry, sg.Phi*180/math.Pi, sg.Large, sg.Sweep, sg.P3.X, sg.P3.Y)
			}
		}
	}
	return p.Length()
}
