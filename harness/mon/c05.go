package mon

import (
	"fmt"
	"math"

	"github.com/tdewolff/canvas"

	"verif/core"
	"verif/geom"
)

type c05Case struct {
	P      []float64
	Dashes []float64
	Offset float64
	Kind   string
}

func genC05(kind string) func(r *core.Rng) any {
	return func(r *core.Rng) any {
		var p *canvas.Path
		switch kind {
		case "lines":
			p = genPath(r, pathOpts{Kinds: kLine, MaxSegs: 6, MaxSubs: 3, Closed: 2})
		case "lines-grid":
			p = genPath(r, pathOpts{Kinds: kLine, MaxSegs: 5, MaxSubs: 2, Closed: 2, Integer: true})
		case "mild-beziers":
			p = genPath(r, pathOpts{Kinds: kQuad | kCube | kLine, MaxSegs: 4, MaxSubs: 2, Closed: 2, MildCurve: true})
		case "circular-arcs":
			p = genPath(r, pathOpts{Kinds: kArc | kLine, MaxSegs: 3, MaxSubs: 2, Closed: 2, CircArcs: true})
		case "mild-elliptic-arcs":
			p = genPath(r, pathOpts{Kinds: kArc, MaxSegs: 3, MaxSubs: 2, Closed: 2, MaxRatio: 1.5})
		case "end-boundary": // a dash ends just before the end of a curved sub-path
			p = genPath(r, pathOpts{Kinds: kArc | kQuad | kCube, MaxSegs: 3, MaxSubs: 1, Closed: 0, MildCurve: true, CircArcs: true})
		default: // mixed
			p = genPath(r, pathOpts{Kinds: kAll, MaxSegs: 5, MaxSubs: 3, Closed: 2, MildCurve: true, CircArcs: true})
		}
		L := p.Length()
		if !(L > 0) {
			L = 100
		}
		u := L / r.Range(3, 30)
		if kind == "lines-grid" {
			u = float64(r.IntRange(1, 4))
		}
		n := r.IntRange(0, 6)
		if r.Chance(0.9) && n == 0 {
			n = r.IntRange(1, 4)
		}
		d := make([]float64, n)
		for i := range d {
			d[i] = u * core.PickF(r, []float64{0, 0.1, 0.5, 1, 1, 2.5, 7, 500})
		}
		if n >= 2 && r.Chance(0.15) { // repeated sub-pattern
			d = append(d, d...)
		}
		period := 0.0
		for _, x := range d {
			period += x
		}
		if len(d)%2 == 1 {
			period *= 2
		}
		off := 0.0
		switch r.Intn(4) {
		case 0:
		case 1:
			off = r.Range(-3, 3) * period
		case 2:
			off = float64(r.IntRange(-3, 3)) * period
		default:
			off = r.Range(-1, 1) * u
		}
		if math.IsInf(off, 0) || math.IsNaN(off) || math.Abs(off) > 1e6*u {
			off = 0
		}
		if kind == "end-boundary" {
			// two-element pattern whose k-th dash ends at (1 - 1e-4..1e-3) of the length
			k := float64(r.IntRange(2, 8))
			gap := L / k * r.Range(0.05, 0.3)
			dash := (L*(1-r.LogRange(1e-5, 2e-3)) - (k-1)*gap) / k
			d, off = []float64{dash, gap}, 0
		}
		c := &c05Case{P: dataCopy(p), Dashes: d, Offset: off, Kind: kind}
		if kind != "end-boundary" {
			// On curved sub-paths a dash boundary next to the sub-path's end (or start) is decided by
			// the difference between two approximate length computations of the library and the dash
			// next to it can get lost (finding F-C05-end-boundary): that zone (on both sides of the
			// end) is a class of its own. Polylines only have the join-by-position case.
			zone := 0.003
			if kind == "lines" || kind == "lines-grid" {
				zone = 0
			}
			for try := 0; try < 50 && boundaryNearEnd(c, zone); try++ {
				c.Offset = r.Range(-1, 1) * period
			}
		}
		return c
	}
}

// boundaryNearEnd reports whether some dash boundary falls into the zone around the end (or just
// after the start) of a sub-path where the library's two arc-length estimates (Length and the one
// inside SplitAt) may disagree: twice the measured error of Length on that sub-path plus frac*L.
// For closed polylines it also reports a dash that starts exactly on the sub-path's start point
// further along the path (the wrap-around join is made by position, finding F-C05-join-coincidence).
func boundaryNearEnd(c *c05Case, frac float64) bool {
	subs, err := geom.Decode(c.P)
	if err != nil {
		return false
	}
	for si := range subs {
		fp := geom.FlattenSub(&subs[si], 1e-6)
		tab := geom.NewArcTable(fp)
		L := tab.Total()
		zone := frac * L
		one := []geom.Sub{subs[si]}
		if lib := libLength(one); lib > 0 {
			zone += 2 * math.Abs(lib-L)
		}
		// evaluate the pattern on a slightly longer stretch so that boundaries just beyond the end count
		on, _, _, ok := dashModel(c.Dashes, c.Offset, L+zone)
		if !ok {
			return false
		}
		for _, iv := range on {
			for _, x := range []float64{iv.a, iv.b} {
				if (x > 0 && x < zone) || (x < L+zone && x > L-zone) {
					return true
				}
			}
			if subs[si].Closed && iv.a > zone && iv.a < L && tab.PosAt(iv.a).Dist(subs[si].Start) < 1e-9*(1+L) {
				return true
			}
		}
	}
	return false
}

// libLength is the library's Length() of reference sub-paths (rebuilt through the builder API).
func libLength(subs []geom.Sub) (l float64) {
	defer func() { recover() }()
	p := &canvas.Path{}
	for si := range subs {
		p.MoveTo(subs[si].Start.X, subs[si].Start.Y)
		for i := range subs[si].Segs {
			sg := &subs[si].Segs[i]
			switch sg.Kind {
			case geom.Line:
				p.LineTo(sg.P3.X, sg.P3.Y)
			case geom.Quad:
				p.QuadTo(sg.C1.X, sg.C1.Y, sg.P3.X, sg.P3.Y)
			case geom.Cube:
				p.CubeTo(sg.C1.X, sg.C1.Y, sg.C2.X, sg.C2.Y, sg.P3.X, sg.P3.Y)
			case geom.Arc:
				p.ArcTo(sg.Rx, sg.Ry, sg.Phi*180/math.Pi, sg.Large, sg.Sweep, sg.P3.X, sg.P3.Y)
			}
		}
	}
	return p.Length()
}

func c05Corpus() []any {
	var out []any
	add := func(s string, off float64, d ...float64) {
		if p, err := canvas.ParseSVGPath(s); err == nil {
			out = append(out, &c05Case{P: dataCopy(p), Dashes: d, Offset: off, Kind: "corpus"})
		}
	}
	add("M0 0L10 0", 0, 1, 0, 2, 3)         // interior zero gap: [1 0 2 3] is dash 3 gap 3
	add("M0 0L10 0", 0, 2, 1)               // plain
	add("M0 0L10 0", 0, 1)                  // odd length doubled
	add("M0 0L10 0", 0, 0)                  // all zero
	add("M0 0L10 0", 0, 0, 1, 2)            // leading zero dash
	add("M0 0L10 0L10 10L0 10z", 1, 3, 2)   // closed, starts inside a dash
	add("M0 0L10 0L10 10L0 10z", -1, 3, 2)  // negative offset
	add("M0 0L10 0L10 10L0 10z", -11, 3, 2) // negative offset beyond one period
	add("M0 0L10 0L10 10L0 10z", 0, 50)     // dash longer than the path
	add("M0 0L10 0M20 0L30 0", 0.5, 2, 1)   // two sub-paths
	add("M0 0A10 10 0 0 1 20 0A10 10 0 0 1 0 0z", 0, 3, 2)
	add("M-6 -1L-6 -6z", 0, 2, 0.2, 14) // out-and-back contour: the join must not merge the reversal away
	return out
}

type interval struct{ a, b float64 }

// dashModel returns the on-intervals within [0,L] prescribed by the raw pattern: array doubled if of
// odd length, repeated cyclically, pattern phase at path position s is s+offset. Zero-length dashes
// vanish, dashes separated by zero-length gaps merge. pre/post: by how much the dash covering the
// start/end of the path extends beyond it. ok=false: pattern without extent (all zero).
func dashModel(d []float64, offset, L float64) (on []interval, pre, post float64, ok bool) {
	dd := append([]float64(nil), d...)
	if len(dd)%2 == 1 {
		dd = append(dd, dd...)
	}
	period := 0.0
	for _, x := range dd {
		period += x
	}
	if !(period > 0) || math.IsInf(period, 0) {
		return nil, 0, 0, false
	}
	phase := math.Mod(offset, period)
	if phase < 0 {
		phase += period
	}
	s := -phase // path position where a pattern period starts
	for guard := 0; s < L && guard < 1000000; {
		for i, x := range dd {
			if i%2 == 0 && x > 0 {
				a, b := math.Max(s, 0), math.Min(s+x, L)
				if b > a {
					if s < 0 && a == 0 {
						pre = math.Max(pre, -s)
					}
					if s+x > L && b == L {
						post = math.Max(post, s+x-L)
					}
					if n := len(on); n > 0 && on[n-1].b >= a {
						on[n-1].b = math.Max(on[n-1].b, b)
					} else {
						on = append(on, interval{a, b})
					}
				}
			}
			s += x
			guard++
		}
	}
	return on, pre, post, true
}

type c05Want struct {
	start, end Pt
	length     float64
	sub        int
}

type c05Piece struct {
	sub    *geom.Sub
	length float64
}

func c05Check(ci any, o *core.Obs) {
	c := ci.(*c05Case)
	P := pathFrom(c.P)
	src, err := refSubs(P)
	if err != nil || len(src) == 0 {
		o.Skip("source not decodable")
		return
	}
	scale := geom.BoxPolys(geom.Flatten(src, 1e-2, false)).Scale()
	dArg := append([]float64(nil), c.Dashes...)
	var D *canvas.Path
	if !o.Call("Path.Dash", func() { D = pathFrom(c.P).Dash(c.Offset, dArg...) }) {
		return
	}
	if D == nil {
		o.Fail("nil", "Dash returned nil")
		return
	}
	if len(c.Dashes) == 0 {
		o.Decided(1)
		o.NonTrivial()
		if !bitsEqual(D.Data(), P.Data()) {
			o.Fail("empty-pattern", "Dash with an empty pattern returned %s instead of the path %s", pstr(D), pstr(P))
		}
		return
	}
	ds, err := refSubs(D)
	if err != nil {
		o.Fail("malformed", "Dash returned undecodable data: %v", err)
		return
	}
	curved := false
	for si := range src {
		for i := range src[si].Segs {
			if src[si].Segs[i].Kind != geom.Line {
				curved = true
			}
		}
	}
	var obs []c05Piece
	for i := range ds {
		if len(ds[i].Segs) == 0 {
			continue
		}
		obs = append(obs, c05Piece{&ds[i], refLength(ds[i:i+1], scale)})
	}
	// every piece lies on the input
	if len(ds) > 0 {
		worst, at := 0.0, Pt{}
		for _, q := range geom.SampleSubs(ds, 3) {
			if d := geom.DistToSubs(q, src); d > worst {
				worst, at = d, q
			}
		}
		o.Max("piece_off_path_rel", worst/scale)
		o.Decided(1)
		if worst > 1e-7*scale {
			o.Fail("off-path", "Dash(%g,%v): point %v of the result is %.4g away from the input %s", c.Offset, c.Dashes, at, worst, pstr(P))
			return
		}
	}
	// expected pieces, sub-path by sub-path, with the acceptable variants on closed sub-paths
	var perSub [][][]c05Want
	allZero := false
	totalWant, tauMax := 0.0, 0.0
	for si := range src {
		dense := geom.FlattenSub(&src[si], 1e-8*scale)
		tab := geom.NewArcTable(dense)
		L := tab.Total()
		if !(L > 0) {
			continue
		}
		tau := 1e-9*scale + 1e-9*L
		if curved {
			tau = c05PosRel*L + 1e-9*scale
		}
		tauMax = math.Max(tauMax, tau)
		on, pre, post, ok := dashModel(c.Dashes, c.Offset, L)
		if !ok {
			allZero = true
			break
		}
		var ws []c05Want
		for _, iv := range on {
			ws = append(ws, c05Want{tab.PosAt(iv.a), tab.PosAt(iv.b), iv.b - iv.a, si})
			totalWant += iv.b - iv.a
		}
		// Closed sub-paths: a dash running across the start point is one piece (joined); if the path
		// only ends inside a dash, "path order" is cyclic and the library emits that last dash first.
		// When a dash boundary falls within tau of the start/end the library's own (approximate) length
		// decides, so both readings are accepted there. Certain only if the dash covering the start
		// (end) extends beyond it by more than tau: an offset that is a multiple of the period puts a
		// dash boundary exactly on the start point.
		tiny := 1e-9*scale + 1e-9*L
		variants := [][]c05Want{ws}
		if src[si].Closed && len(ws) >= 1 {
			startsIn, endsIn := on[0].a <= tau, on[len(on)-1].b >= L-tau
			startsSure, endsSure := on[0].a <= tiny && pre > tau, on[len(on)-1].b >= L-tiny && post > tau
			joinedList := func() []c05Want {
				if len(ws) == 1 {
					w := ws[0]
					w.end = w.start
					return []c05Want{w}
				}
				first, last := ws[0], ws[len(ws)-1]
				joined := c05Want{last.start, first.end, first.length + last.length, si}
				return append([]c05Want{joined}, ws[1:len(ws)-1]...)
			}
			rotated := func() []c05Want {
				if len(ws) < 2 {
					return ws
				}
				return append([]c05Want{ws[len(ws)-1]}, ws[:len(ws)-1]...)
			}
			switch {
			case startsSure && endsSure:
				variants = [][]c05Want{joinedList()}
			case startsIn && endsIn:
				variants = [][]c05Want{joinedList(), ws, rotated()}
			case endsIn:
				variants = [][]c05Want{rotated(), ws}
			}
		}
		perSub = append(perSub, variants)
	}
	if allZero {
		o.Decided(1)
		o.NonTrivial()
		if !D.Empty() {
			o.Fail("all-zero-pattern", "Dash with an all-zero pattern %v returned %s instead of nothing", c.Dashes, pstr(D))
		}
		return
	}
	nExp, combos := 0, 1
	for _, vs := range perSub {
		nExp += len(vs[0])
		combos *= len(vs)
	}
	if nExp > 0 {
		o.NonTrivial()
	}
	// match expected and observed pieces in order; pieces shorter than 4*tau may be missing or extra
	tryMatch := func(mask int) (matched int, worstPos float64, tag, msg string) {
		var exp []c05Want
		for _, vs := range perSub {
			exp = append(exp, vs[mask%len(vs)]...)
			mask /= len(vs)
		}
		i, j := 0, 0
		for i < len(exp) || j < len(obs) {
			if i < len(exp) && j < len(obs) {
				e, q := exp[i], obs[j]
				ds, de := q.sub.Start.Dist(e.start), q.sub.End().Dist(e.end)
				dl := math.Abs(q.length - e.length)
				if ds <= tauMax && de <= tauMax && dl <= 2*tauMax {
					worstPos = math.Max(worstPos, math.Max(ds, math.Max(de, dl/2)))
					matched++
					i++
					j++
					continue
				}
			}
			if i < len(exp) && exp[i].length <= 4*tauMax {
				i++
				continue
			}
			if j < len(obs) && obs[j].length <= 4*tauMax {
				j++
				continue
			}
			switch {
			case i < len(exp) && j < len(obs):
				return matched, worstPos, "piece-mismatch", fmt.Sprintf("Dash(%g,%v): piece %d runs %v -> %v (length %.6g), the pattern prescribes %v -> %v (length %.6g, tolerance %.3g) on sub-path %d; input %s", c.Offset, c.Dashes, j, obs[j].sub.Start, obs[j].sub.End(), obs[j].length, exp[i].start, exp[i].end, exp[i].length, tauMax, exp[i].sub, pstr(P))
			case i < len(exp):
				return matched, worstPos, "piece-missing", fmt.Sprintf("Dash(%g,%v): the dash %v -> %v (length %.6g) of sub-path %d is missing (%d pieces returned); input %s", c.Offset, c.Dashes, exp[i].start, exp[i].end, exp[i].length, exp[i].sub, len(obs), pstr(P))
			default:
				return matched, worstPos, "piece-extra", fmt.Sprintf("Dash(%g,%v): extra piece %v -> %v (length %.6g); input %s", c.Offset, c.Dashes, obs[j].sub.Start, obs[j].sub.End(), obs[j].length, pstr(P))
			}
		}
		return matched, worstPos, "", ""
	}
	firstTag, firstMsg := "", ""
	matched, worstPos, okMatch := 0, 0.0, false
	for mask := 0; mask < combos; mask++ {
		m, w, tag, msg := tryMatch(mask)
		if tag == "" {
			matched, worstPos, okMatch = m, w, true
			break
		}
		if firstTag == "" {
			firstTag, firstMsg = tag, msg
		}
	}
	o.Decided(1)
	if !okMatch {
		o.Fail(firstTag, "%s", firstMsg)
		return
	}
	o.Decided(matched)
	o.Count("pieces_matched", float64(matched))
	if tauMax > 0 {
		o.Max("piece_position_err_over_tau:"+c.Kind, worstPos/tauMax)
	}
	total := 0.0
	for _, q := range obs {
		total += q.length
	}
	o.Decided(1)
	if math.Abs(total-totalWant) > 2*tauMax*float64(nExp+1) {
		o.Fail("total-length", "Dash(%g,%v): total drawn length %.6g, the pattern prescribes %.6g", c.Offset, c.Dashes, total, totalWant)
	}
}

// c05PosRel: allowed error of a dash end as a fraction of the sub-path length on curved paths (the
// library inverts arc length approximately, see C09: observed 0.16% on mild Béziers, 0.7% on mildly
// elliptic arcs). Polylines are exact (1e-9).
const c05PosRel = 0.01

func c05Describe(ci any) any {
	c := ci.(*c05Case)
	return map[string]any{"kind": c.Kind, "P": dstr(c.P), "dashes": c.Dashes, "offset": c.Offset}
}

func init() {
	core.Register(&core.Property{
		ID:    "C05",
		Title: "Dashing cuts the path by arc length according to the pattern",
		Rule: "random paths by curve class (polylines incl. integer grids, mild Béziers, circular and mildly elliptic arcs, mixed; 1-3 open/closed sub-paths) x dash arrays of length 0-12 with values {0, 0.1, 0.5, 1, 2.5, 7, 500} x unit (zeros, repeated sub-patterns, odd lengths) x offsets (0, real and integer multiples of the period in [-3,3], small); " +
			"pattern model (doubled if odd, cyclic, shifted, zero dashes vanish, zero gaps merge, wrap-around join on closed sub-paths) vs the returned pieces: every piece on the input, start/end points at the prescribed arc lengths, lengths, order, count, total; non-trivial = at least one prescribed dash; distinct = distinct case hash",
		Strata: []core.Stratum{
			{Name: "lines", Quick: 2000, Thorough: 60000, Gen: genC05("lines")},
			{Name: "lines-grid", Quick: 1500, Thorough: 40000, Gen: genC05("lines-grid")},
			{Name: "mild-beziers", Quick: 1000, Thorough: 20000, Gen: genC05("mild-beziers")},
			{Name: "circular-arcs", Quick: 1000, Thorough: 20000, Gen: genC05("circular-arcs")},
			{Name: "mild-elliptic-arcs", Quick: 500, Thorough: 10000, Gen: genC05("mild-elliptic-arcs")},
			{Name: "mixed", Quick: 1000, Thorough: 20000, Gen: genC05("mixed")},
			{Name: "end-boundary", Quick: 500, Thorough: 5000, Gen: genC05("end-boundary"), WitnessOnly: true, Note: "a dash ending within 1e-5..2e-3 of the length before the end of a curved sub-path: the last dash is dropped in 25% of the cases (Length() and SplitAt's own arc-length estimate disagree)"},
		},
		NewCase:  func() any { return &c05Case{} },
		Corpus:   c05Corpus,
		Check:    c05Check,
		Describe: c05Describe,
		Assumptions: []string{
			"reference arc length tables from a polyline with chord error below 1e-8*scale",
			"on curved paths dash ends may be off by 1% of the sub-path length (the library's approximate arc-length inversion, monitored by C09); polylines are held to 1e-9",
			"random cases keep dash boundaries out of the zone next to a curved sub-path's end where the library's two length estimates disagree (pinned by F-C05-end-boundary witnesses); eccentric elliptic arcs and hairpin Béziers are not generated (C09 findings)",
		},
	})
}
