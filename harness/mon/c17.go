package mon

import (
	"fmt"
	"math"

	"github.com/tdewolff/canvas/text"

	"verif/core"
	"verif/refkp"
)

type c17Item struct {
	K       int // 0 box 1 glue 2 penalty
	W, Y, Z float64
	P       float64
	F       bool
}

type c17Case struct {
	Items []c17Item
	Width float64
	// Tune: the package tunables Tolerance, DemeritsLine, DemeritsFlagged, DemeritsFitness set for this
	// case (nil: the defaults); the reference uses the same values
	Tune []float64 `json:",omitempty"`
	Kind string
}

const kpInf = 1000.0

func (c *c17Case) lib() []text.Item {
	out := make([]text.Item, len(c.Items))
	for i, it := range c.Items {
		switch it.K {
		case 0:
			out[i] = text.Box(it.W)
		case 1:
			out[i] = text.Glue(it.W, it.Y, it.Z)
		default:
			out[i] = text.Penalty(it.W, it.P, it.F)
		}
	}
	return out
}

func (c *c17Case) ref() []refkp.Item {
	out := make([]refkp.Item, len(c.Items))
	for i, it := range c.Items {
		out[i] = refkp.Item{Kind: it.K, Width: it.W, Stretch: it.Y, Shrink: it.Z, Penalty: it.P, Flagged: it.F}
	}
	return out
}

func kpParams() refkp.Params {
	return refkp.Params{Inf: kpInf, Tolerance: 2, DemeritsLine: 10, DemeritsFlagged: 100, DemeritsFitness: 100}
}

// genC17 builds an item sequence ending in the standard finishing glue and forced break.
func genC17(kind string) func(r *core.Rng) any {
	return func(r *core.Rng) any {
		for {
			var items []c17Item
			box := func(w float64) { items = append(items, c17Item{K: 0, W: w}) }
			glue := func(w, y, z float64) { items = append(items, c17Item{K: 1, W: w, Y: y, Z: z}) }
			pen := func(w, p float64, f bool) { items = append(items, c17Item{K: 2, W: w, P: p, F: f}) }
			space := r.Range(2, 5)
			box(core.PickF(r, []float64{0, 0, 5, 10})) // indent
			words := r.IntRange(2, 9)
			unit := func() float64 {
				if kind == "grid" {
					return float64(r.IntRange(1, 12))
				}
				return r.Range(3, 30)
			}
			for wd := 0; wd < words; wd++ {
				box(unit())
				if r.Chance(0.25) { // hyphenation point inside the word
					pen(core.PickF(r, []float64{0, 2, 3}), core.PickF(r, []float64{50, 50, 0, -50, 500}), r.Chance(0.8))
					box(unit())
				}
				if r.Chance(0.05) { // break after an explicit hyphen
					pen(0, 50, true)
				}
				if wd == words-1 {
					break
				}
				switch {
				case kind == "ragged" || (kind == "mixed" && r.Chance(0.3)):
					// ragged-right spaces as GlyphsToItems emits them: glue(0,s,0) penalty(0,0) glue(w,-s,0)
					glue(0, space, 0)
					pen(0, 0, false)
					glue(space, -space, 0)
				case r.Chance(0.08): // forced break in the middle (explicit newline)
					glue(0, kpInf, 0)
					pen(0, -kpInf, false)
				case r.Chance(0.06): // unbreakable space
					glue(space, space/2, space/3)
					pen(0, kpInf, false)
				default:
					y, z := space/2, space/3
					switch r.Intn(8) {
					case 0:
						y, z = 0, 0 // rigid
					case 1:
						y = kpInf // infinitely stretchable
					case 2:
						z = space // fully shrinkable
					case 3:
						y *= 3 // sentence space
					}
					if kind == "grid" {
						y, z = math.Round(y), math.Round(z)
					}
					glue(space, y, z)
					if r.Chance(0.05) {
						glue(space, y, z) // consecutive glue
					}
				}
			}
			glue(0, kpInf, 0)
			pen(0, -kpInf, false)
			c := &c17Case{Items: items, Kind: kind}
			// widths from "nothing fits" to "one line"
			total := 0.0
			maxBox := 0.0
			for _, it := range items {
				if it.K != 2 {
					total += it.W
				}
				if it.K == 0 {
					maxBox = math.Max(maxBox, it.W)
				}
			}
			switch r.Intn(6) {
			case 0:
				c.Width = maxBox * r.Range(0.3, 1) // a word is wider than the line
			case 1:
				c.Width = total * r.Range(0.9, 1.3) // about one line
			default:
				c.Width = math.Max(maxBox*0.9, total/float64(r.IntRange(2, 5))*r.Range(0.8, 1.2))
			}
			if kind == "grid" {
				c.Width = math.Max(1, math.Round(c.Width))
			}
			// keep the exhaustive search small
			legal := 0
			ref := c.ref()
			for b := range ref {
				if refkp.Legal(ref, b, kpParams()) {
					legal++
				}
			}
			if legal <= 16 {
				return c
			}
		}
	}
}

// genC17Paragraph builds plain paragraphs of many words with one fine-grained glue setting and a
// measure of three to six lines: several break sequences with nearly equal demerits and different
// fitness classes compete, which is where the pruning of active nodes decides optimality.
// genC17Tuning: paragraphs with many hyphenation points under other values of the package tunables.
func genC17Tuning(r *core.Rng) any {
	c := genC17Para(r, false).(*c17Case)
	// turn a third of the inter-word boxes into hyphenated words
	var items []c17Item
	for _, it := range c.Items {
		if it.K == 0 && it.W > 8 && r.Chance(0.35) {
			items = append(items, c17Item{K: 0, W: it.W / 2}, c17Item{K: 2, W: 2, P: core.PickF(r, []float64{50, 50, 0, 200}), F: true}, c17Item{K: 0, W: it.W / 2})
		} else {
			items = append(items, it)
		}
	}
	c.Items = items
	c.Tune = []float64{core.PickF(r, []float64{1, 2, 3, 5}), core.PickF(r, []float64{1, 10, 50}), core.PickF(r, []float64{0, 100, 3000, 10000}), core.PickF(r, []float64{0, 100, 3000})}
	c.Kind = "tuning"
	return c
}

// genC17Glueless: boxes separated mostly by penalties (text of a script without spaces, long words with
// hyphenation points) and a few spaces, on a narrow measure: every complete breaking has lines without
// any stretchable glue, so the stretch limit has to be relaxed, and only as far as needed.
func genC17Glueless(r *core.Rng) any {
	for {
		var items []c17Item
		integer := r.Bool()
		items = append(items, c17Item{K: 0, W: 0})
		n := r.IntRange(4, 9)
		total := 0.0
		for i := 0; i < n; i++ {
			bw := r.Range(5, 70)
			if integer {
				bw = math.Round(bw/5) * 5
			}
			items = append(items, c17Item{K: 0, W: bw})
			total += bw
			if i == n-1 {
				break
			}
			if r.Chance(0.25) {
				w := r.Range(3, 10)
				if integer {
					w = math.Round(w)
				}
				items = append(items, c17Item{K: 1, W: w, Y: w / 2, Z: w / 3})
			} else {
				items = append(items, c17Item{K: 2, W: 0, P: core.PickF(r, []float64{0, 0, 50}), F: r.Chance(0.3)})
			}
		}
		items = append(items, c17Item{K: 1, W: 0, Y: kpInf, Z: 0}, c17Item{K: 2, W: 0, P: -kpInf, F: false})
		width := r.Range(70, 130)
		if integer {
			width = 100
		}
		if total < width {
			continue
		}
		return &c17Case{Items: items, Width: width, Kind: "glueless"}
	}
}

// genC17Multi: two or three short paragraphs in one item list; after a forced break the next paragraph may
// start with glue (a line that begins with a space), which the break discards.
func genC17Multi(r *core.Rng) any {
	var items []c17Item
	integer := r.Bool()
	w := r.Range(3, 8)
	if integer {
		w = math.Round(w)
	}
	sp := c17Item{K: 1, W: w, Y: w / 2, Z: w / 4}
	if integer {
		sp = c17Item{K: 1, W: w, Y: math.Max(1, math.Round(w/2)), Z: math.Max(1, math.Round(w/4))}
	}
	items = append(items, c17Item{K: 0, W: 0})
	np := r.IntRange(2, 3)
	for p := 0; p < np; p++ {
		if p > 0 && r.Chance(0.6) {
			g := sp
			if r.Chance(0.3) {
				g.W *= 2
			}
			items = append(items, g)
		}
		for wd, nw := 0, r.IntRange(2, 5); wd < nw; wd++ {
			bw := r.Range(8, 45)
			if integer {
				bw = math.Round(bw)
			}
			items = append(items, c17Item{K: 0, W: bw})
			if wd < nw-1 {
				items = append(items, sp)
			}
		}
		items = append(items, c17Item{K: 1, W: 0, Y: kpInf, Z: 0}, c17Item{K: 2, W: 0, P: -kpInf, F: false})
	}
	width := r.Range(60, 140)
	if integer {
		width = float64(r.IntRange(12, 28) * 5)
	}
	return &c17Case{Items: items, Width: width, Kind: "multi"}
}

func genC17Paragraph(r *core.Rng) any { return genC17Para(r, false) }
func genC17Long(r *core.Rng) any      { return genC17Para(r, true) }

func genC17Para(r *core.Rng, long bool) any {
	for {
		var items []c17Item
		integer := r.Bool()
		w := r.Range(3, 8)
		y, z := w*r.Range(0.5, 1.2), w*r.Range(0.2, 0.5)
		if long {
			y = w * r.Range(0.7, 1.6)
		}
		if integer {
			w, y, z = math.Round(w), math.Max(1, math.Round(y)), math.Max(1, math.Round(z))
		}
		words := r.IntRange(7, 15)
		if long {
			words = r.IntRange(16, 45)
		}
		items = append(items, c17Item{K: 0, W: 0})
		total := 0.0
		for wd := 0; wd < words; wd++ {
			bw := r.Range(5, 40)
			if integer {
				bw = math.Round(bw)
			}
			if r.Chance(0.1) { // hyphenation point
				items = append(items, c17Item{K: 0, W: bw / 2}, c17Item{K: 2, W: 2, P: 50, F: true}, c17Item{K: 0, W: bw / 2})
			} else {
				items = append(items, c17Item{K: 0, W: bw})
			}
			total += bw
			if wd < words-1 {
				items = append(items, c17Item{K: 1, W: w, Y: y, Z: z})
				total += w
			}
		}
		items = append(items, c17Item{K: 1, W: 0, Y: kpInf, Z: 0}, c17Item{K: 2, W: 0, P: -kpInf, F: false})
		c := &c17Case{Items: items, Kind: "paragraph"}
		c.Width = total / r.Range(2.6, 6)
		if long {
			c.Kind = "long"
			c.Width = total / r.Range(3, 8)
		}
		if integer {
			c.Width = math.Round(c.Width)
		}
		if long {
			return c
		}
		legal := 0
		ref := c.ref()
		for b := range ref {
			if refkp.Legal(ref, b, kpParams()) {
				legal++
			}
		}
		if legal <= 17 {
			return c
		}
	}
}

func c17Corpus() []any {
	mk := func(width float64, its ...c17Item) any { return &c17Case{Items: its, Width: width, Kind: "corpus"} }
	B := func(w float64) c17Item { return c17Item{K: 0, W: w} }
	G := func(w, y, z float64) c17Item { return c17Item{K: 1, W: w, Y: y, Z: z} }
	P := func(w, p float64, f bool) c17Item { return c17Item{K: 2, W: w, P: p, F: f} }
	fin := []c17Item{G(0, kpInf, 0), P(0, -kpInf, false)}
	cat := func(a []c17Item, b ...c17Item) []c17Item { return append(append([]c17Item{}, a...), b...) }
	return []any{
		mk(20, cat([]c17Item{B(0), B(10), G(3, 1.5, 1), B(10), G(3, 1.5, 1), B(10)}, fin...)...),
		mk(5, cat([]c17Item{B(0), B(10), G(3, 1.5, 1), B(10)}, fin...)...),                   // overflow: words wider than the line
		mk(25, cat([]c17Item{B(0), B(10), G(3, 0, 0), B(10), G(3, 0, 0), B(10)}, fin...)...), // rigid glue
		mk(30, cat([]c17Item{B(0), B(8), P(2, 50, true), B(8), G(3, 1.5, 1), B(8), P(2, 50, true), B(8), G(3, 1.5, 1), B(9)}, fin...)...),
	}
}

func c17Check(ci any, o *core.Obs) {
	c := ci.(*c17Case)
	if text.Tolerance != 2 || text.Infinity != kpInf || text.DemeritsLine != 10 || text.DemeritsFlagged != 100 || text.DemeritsFitness != 100 {
		o.Fail("globals", "text package tunables changed")
		return
	}
	p := kpParams()
	if len(c.Tune) == 4 {
		p.Tolerance, p.DemeritsLine, p.DemeritsFlagged, p.DemeritsFitness = c.Tune[0], c.Tune[1], c.Tune[2], c.Tune[3]
		text.Tolerance, text.DemeritsLine, text.DemeritsFlagged, text.DemeritsFitness = c.Tune[0], c.Tune[1], c.Tune[2], c.Tune[3]
		defer func() {
			text.Tolerance, text.DemeritsLine, text.DemeritsFlagged, text.DemeritsFitness = 2, 10, 100, 100
		}()
	}
	ref := c.ref()
	items := c.lib()
	itemsCopy := append([]text.Item(nil), items...)
	var brs []*text.Breakpoint
	var ok bool
	if !o.Call("text.Linebreak", func() { brs, ok = text.Linebreak(items, c.Width, 0) }) {
		return
	}
	for i := range items {
		if items[i] != itemsCopy[i] {
			o.Fail("side-effect", "Linebreak modified item %d", i)
			break
		}
	}
	var res refkp.Result
	long := c.Kind == "long" || c.Kind == "tuning"
	if long {
		// too many breakpoints to enumerate: exact dynamic programme, feasible instances only
		f, m := refkp.SearchDP(ref, c.Width, p)
		res = refkp.Result{Feasible: f, MinDemerits: m}
		o.Count("instances_decided_by_dynamic_programme", 1)
	} else {
		res = refkp.Search(ref, c.Width, p)
		o.Count("breakings_enumerated", float64(res.Breakings))
		// the two references must agree wherever both apply
		f, m := refkp.SearchDP(ref, c.Width, p)
		if f != res.Feasible || (f && math.Abs(m-res.MinDemerits) > 1e-9*(1+math.Abs(m))) {
			o.Count("reference_self_check_failed", 1)
			o.Skip(fmt.Sprintf("the enumeration (feasible %v, %.9g) and the dynamic programme (feasible %v, %.9g) disagree; %s", res.Feasible, res.MinDemerits, f, m, c17Str(c)))
			return
		}
		o.Count("dynamic_programme_agrees_with_enumeration", 1)
	}
	o.NonTrivial()
	// (1) structure of the returned breaking
	var pos []int
	prev := -1
	structural := true
	for k, b := range brs {
		if b == nil {
			o.Fail("nil-breakpoint", "breakpoint %d is nil", k)
			return
		}
		pos = append(pos, b.Position)
		if b.Position <= prev || b.Position >= len(ref) {
			o.Fail("order", "breakpoints %v are not strictly increasing within the item list", posList(brs))
			return
		}
		if !refkp.Legal(ref, b.Position, p) {
			o.Fail("illegal-break", "break at item %d (%s) is not a legal breakpoint; breaks %v; %s", b.Position, itemStr(c.Items[b.Position]), pos, c17Str(c))
			structural = false
		}
		prev = b.Position
	}
	o.Decided(1)
	if len(pos) == 0 || pos[len(pos)-1] != len(ref)-1 {
		o.Fail("incomplete", "breaking %v does not end at the final forced break %d; %s", pos, len(ref)-1, c17Str(c))
		return
	}
	in := map[int]bool{}
	for _, b := range pos {
		in[b] = true
	}
	for b := range ref {
		if refkp.Forced(ref, b, p) && !in[b] {
			o.Fail("forced-skipped", "forced break at item %d is not in the breaking %v; %s", b, pos, c17Str(c))
			structural = false
		}
	}
	if !structural {
		return
	}
	// (2) reported widths and ratios are those of the returned lines
	minR, maxR := math.Inf(1), math.Inf(-1)
	a := -1
	for k, b := range brs {
		l := refkp.LineOf(ref, a, b.Position, c.Width, p)
		minR, maxR = math.Min(minR, l.Ratio), math.Max(maxR, l.Ratio)
		o.Decided(1)
		if math.Abs(b.Width-l.Width) > 1e-9*(1+math.Abs(l.Width)) {
			tag := "reported-width"
			if !ok {
				tag = "reported-width-overflow"
			}
			o.Fail(tag, "line %d (items %d..%d): reported Width %.9g, the line measures %.9g; breaks %v ok=%v; %s", k, a+1, b.Position, b.Width, l.Width, pos, ok, c17Str(c))
			break
		}
		want := l.Ratio
		if want < -1 || want > p.Tolerance {
			want = 0 // documented: ratios outside [-1,Tolerance] are reported as 0
		}
		if math.Abs(b.Ratio-want) > 1e-9*(1+math.Abs(want)) {
			o.Fail("reported-ratio", "line %d: reported Ratio %.9g, the line has %.9g; breaks %v; %s", k, b.Ratio, want, pos, c17Str(c))
			break
		}
		a = b.Position
	}
	// (3)-(5)
	dem := refkp.Demerits(ref, pos, c.Width, p)
	// A verdict on feasibility, optimality or relaxation is only given when it does not hinge on a line
	// whose ratio is exactly -1 (or exactly the tolerance): the library's ratios are differences of
	// running sums and may land an ulp on either side. The reference is asked again for measures a
	// billionth narrower and wider; if the two answers differ, the case is decided by rounding.
	dyadic := func(x float64) bool { return x == math.Trunc(x*64)/64 && math.Abs(x) < 1e9 }
	exact := dyadic(c.Width)
	for _, it := range c.Items {
		if !(dyadic(it.W) && (dyadic(it.Y) || it.Y == kpInf) && dyadic(it.Z)) {
			exact = false
		}
	}
	borderline := func() bool {
		if exact {
			return false // all sums are exact in floating point: a ratio of exactly -1 is exactly -1
		}
		var a, b refkp.Result
		if long {
			fa, ma := refkp.SearchDP(ref, c.Width*(1-1e-9), p)
			fb, mb := refkp.SearchDP(ref, c.Width*(1+1e-9), p)
			a, b = refkp.Result{Feasible: fa, MinDemerits: ma}, refkp.Result{Feasible: fb, MinDemerits: mb}
		} else {
			a, b = refkp.Search(ref, c.Width*(1-1e-9), p), refkp.Search(ref, c.Width*(1+1e-9), p)
		}
		differ := func(x, y float64) bool {
			if math.IsInf(x, 0) || math.IsInf(y, 0) {
				return x != y
			}
			return math.Abs(x-y) > 1e-4*(1+math.Abs(x))
		}
		if a.Feasible != b.Feasible || a.Shrinkable != b.Shrinkable || (a.Feasible && differ(a.MinDemerits, b.MinDemerits)) || (!long && !a.Feasible && a.Shrinkable && differ(a.MinMaxRatio, b.MinMaxRatio)) {
			o.Count("verdicts_left_to_rounding", 1)
			return true
		}
		return false
	}
	o.Decided(1)
	if long && !res.Feasible {
		o.Count("long_instances_without_feasible_breaking_not_decided", 1)
		return
	}
	switch {
	case res.Feasible:
		o.Count("feasible_instances", 1)
		if !ok {
			if !borderline() {
				o.Fail("false-overflow", "Linebreak reports overflow although a breaking within [-1,Tolerance] exists; %s", c17Str(c))
			}
		}
		if minR < -1-1e-9 || maxR > p.Tolerance+1e-9 {
			if !borderline() {
				o.Fail("infeasible-result", "a breaking with all ratios in [-1,%g] exists, but the returned %v has ratios in [%.6g,%.6g]; %s", p.Tolerance, pos, minR, maxR, c17Str(c))
			}
		} else if dem > res.MinDemerits+1e-9*math.Abs(res.MinDemerits)+1e-6 {
			how := fmt.Sprintf("the minimum over all %d breakings", res.Breakings)
			if long {
				how = "the minimum found by the dynamic programme"
			}
			if !borderline() {
				o.Fail("suboptimal", "returned breaking %v has demerits %.9g, %s is %.9g; %s", pos, dem, how, res.MinDemerits, c17Str(c))
			}
		}
	case res.Shrinkable:
		o.Count("relaxed_instances", 1)
		if !ok {
			if !borderline() {
				o.Fail("false-overflow", "Linebreak reports overflow although a breaking with all ratios >= -1 exists; %s", c17Str(c))
			}
		}
		if minR < -1-1e-9 {
			if !borderline() {
				o.Fail("relaxed-overfull", "returned breaking %v has a line with ratio %.6g < -1 although a breaking without overfull lines exists; %s", pos, minR, c17Str(c))
			}
		} else if maxR > res.MinMaxRatio*(1+1e-9)+1e-9 {
			if !borderline() {
				o.Fail("over-relaxed", "returned breaking %v stretches to ratio %.9g, ratio %.9g suffices; %s", pos, maxR, res.MinMaxRatio, c17Str(c))
			}
		}
	default:
		o.Count("overflow_instances", 1)
		if ok {
			if !borderline() {
				o.Fail("missed-overflow", "no breaking can shrink every line to fit, but Linebreak reports ok; %s", c17Str(c))
			}
		}
	}
}

func posList(brs []*text.Breakpoint) []int {
	var p []int
	for _, b := range brs {
		if b != nil {
			p = append(p, b.Position)
		}
	}
	return p
}

func itemStr(it c17Item) string {
	switch it.K {
	case 0:
		return fmt.Sprintf("B%.4g", it.W)
	case 1:
		return fmt.Sprintf("G(%.4g,%.4g,%.4g)", it.W, it.Y, it.Z)
	}
	f := ""
	if it.F {
		f = "f"
	}
	return fmt.Sprintf("P(%.4g,%.4g%s)", it.W, it.P, f)
}

func c17Str(c *c17Case) string {
	s := fmt.Sprintf("width %.6g items", c.Width)
	for _, it := range c.Items {
		s += " " + itemStr(it)
	}
	return s
}

func c17Describe(ci any) any {
	c := ci.(*c17Case)
	return map[string]any{"kind": c.Kind, "instance": c17Str(c)}
}

func init() {
	core.Register(&core.Property{
		ID:                "C17",
		Title:             "Line breaking returns a feasible, optimal Knuth-Plass solution",
		StatesTermination: true,
		Rule: "item sequences of 2-9 words (boxes incl. wider than the line, glue with zero/finite/infinite stretch and full shrink, consecutive glue, hyphen penalties 0/50/500/-50 flagged and unflagged, unbreakable spaces, forced breaks in the middle, the ragged-right glue-penalty-glue triples of GlyphsToItems) ending in the finishing glue and forced break, with at most 16 legal breakpoints, x widths from below the widest box to the whole paragraph; integer-valued variants; " +
			"plain paragraphs of 7-15 words with one fine-grained glue setting and 3-6 lines; long paragraphs of 16-45 words and 4-12 lines, decided by an exact dynamic programme over (break, fitness class) for feasibility and minimal demerits only (the dynamic programme is cross-checked against the enumeration on every enumerated case); " +
			"every legal breaking is enumerated (up to 131072) and evaluated from the paper's definitions: legality, forced breaks, completeness, reported Width/Ratio, feasibility, minimal demerits, minimal relaxation, overflow; every case non-trivial; distinct = distinct case hash",
		Strata: []core.Stratum{
			{Name: "justified", Quick: 3000, Thorough: 100000, Gen: genC17("justified")},
			{Name: "ragged", Quick: 1500, Thorough: 50000, Gen: genC17("ragged")},
			{Name: "mixed", Quick: 1500, Thorough: 50000, Gen: genC17("mixed"), WitnessOnly: true, Note: "justified and ragged-right (negative stretch) spaces mixed in one paragraph, which the library itself never emits: 3e-4 infeasible / over-relaxed / sub-optimal results"},
			{Name: "grid", Quick: 1500, Thorough: 50000, Gen: genC17("grid")},
			{Name: "paragraph", Quick: 8000, Thorough: 200000, Gen: genC17Paragraph},
			{Name: "multi", Quick: 4000, Thorough: 100000, Gen: genC17Multi, Note: "two or three paragraphs in one item list; a paragraph after a forced break may start with glue"},
			{Name: "glueless", Quick: 3000, Thorough: 100000, Gen: genC17Glueless, Note: "boxes separated mostly by penalties on a narrow measure: lines without stretchable glue, relaxation of the stretch limit"},
			{Name: "tuning", Quick: 4000, Thorough: 100000, Gen: genC17Tuning, Note: "paragraphs with many flagged penalties under other values of Tolerance, DemeritsLine, DemeritsFlagged, DemeritsFitness"},
			{Name: "long", Quick: 60000, Thorough: 600000, Gen: genC17Long},
		},
		NewCase:  func() any { return &c17Case{} },
		Corpus:   c17Corpus,
		Check:    c17Check,
		Describe: c17Describe,
		Assumptions: []string{
			"harness/refkp evaluates breakings from Knuth & Plass 1981 with the library's documented conventions (Infinity = 1000, unstretchable-line ratio, ratio cap, discarded glue after a break)",
			"looseness 0 only; the package tunables have their documented defaults (asserted)",
		},
	})
}
