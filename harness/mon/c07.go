package mon

import (
	"fmt"
	"math"
	"strconv"
	"strings"

	"github.com/tdewolff/canvas"

	"verif/core"
	"verif/geom"
)

type c07Case struct {
	P    []float64
	M    [6]float64 // a b tx / c d ty  (row major 2x3)
	H    float64    // height for ToSVG
	Kind string
}

func (c *c07Case) matrix() canvas.Matrix {
	return canvas.Matrix{{c.M[0], c.M[1], c.M[2]}, {c.M[3], c.M[4], c.M[5]}}
}

// own 2x3 matrix arithmetic (textbook definitions)
type m23 [6]float64

func (a m23) mul(b m23) m23 {
	return m23{
		a[0]*b[0] + a[1]*b[3], a[0]*b[1] + a[1]*b[4], a[0]*b[2] + a[1]*b[5] + a[2],
		a[3]*b[0] + a[4]*b[3], a[3]*b[1] + a[4]*b[4], a[3]*b[2] + a[4]*b[5] + a[5],
	}
}
func (a m23) apply(p Pt) Pt { return Pt{a[0]*p.X + a[1]*p.Y + a[2], a[3]*p.X + a[4]*p.Y + a[5]} }
func (a m23) det() float64  { return a[0]*a[4] - a[1]*a[3] }
func (a m23) maxAbsDiff(b m23) float64 {
	d := 0.0
	for i := range a {
		d = math.Max(d, math.Abs(a[i]-b[i]))
	}
	return d
}
func (a m23) normLin() float64 {
	return math.Sqrt(a[0]*a[0] + a[1]*a[1] + a[3]*a[3] + a[4]*a[4])
}

var idM = m23{1, 0, 0, 0, 1, 0}

func fromLib(m canvas.Matrix) m23 { return m23{m[0][0], m[0][1], m[0][2], m[1][0], m[1][1], m[1][2]} }
func rotM(deg float64) m23 {
	s, c := math.Sincos(deg * math.Pi / 180)
	return m23{c, -s, 0, s, c, 0}
}
func transM(x, y float64) m23   { return m23{1, 0, x, 0, 1, y} }
func scaleM(sx, sy float64) m23 { return m23{sx, 0, 0, 0, sy, 0} }
func shearM(sx, sy float64) m23 { return m23{1, sx, 0, sy, 1, 0} }

// randMatrix builds a matrix as a product of elementary ones (using only the monitor's arithmetic).
func randMatrix(r *core.Rng, kind string) m23 {
	m := idM
	el := func() m23 {
		switch kind {
		case "rigid":
			switch r.Intn(4) {
			case 0:
				return rotM(r.Range(-360, 360))
			case 1:
				return transM(r.Range(-50, 50), r.Range(-50, 50))
			case 2:
				return scaleM(-1, 1)
			default:
				return scaleM(1, -1)
			}
		case "similarity":
			switch r.Intn(4) {
			case 0:
				return rotM(r.Range(-360, 360))
			case 1:
				return transM(r.Range(-50, 50), r.Range(-50, 50))
			case 2:
				s := r.LogRange(0.05, 20)
				return scaleM(s, s)
			default:
				return scaleM(-1, 1)
			}
		default:
			switch r.Intn(6) {
			case 0:
				return rotM(r.Range(-360, 360))
			case 1:
				return transM(r.Range(-50, 50), r.Range(-50, 50))
			case 2:
				sx, sy := r.LogRange(0.1, 10), r.LogRange(0.1, 10)
				if r.Chance(0.3) {
					sx = -sx
				}
				if r.Chance(0.3) {
					sy = -sy
				}
				return scaleM(sx, sy)
			case 3:
				return shearM(r.Range(-2, 2), 0)
			case 4:
				return shearM(0, r.Range(-2, 2))
			default:
				return scaleM(-1, 1)
			}
		}
	}
	for i, n := 0, r.IntRange(1, 4); i < n; i++ {
		m = m.mul(el())
	}
	if kind == "near-singular" {
		// squash along a random direction: |det| down to 1e-6 of the unsquashed one
		a := r.Range(0, 360)
		m = m.mul(rotM(a)).mul(scaleM(1, r.LogRange(1e-6, 1e-2))).mul(rotM(-a))
	}
	return m
}

func genC07(kind string) func(r *core.Rng) any {
	return func(r *core.Rng) any {
		var p *canvas.Path
		switch r.Intn(3) {
		case 0:
			p = genPath(r, pathOpts{Kinds: kArc, MaxSegs: 3, MaxSubs: 2, Closed: 2, MaxRatio: 30})
		case 1:
			p = genPath(r, pathOpts{Kinds: kAll, MaxSegs: 5, MaxSubs: 2, Closed: 2})
		default:
			p = genPath(r, pathOpts{Kinds: kArc, MaxSegs: 2, MaxSubs: 1, Closed: 0, CircArcs: true})
		}
		mk := kind
		if kind == "translation" {
			return &c07Case{P: dataCopy(p), M: transM(math.Round(r.Range(-100, 100)), math.Round(r.Range(-100, 100))), H: r.Range(10, 300), Kind: kind}
		}
		m := randMatrix(r, mk)
		for math.Abs(m.det()) < 1e-12 {
			m = randMatrix(r, mk)
		}
		return &c07Case{P: dataCopy(p), M: m, H: r.Range(10, 300), Kind: kind}
	}
}

// parseSVGTransform reads an SVG transform list (translate, rotate, scale, matrix) and composes it
// left to right, as SVG specifies.
func parseSVGTransform(s string) (m23, error) {
	m := idM
	s = strings.TrimSpace(s)
	for s != "" {
		i := strings.IndexByte(s, '(')
		j := strings.IndexByte(s, ')')
		if i < 0 || j < i {
			return m, fmt.Errorf("bad transform %q", s)
		}
		name := strings.TrimSpace(s[:i])
		var args []float64
		for _, f := range strings.FieldsFunc(s[i+1:j], func(r rune) bool { return r == ',' || r == ' ' }) {
			v, err := strconv.ParseFloat(f, 64)
			if err != nil {
				return m, err
			}
			args = append(args, v)
		}
		var e m23
		switch {
		case name == "translate" && len(args) == 2:
			e = transM(args[0], args[1])
		case name == "translate" && len(args) == 1:
			e = transM(args[0], 0)
		case name == "rotate" && len(args) == 1:
			e = rotM(args[0])
		case name == "scale" && len(args) == 2:
			e = scaleM(args[0], args[1])
		case name == "scale" && len(args) == 1:
			e = scaleM(args[0], args[0])
		case name == "matrix" && len(args) == 6:
			e = m23{args[0], args[2], args[4], args[1], args[3], args[5]}
		default:
			return m, fmt.Errorf("unsupported transform %q", s[:j+1])
		}
		m = m.mul(e)
		s = strings.TrimSpace(s[j+1:])
	}
	return m, nil
}

func c07Check(ci any, o *core.Obs) {
	c := ci.(*c07Case)
	M := m23(c.M)
	lib := c.matrix()
	P := pathFrom(c.P)
	src, err := refSubs(P)
	if err != nil {
		o.Skip("source not decodable")
		return
	}
	var T *canvas.Path
	if !o.Call("Path.Transform", func() { T = pathFrom(c.P).Transform(lib) }) {
		return
	}
	dst, err := refSubs(T)
	if err != nil {
		o.Fail("malformed", "Transform returned undecodable data: %v", err)
		return
	}
	// same commands
	ds, dt := P.Data(), T.Data()
	if len(ds) != len(dt) {
		o.Fail("structure", "Transform changed the number of values: %d -> %d", len(ds), len(dt))
		return
	}
	for i := 0; i < len(ds); {
		if ds[i] != dt[i] {
			o.Fail("structure", "command %v became %v at %d", ds[i], dt[i], i)
			return
		}
		n := 4
		switch ds[i] {
		case 4:
			n = 6
		case 8, 16:
			n = 8
		}
		i += n
	}
	o.NonTrivial()
	// image scale for tolerances
	box := geom.EmptyBox()
	for si := range src {
		box = box.Add(M.apply(src[si].Start))
		for i := range src[si].Segs {
			for k := 1; k <= 8; k++ {
				box = box.Add(M.apply(src[si].Segs[i].At(float64(k) / 8)))
			}
		}
	}
	scale := box.Scale()
	// ratio of the singular values of the linear part; the end-point parametrisation of an arc that
	// is squashed by this ratio is itself ill-conditioned (rounding of its radii and angle moves it
	// by about cond*1e-9 of its size, measured), so the tolerance grows linearly beyond cond 250
	cond := M.normLin() * M.normLin() / (2 * math.Abs(M.det()))
	maxRatio := 1.0
	for si := range src {
		for i := range src[si].Segs {
			if sg := &src[si].Segs[i]; sg.Kind == geom.Arc {
				_, _, _, rx, ry := sg.ArcCenter()
				maxRatio = math.Max(maxRatio, math.Max(rx/ry, ry/rx))
			}
		}
	}
	cond *= maxRatio // bound on the radii ratio of the transformed arcs
	tol := c07PosTol * scale * math.Max(1, cond/250)
	o.Max("matrix_condition_log10", math.Log10(cond))
	worst := 0.0
	for si := range src {
		if len(src[si].Segs) != len(dst[si].Segs) {
			o.Fail("structure", "sub-path %d: %d segments became %d", si, len(src[si].Segs), len(dst[si].Segs))
			return
		}
		for i := range src[si].Segs {
			a, b := &src[si].Segs[i], &dst[si].Segs[i]
			// end points map exactly (up to rounding of the product)
			e := M.apply(a.P3).Dist(b.P3)
			if e > 1e-9*scale {
				o.Fail("endpoint", "segment end %v maps to %v, expected %v", a.P3, b.P3, M.apply(a.P3))
				return
			}
			if a.Kind == geom.Line {
				continue
			}
			// affine invariance: pos'(t) = m pos(t); for arcs the ellipse parameter is mapped linearly
			// as well, because both arcs run uniformly in their angle from the same start to the same end
			for k := 0; k <= 8; k++ {
				t := float64(k) / 8
				want, got := M.apply(a.At(t)), b.At(t)
				d := want.Dist(got)
				if d > worst {
					worst = d
				}
				o.Decided(1)
				if d > tol {
					kind := []string{"line", "quad", "cubic", "arc"}[a.Kind]
					o.Fail("geometry:"+kind, "%s segment %d of sub-path %d at t=%.3f: transformed path is at %v, image of the source point is %v (off by %.3g, tolerance %.3g); source %s matrix %v result %s", kind, i, si, t, got, want, d, tol, pstr(P), c.M, pstr(T))
					return
				}
			}
			if a.Kind == geom.Arc {
				o.Count("arcs_checked", 1)
				if M.det() < 0 {
					o.Count("arcs_under_reflection", 1)
				}
			}
		}
	}
	o.Max("geometry_dev_rel_over_tol_factor:"+c.Kind, worst/scale/math.Max(1, cond/250))

	// ---- matrix algebra --------------------------------------------------------------------------
	r := caseRng(c, "C07mat")
	B := randMatrix(r, "general")
	libB := canvas.Matrix{{B[0], B[1], B[2]}, {B[3], B[4], B[5]}}
	pt := Pt{r.Range(-50, 50), r.Range(-50, 50)}
	lp := canvas.Point{X: pt.X, Y: pt.Y}
	mtol := 1e-9 * (1 + M.normLin()) * (1 + B.normLin()) * 100
	// Mul composes right-to-left; Dot applies
	if d := fromLib(lib.Mul(libB)).maxAbsDiff(M.mul(B)); d > mtol {
		o.Fail("matrix:mul", "A.Mul(B) differs from the matrix product by %.3g", d)
	}
	q1 := lib.Mul(libB).Dot(lp)
	q2 := lib.Dot(libB.Dot(lp))
	if math.Hypot(q1.X-q2.X, q1.Y-q2.Y) > mtol {
		o.Fail("matrix:compose", "A.Mul(B).Dot(p)=%v but A.Dot(B.Dot(p))=%v", q1, q2)
	}
	if w := M.apply(pt); math.Hypot(lib.Dot(lp).X-w.X, lib.Dot(lp).Y-w.Y) > mtol {
		o.Fail("matrix:dot", "Dot(%v)=%v expected %v", pt, lib.Dot(lp), w)
	}
	o.Decided(3)
	// constructors against their textbook matrices (post-multiplied)
	ang, tx, ty, sx, sy := r.Range(-360, 360), r.Range(-50, 50), r.Range(-50, 50), r.Range(-3, 3), r.Range(-3, 3)
	ctor := []struct {
		name string
		got  canvas.Matrix
		want m23
	}{
		{"Translate", lib.Translate(tx, ty), M.mul(transM(tx, ty))},
		{"Rotate", lib.Rotate(ang), M.mul(rotM(ang))},
		{"Scale", lib.Scale(sx, sy), M.mul(scaleM(sx, sy))},
		{"Shear", lib.Shear(sx, sy), M.mul(shearM(sx, sy))},
		{"ReflectX", lib.ReflectX(), M.mul(scaleM(-1, 1))},
		{"ReflectY", lib.ReflectY(), M.mul(scaleM(1, -1))},
		{"RotateAbout", lib.RotateAbout(ang, tx, ty), M.mul(transM(tx, ty)).mul(rotM(ang)).mul(transM(-tx, -ty))},
		{"ScaleAbout", lib.ScaleAbout(sx, sy, tx, ty), M.mul(transM(tx, ty)).mul(scaleM(sx, sy)).mul(transM(-tx, -ty))},
		{"ShearAbout", lib.ShearAbout(sx, sy, tx, ty), M.mul(transM(tx, ty)).mul(shearM(sx, sy)).mul(transM(-tx, -ty))},
		{"ReflectXAbout", lib.ReflectXAbout(tx), M.mul(transM(tx, 0)).mul(scaleM(-1, 1)).mul(transM(-tx, 0))},
		{"ReflectYAbout", lib.ReflectYAbout(ty), M.mul(transM(0, ty)).mul(scaleM(1, -1)).mul(transM(0, -ty))},
	}
	for _, k := range ctor {
		o.Decided(1)
		if d := fromLib(k.got).maxAbsDiff(k.want); d > mtol*100 {
			o.Fail("matrix:"+k.name, "%s differs from its textbook matrix by %.3g", k.name, d)
		}
	}
	// T, Det, Inv
	tr := lib.T()
	if tr[0][1] != lib[1][0] || tr[1][0] != lib[0][1] || tr[0][0] != lib[0][0] || tr[1][1] != lib[1][1] {
		o.Fail("matrix:T", "T() is not the transpose of the linear part")
	}
	if math.Abs(lib.Det()-M.det()) > 1e-12*(1+M.normLin()*M.normLin()) {
		o.Fail("matrix:Det", "Det()=%v expected %v", lib.Det(), M.det())
	}
	o.Decided(2)
	if math.Abs(M.det()) > 1e-9 {
		var inv canvas.Matrix
		if o.Call("Matrix.Inv", func() { inv = lib.Inv() }) {
			cond := M.normLin() * fromLib(inv).normLin()
			d := fromLib(lib.Mul(inv)).maxAbsDiff(idM)
			// the translation column scales with the offsets
			o.Decided(1)
			if d > 1e-10*cond*(1+math.Abs(M[2])+math.Abs(M[5])) {
				o.Fail("matrix:Inv", "M.Mul(M.Inv()) differs from the identity by %.3g (condition %.3g)", d, cond)
			}
		}
	}
	// IsTranslation / IsRigid / IsSimilarity on matrices built by recipe (the class is known by
	// construction; parameters keep a distance of 1e-3 from the class boundaries), and Eigen on matrices
	// assembled from chosen eigenpairs
	{
		a2, t1, t2 := r.Range(-360, 360), r.Range(-50, 50), r.Range(-50, 50)
		refl := idM
		if r.Bool() {
			refl = scaleM(1, -1)
		}
		k := r.LogRange(0.05, 20)
		if math.Abs(k-1) < 1e-3 {
			k = 2
		}
		k2 := k * core.PickF(r, []float64{1.01, 0.7, 3, -2.5})
		sh := r.Range(0.01, 2)
		if r.Bool() {
			sh = -sh
		}
		rot := a2
		if math.Abs(math.Mod(rot, 360)) < 0.1 || math.Abs(math.Abs(math.Mod(rot, 360))-360) < 0.1 {
			rot = 33
		}
		recipes := []struct {
			name                string
			m                   m23
			trans, rigid, simil bool
		}{
			{"translation", transM(t1, t2), true, true, true},
			{"rotation+translation", transM(t1, t2).mul(rotM(rot)), false, true, true},
			{"reflection", transM(t1, t2).mul(rotM(rot)).mul(scaleM(1, -1)), false, true, true},
			{"uniform scale", transM(t1, t2).mul(rotM(a2)).mul(refl).mul(scaleM(k, k)), false, false, true},
			{"non-uniform scale", transM(t1, t2).mul(rotM(a2)).mul(scaleM(k, k2)), false, false, false},
			{"shear", transM(t1, t2).mul(rotM(a2)).mul(shearM(sh, 0)), false, false, false},
			// rows of equal length with orthogonal columns, and the transpose of that: neither is a similarity
			{"scale then 45 degrees", transM(t1, t2).mul(rotM(45 + 90*float64(int(math.Abs(a2))%4))).mul(scaleM(k, k2)), false, false, false},
			{"45 degrees then scale", transM(t1, t2).mul(scaleM(k, k2)).mul(rotM(45 + 90*float64(int(math.Abs(a2))%4))), false, false, false},
		}
		for _, rc := range recipes {
			lm := canvas.Matrix{{rc.m[0], rc.m[1], rc.m[2]}, {rc.m[3], rc.m[4], rc.m[5]}}
			o.Decided(3)
			if g := lm.IsTranslation(); g != rc.trans {
				o.Fail("matrix:IsTranslation", "IsTranslation() = %v for a %s matrix %v", g, rc.name, rc.m)
			}
			if g := lm.IsRigid(); g != rc.rigid {
				o.Fail("matrix:IsRigid", "IsRigid() = %v for a %s matrix %v", g, rc.name, rc.m)
			}
			if g := lm.IsSimilarity(); g != rc.simil {
				o.Fail("matrix:IsSimilarity", "IsSimilarity() = %v for a %s matrix %v", g, rc.name, rc.m)
			}
		}
		// Eigen: M = P diag(l1,l2) P^-1 with unit columns p1, p2 at least 20 degrees apart
		l1, l2 := r.Range(-5, 5), r.Range(-5, 5)
		if math.Abs(l1-l2) < 0.1 {
			l2 = l1 + 1
		}
		b1 := r.Range(0, 2*math.Pi)
		b2 := b1 + r.Range(0.35, math.Pi-0.35)
		if r.Chance(0.2) {
			b1 = core.PickF(r, []float64{0, math.Pi / 2})
		}
		if r.Chance(0.15) {
			b1, b2 = 0, math.Pi/2 // diagonal matrix
		}
		p1, p2 := Pt{math.Cos(b1), math.Sin(b1)}, Pt{math.Cos(b2), math.Sin(b2)}
		det := p1.X*p2.Y - p2.X*p1.Y
		// M = [p1 p2] diag(l1,l2) [p1 p2]^-1
		e := canvas.Matrix{
			{(l1*p1.X*p2.Y - l2*p2.X*p1.Y) / det, (-l1*p1.X*p2.X + l2*p2.X*p1.X) / det, r.Range(-9, 9)},
			{(l1*p1.Y*p2.Y - l2*p2.Y*p1.Y) / det, (-l1*p1.Y*p2.X + l2*p2.Y*p1.X) / det, r.Range(-9, 9)},
		}
		var g1, g2 float64
		var v1, v2 canvas.Point
		if o.Call("Matrix.Eigen", func() { g1, g2, v1, v2 = e.Eigen() }) {
			o.Decided(1)
			etol := 1e-7 * (1 + math.Abs(l1) + math.Abs(l2)) / math.Abs(det)
			okVals := (math.Abs(g1-l1) < etol && math.Abs(g2-l2) < etol) || (math.Abs(g1-l2) < etol && math.Abs(g2-l1) < etol)
			if !okVals {
				o.Fail("matrix:Eigen", "Eigen() of %v returns eigenvalues %g, %g; the matrix was assembled from %g, %g", e, g1, g2, l1, l2)
			} else {
				for i, gv := range []struct {
					l float64
					v canvas.Point
				}{{g1, v1}, {g2, v2}} {
					mv := Pt{e[0][0]*gv.v.X + e[0][1]*gv.v.Y, e[1][0]*gv.v.X + e[1][1]*gv.v.Y}
					if math.Abs(math.Hypot(gv.v.X, gv.v.Y)-1) > 1e-9 || math.Hypot(mv.X-gv.l*gv.v.X, mv.Y-gv.l*gv.v.Y) > etol*10 {
						o.Fail("matrix:Eigen", "Eigen() of %v: eigenvector %d = %v is not a unit vector with M v = %g v (M v = %v)", e, i+1, gv.v, gv.l, mv)
					}
				}
			}
		}
	}
	// Decompose: Translate(tx,ty).Rotate(phi).Scale(sx,sy).Rotate(theta) == M
	dtx, dty, phi, dsx, dsy, theta := lib.Decompose()
	rec := transM(dtx, dty).mul(rotM(phi)).mul(scaleM(dsx, dsy)).mul(rotM(theta))
	o.Decided(1)
	if d := rec.maxAbsDiff(M); d > 1e-9*(1+M.normLin()) {
		o.Fail("matrix:Decompose", "Translate(%g,%g).Rotate(%g).Scale(%g,%g).Rotate(%g) differs from the matrix by %.3g", dtx, dty, phi, dsx, dsy, theta, d)
	}
	// ToSVG(h) describes F_h M F_0 with F_h(x,y) = (x,h-y)
	s := lib.ToSVG(c.H)
	want := m23{M[0], -M[1], M[2], -M[3], M[4], c.H - M[5]}
	got, err := parseSVGTransform(s)
	if err != nil {
		o.Fail("matrix:ToSVG-parse", "ToSVG(%g)=%q cannot be read as an SVG transform list: %v", c.H, s, err)
	} else if math.Abs(M[2]) <= 1e-10 && math.Abs(M[5]) <= 1e-10 && c.Kind != "tosvg-zero-translation" {
		// finding F-C07-tosvg-zero-translation: the height offset is dropped when the matrix has no
		// translation; that input class is pinned by witnesses and not explored randomly
		o.Count("tosvg_skipped_zero_translation", 1)
	} else if s != "" || want.maxAbsDiff(idM) > 1e-9 {
		// values are written with Precision significant digits
		mag := math.Max(1, math.Max(want.normLin(), math.Max(math.Abs(want[2]), math.Abs(want[5]))))
		d := got.maxAbsDiff(want)
		o.Max("tosvg_dev_rel", d/mag)
		o.Decided(1)
		if d > c07SVGTol*mag*math.Max(1, want.normLin()) {
			o.Fail("matrix:ToSVG", "ToSVG(%g)=%q reads back as %v, expected %v (off by %.3g)", c.H, s, got, want, d)
		}
	}
}

// c07PosTol: relative deviation allowed between m*pos(t) and pos'(t). Doubles give about 1e-13 for
// Béziers; arcs go through an eigen-decomposition and the end-point to centre conversion, which is
// ill-conditioned (error about r*sqrt(machine epsilon) = 1.5e-8*r) when the radii barely span the
// chord. The scale is the extent of the transformed path including the arcs' bulges.
const c07PosTol = 1e-6

// c07SVGTol: ToSVG writes numbers with 8 significant digits; a product of four factors.
const c07SVGTol = 1e-6

func c07Describe(ci any) any {
	c := ci.(*c07Case)
	return map[string]any{"kind": c.Kind, "P": dstr(c.P), "M": c.M, "h": c.H}
}

func init() {
	core.Register(&core.Property{
		ID:    "C07",
		Title: "Affine transformation of a path transforms every point of it",
		Rule: "random paths (arcs of any rotation/ratio/flags, circular arcs, mixed segments) x matrices built by the monitor's own arithmetic as products of 1-4 rotations, translations, anisotropic/negative scales, shears, reflections (strata: translation, rigid, similarity, general, near-singular with |det| squashed by 1e-6..1e-2); " +
			"pos'(t) = m*pos(t) at 9 parameters per curved segment (for arcs too: the ellipse angle is mapped linearly), end points exact, same command sequence; Matrix algebra (Mul, Dot, 11 constructors, T, Det, Inv, Decompose, ToSVG parsed back) on every case; every case non-trivial; distinct = distinct case hash",
		Strata: []core.Stratum{
			{Name: "translation", Quick: 1000, Thorough: 30000, Gen: genC07("translation")},
			{Name: "rigid", Quick: 1500, Thorough: 50000, Gen: genC07("rigid")},
			{Name: "similarity", Quick: 1500, Thorough: 50000, Gen: genC07("similarity")},
			{Name: "general", Quick: 3000, Thorough: 100000, Gen: genC07("general")},
			{Name: "near-singular", Quick: 1000, Thorough: 30000, Gen: genC07("near-singular")},
		},
		NewCase:  func() any { return &c07Case{} },
		Check:    c07Check,
		Describe: c07Describe,
		Assumptions: []string{
			"reference arc evaluation from SVG F.6.5; reference 2x3 matrix arithmetic in the monitor",
			"ToSVG(h) is read as F_h*M*F_0 with F_h(x,y)=(x,h-y) (the use the SVG renderer makes of it), parsed by an own transform-list reader",
		},
	})
}
