package mon

import (
	"bytes"
	"fmt"
	"math"
	"regexp"
	"strconv"
	"strings"

	"github.com/tdewolff/canvas"
	"github.com/tdewolff/canvas/renderers/pdf"
	"github.com/tdewolff/font"

	"verif/core"
	"verif/refpdf"
)

// C18: embedded fonts and glyph paths reproduce the laid-out text.
//
// A text is laid out and written to PDF. The monitor reads the file with harness/refpdf, follows the
// text operators (Tf, Tm/Td, TJ), resolves every character code through the font dictionaries the
// way a PDF reader does (Type0 -> descendant CIDFont -> CIDToGIDMap or identity -> embedded font
// program), and compares glyph by glyph with the layout: outline and advance in the embedded program
// vs the source font, W/DW widths, ToUnicode, pen positions. The glyph subsetter is driven directly,
// and FontFace.ToPath/TextWidth are compared with outlines placed by the monitor.

type c18Case struct {
	Text     string
	Font     int
	Size     float64
	Subset   bool
	Compress bool
	Box      float64 // >0: justified text box of this width
	Codes    []int   // glyph ids fed to the subsetter
	Vert     bool    `json:",omitempty"` // the text is drawn a second time in vertical writing mode with the same font
	Upright  bool    `json:",omitempty"` // ... with upright glyphs (vertical advances) rather than rotated ones
	// Inter: after the text, a second text in another font (or the same font at Inter[1] pt when Inter[0]
	// names the same font) and then the first face again: font selections A, B, A on one page
	Inter []float64 `json:",omitempty"`
	Kind     string
}

var c18Texts = []string{
	"Hello, World!", "The quick brown fox jumps over the lazy dog.", "office affluent ffi fl fj", "AVATAR Wavy Toast To.", "Invoice 2019-34567 paid 1111111",
	"Ünïcödé çà et là", "Příliš žluťoučký kůň", "ΑΒΓ αβγ", "1234567890", "a", "mm ii WW", "x (y) [z] {w} \\ /", "Tj TJ () \\n", "naïve café — “quoted” … ½",
}

var c18AstralCache = map[int][]rune{}

// c18Astral lists the characters beyond U+FFFF that font i has glyphs for (a fixed scan order).
func c18Astral(i int) []rune {
	if rs, ok := c18AstralCache[i]; ok {
		return rs
	}
	c13LoadFonts()
	var rs []rune
	if fam := c13Fonts[i]; fam != nil {
		sf := fam.Face(10, canvas.Black, canvas.FontRegular, canvas.FontNormal).Font.SFNT
		for r := rune(0x10000); r < 0x20000 && len(rs) < 400; r++ {
			if sf.GlyphIndex(r) != 0 {
				rs = append(rs, r)
			}
		}
	}
	c18AstralCache[i] = rs
	return rs
}

func genC18(kind string) func(r *core.Rng) any {
	return func(r *core.Rng) any {
		c := &c18Case{Kind: kind, Font: r.Intn(3), Size: core.PickF(r, []float64{12, 10, 24, r.Range(5, 40)}), Subset: r.Bool(), Compress: r.Bool()}
		// full (not subsetted) embedding of a CFF font: finding F-C18-cff-full-embedding, stratum cff-full
		if kind == "cff-full" {
			c.Font, c.Subset = 1+r.Intn(2), false
		} else if c.Font != 0 {
			c.Subset = true
		}
		n := r.IntRange(1, 3)
		var parts []string
		for k := 0; k < n; k++ {
			parts = append(parts, core.PickS(r, c18Texts))
		}
		c.Text = strings.Join(parts, " ")
		if c.Font != 0 {
			// Greek is missing from the two CFF fonts; mixed-script text with missing glyphs is pinned by
			// finding F-C18-textwidth-script-runs
			c.Text = strings.ReplaceAll(c.Text, "ΑΒΓ αβγ", "abc ABC")
		}
		if kind == "interleaved" {
			c.Font = r.Intn(3)
			if c.Font != 0 {
				c.Subset = true
			}
			other := r.Intn(3)
			if other != 0 {
				c.Subset = true // full embedding of a CFF font is F-C18-cff-full-embedding
			}
			c.Inter = []float64{float64(other), core.PickF(r, []float64{8, 14, 20, c.Size})}
			if other == c.Font && c.Inter[1] == c.Size {
				c.Inter[1] = c.Size + 3
			}
			c.Box = 0
		}
		if kind == "astral" {
			// characters beyond the Basic Multilingual Plane (mathematical alphanumerics in DejaVu Serif,
			// regional indicators in EB Garamond): ToUnicode needs surrogate pairs
			c.Font = r.Intn(2)
			c.Text = ""
			avail := c18Astral(c.Font)
			for k := r.IntRange(1, 6); k > 0; k-- {
				if len(avail) > 0 && r.Chance(0.7) {
					c.Text += string(avail[r.Intn(len(avail))])
				} else {
					c.Text += core.PickS(r, []string{"x", " ", "ab"})
				}
			}
			if c.Font != 0 {
				c.Subset = true
			}
		}
		if kind == "many-glyphs" {
			// more than 255 distinct glyphs of one font in one document: character codes beyond one byte
			c.Font = 0
			c13LoadFonts()
			var pool []rune
			if fam := c13Fonts[0]; fam != nil {
				sf := fam.Face(10, canvas.Black, canvas.FontRegular, canvas.FontNormal).Font.SFNT
				for _, rg := range [][2]rune{{0x21, 0x7e}, {0xa1, 0x24f}, {0x1e00, 0x1eff}} /* one script: mixed-script text is F-C18-textwidth-script-runs */ {
					for q := rg[0]; q <= rg[1]; q++ {
						if q != 0xad && sf.GlyphIndex(q) != 0 {
							pool = append(pool, q)
						}
					}
				}
			}
			for i := len(pool) - 1; i > 0; i-- {
				j := r.Intn(i + 1)
				pool[i], pool[j] = pool[j], pool[i]
			}
			n := r.IntRange(200, 420)
			if n > len(pool) {
				n = len(pool)
			}
			c.Text = string(pool[:n])
			c.Size = core.PickF(r, []float64{4, 6})
			c.Box = 0
			c.Codes = nil
			return c
		}
		if kind == "marks" {
			// combining marks without precomposed forms: the shaper positions them with glyph offsets
			c.Font = 0
			c.Text = ""
			for k := r.IntRange(1, 4); k > 0; k-- {
				c.Text += core.PickS(r, []string{"q\u0301", "x\u0302", "m\u0303", "b\u0308\u0301", "Z\u030c\u0323", "w\u0307", "g\u0304", "k\u0301 ", "ab", " "})
			}
		}
		if r.Chance(0.3) {
			// random letters and digits: runs of equal advances, many distinct glyphs
			var sb strings.Builder
			for k := r.IntRange(5, 60); k > 0; k-- {
				sb.WriteRune(rune(core.PickS(r, []string{"0123456789", "abcdefghijklmnopqrstuvwxyz", "ABCDEFGHIJKLMNOPQRSTUVWXYZ", " .,;:-"})[r.Intn(6)]))
			}
			c.Text += " " + sb.String()
		}
		if kind == "justified" || r.Chance(0.3) {
			c.Box = r.Range(40, 120)
		}
		c.Vert = kind == "vertical" || kind == "upright"
		c.Upright = kind == "upright"
		for k := r.IntRange(3, 40); k > 0; k-- {
			c.Codes = append(c.Codes, core.PickI(r, []int{0, 1, 2, 3, 36, 37, 68, 500, r.Intn(3000)}))
		}
		return c
	}
}

// outline recorder
type c18Pather struct{ d []float64 }

func (p *c18Pather) MoveTo(x, y float64) { p.d = append(p.d, 1, x, y) }
func (p *c18Pather) LineTo(x, y float64) { p.d = append(p.d, 2, x, y) }
func (p *c18Pather) QuadTo(a, b, x, y float64) {
	p.d = append(p.d, 3, a, b, x, y)
}
func (p *c18Pather) CubeTo(a, b, c, d, x, y float64) {
	p.d = append(p.d, 4, a, b, c, d, x, y)
}
func (p *c18Pather) Close() { p.d = append(p.d, 5) }

func c18Outline(s *font.SFNT, gid uint16) ([]float64, error) {
	p := &c18Pather{}
	err := s.GlyphPath(p, gid, 0, 0, 0, 1, font.NoHinting)
	return p.d, err
}

func floatsClose(a, b []float64, tol float64) bool {
	if len(a) != len(b) {
		return false
	}
	for i := range a {
		if math.Abs(a[i]-b[i]) > tol {
			return false
		}
	}
	return true
}

var c18BfChar = regexp.MustCompile(`<([0-9A-Fa-f]{4})>\s*<([0-9A-Fa-f]+)>`)
var c18BfRange = regexp.MustCompile(`<([0-9A-Fa-f]{4})>\s*<([0-9A-Fa-f]{4})>\s*<([0-9A-Fa-f]+)>`)

// c18ToUnicode parses the bfchar/bfrange sections of a ToUnicode CMap.
func c18ToUnicode(b []byte) map[int]string {
	out := map[int]string{}
	s := string(b)
	hexStr := func(h string) string {
		var u []uint16
		for i := 0; i+4 <= len(h); i += 4 {
			v, _ := strconv.ParseUint(h[i:i+4], 16, 16)
			u = append(u, uint16(v))
		}
		// UTF-16BE
		var rs []rune
		for i := 0; i < len(u); i++ {
			if u[i] >= 0xD800 && u[i] < 0xDC00 && i+1 < len(u) {
				rs = append(rs, (rune(u[i])-0xD800)<<10+(rune(u[i+1])-0xDC00)+0x10000)
				i++
			} else {
				rs = append(rs, rune(u[i]))
			}
		}
		return string(rs)
	}
	for _, sec := range strings.Split(s, "beginbfrange")[1:] {
		body := strings.SplitN(sec, "endbfrange", 2)[0]
		for _, m := range c18BfRange.FindAllStringSubmatch(body, -1) {
			lo, _ := strconv.ParseUint(m[1], 16, 32)
			hi, _ := strconv.ParseUint(m[2], 16, 32)
			base := []rune(hexStr(m[3]))
			for c := lo; c <= hi && len(base) > 0; c++ {
				r := append([]rune(nil), base...)
				r[len(r)-1] += rune(c - lo)
				out[int(c)] = string(r)
			}
		}
	}
	for _, sec := range strings.Split(s, "beginbfchar")[1:] {
		body := strings.SplitN(sec, "endbfchar", 2)[0]
		for _, m := range c18BfChar.FindAllStringSubmatch(body, -1) {
			c, _ := strconv.ParseUint(m[1], 16, 32)
			out[int(c)] = hexStr(m[2])
		}
	}
	return out
}

type c18Font struct {
	name     string
	subtype  string
	w        map[int]float64
	dw       float64
	cidToGID []byte
	hasMap   bool
	prog     *font.SFNT
	toUni    map[int]string
	cffOnly  bool // only the CFF table could be read: no horizontal metrics table
	encoding string
}

func c18ReadFont(f *refpdf.File, fd refpdf.Dict) (*c18Font, error) {
	out := &c18Font{w: map[int]float64{}, dw: 1000}
	if fd["Subtype"] != refpdf.Name("Type0") {
		return nil, fmt.Errorf("font subtype %v is not Type0", fd["Subtype"])
	}
	if enc, _ := fd["Encoding"].(refpdf.Name); enc != "Identity-H" && enc != "Identity-V" {
		return nil, fmt.Errorf("encoding %v", fd["Encoding"])
	} else {
		out.encoding = string(enc)
	}
	if tu, ok := f.Resolve(fd["ToUnicode"]).(*refpdf.Stream); ok {
		b, err := f.Decode(tu)
		if err != nil {
			return nil, err
		}
		out.toUni = c18ToUnicode(b)
	}
	desc, _ := f.Resolve(fd["DescendantFonts"]).(refpdf.Array)
	if len(desc) != 1 {
		return nil, fmt.Errorf("DescendantFonts has %d entries", len(desc))
	}
	cf, _ := f.Resolve(desc[0]).(refpdf.Dict)
	if cf == nil {
		return nil, fmt.Errorf("descendant font is not a dictionary")
	}
	st, _ := cf["Subtype"].(refpdf.Name)
	out.subtype = string(st)
	if v, ok := refpdf.Num(f.Resolve(cf["DW"])); ok {
		out.dw = v
	}
	if arr, ok := f.Resolve(cf["W"]).(refpdf.Array); ok {
		for i := 0; i < len(arr); {
			c0, ok := refpdf.Num(arr[i])
			if !ok || i+1 >= len(arr) {
				return nil, fmt.Errorf("malformed W array")
			}
			if sub, ok := f.Resolve(arr[i+1]).(refpdf.Array); ok {
				for k, e := range sub {
					v, _ := refpdf.Num(e)
					out.w[int(c0)+k] = v
				}
				i += 2
			} else {
				if i+2 >= len(arr) {
					return nil, fmt.Errorf("malformed W array")
				}
				c1, _ := refpdf.Num(arr[i+1])
				v, _ := refpdf.Num(arr[i+2])
				for c := int(c0); c <= int(c1); c++ {
					out.w[c] = v
				}
				i += 3
			}
		}
	}
	switch m := f.Resolve(cf["CIDToGIDMap"]).(type) {
	case *refpdf.Stream:
		b, err := f.Decode(m)
		if err != nil {
			return nil, err
		}
		out.cidToGID, out.hasMap = b, true
	}
	fdesc, _ := f.Resolve(cf["FontDescriptor"]).(refpdf.Dict)
	var prog *refpdf.Stream
	for _, key := range []refpdf.Name{"FontFile2", "FontFile3", "FontFile"} {
		if s, ok := f.Resolve(fdesc[key]).(*refpdf.Stream); ok {
			prog = s
		}
	}
	if prog == nil {
		return nil, fmt.Errorf("no embedded font program")
	}
	b, err := f.Decode(prog)
	if err != nil {
		return nil, err
	}
	sf, err := font.ParseSFNT(b, 0)
	if err != nil {
		sf, err = font.ParseEmbeddedSFNT(b, 0)
	}
	if err != nil && len(b) > 12 && string(b[:4]) == "OTTO" {
		// an OpenType/CFF program embedded for a CIDFontType0 needs no more than its CFF table
		// (ISO 32000-1 Table 126): read that table on its own
		n := int(b[4])<<8 | int(b[5])
		for i := 0; i < n && 12+16*i+16 <= len(b); i++ {
			e := b[12+16*i:]
			if string(e[:4]) == "CFF " {
				off := int(e[8])<<24 | int(e[9])<<16 | int(e[10])<<8 | int(e[11])
				ln := int(e[12])<<24 | int(e[13])<<16 | int(e[14])<<8 | int(e[15])
				if off+ln <= len(b) {
					sf, err = font.ParseCFF(b[off : off+ln])
					out.cffOnly = true
				}
			}
		}
	}
	if err != nil {
		return nil, fmt.Errorf("embedded font program does not parse: %v", err)
	}
	out.prog = sf
	return out, nil
}

// gid maps a character code to the glyph of the embedded program as a reader does.
func (cf *c18Font) gid(code int) int {
	if cf.subtype == "CIDFontType2" && cf.hasMap {
		if 2*code+1 < len(cf.cidToGID) {
			return int(cf.cidToGID[2*code])<<8 | int(cf.cidToGID[2*code+1])
		}
		return 0
	}
	// CIDFontType2 without a map: identity. CIDFontType0 with a non-CID-keyed OpenType/CFF program:
	// CIDs are glyph indices (ISO 32000-1 9.7.4.2); CIDToGIDMap does not apply to CIDFontType0
	return code
}

func (cf *c18Font) width(code int) float64 {
	if v, ok := cf.w[code]; ok {
		return v
	}
	return cf.dw
}

type c18Shown struct {
	code int
	x, y float64 // pen position before the glyph, in mm on the page
	font *c18Font
	size float64
}

func c18Check(ci any, o *core.Obs) {
	c := ci.(*c18Case)
	checkGlobals(o)
	c13LoadFonts()
	fam := c13Fonts[c.Font]
	if fam == nil {
		o.Skip("font not available")
		return
	}
	fail := func(tag, format string, a ...any) {
		o.Fail(tag, format+"; text %q font %s size %.4g subset %v compress %v box %.4g", append(a, c.Text, c13FontFiles[c.Font], c.Size, c.Subset, c.Compress, c.Box)...)
	}
	face := fam.Face(c.Size, canvas.Black, canvas.FontRegular, canvas.FontNormal)
	src := face.Font.SFNT
	o.NonTrivial()
	// ---- subsetter ----
	o.Decided(1)
	sub := canvas.NewFontSubsetter()
	seen := map[int]uint16{}
	for _, g := range c.Codes {
		code := sub.Get(uint16(g))
		if prev, ok := seen[g]; ok && prev != code {
			fail("subsetter", "glyph %d got code %d after code %d", g, code, prev)
			return
		}
		seen[g] = code
	}
	list := sub.List()
	if len(list) == 0 || list[0] != 0 {
		fail("subsetter", "the glyph list %v does not start with .notdef", list)
		return
	}
	used := map[uint16]bool{}
	for g, code := range seen {
		if int(code) >= len(list) || int(list[code]) != g || (g != 0 && code == 0) {
			fail("subsetter", "glyph %d has code %d but the list reads %v", g, code, list)
			return
		}
		if used[code] && g != 0 {
			// two glyphs with one code
			for g2, c2 := range seen {
				if c2 == code && g2 != g {
					fail("subsetter", "glyphs %d and %d share code %d", g, g2, code)
					return
				}
			}
		}
		used[code] = true
	}
	// ---- paths and widths ----
	o.Decided(1)
	glyphs := face.Glyphs(c.Text)
	k := face.MmPerEm
	adv := 0.0
	manual := &c18Pather{}
	x := int32(0)
	for _, g := range glyphs {
		if err := src.GlyphPath(&c18Shift{manual, k * float64(x+g.XOffset), k * float64(g.YOffset), k}, g.ID, 0, 0, 0, 1, font.NoHinting); err != nil {
			o.Skip("glyph outline not available: " + err.Error())
			return
		}
		x += g.XAdvance
		adv += k * float64(g.XAdvance)
	}
	if w := face.TextWidth(c.Text); math.Abs(w-adv) > 1e-9*(1+adv) {
		fail("textwidth", "TextWidth %.9g, the glyph advances sum to %.9g", w, adv)
		return
	}
	p, pw, err := face.ToPath(c.Text)
	if err != nil {
		fail("topath", "ToPath: %v", err)
		return
	}
	if math.Abs(pw-adv) > 1e-9*(1+adv) {
		fail("topath-width", "ToPath reports width %.9g, the advances sum to %.9g", pw, adv)
		return
	}
	// outlines placed by the monitor vs ToPath: same extent (the path builder may merge or drop
	// degenerate segments, so the comparison is by bounds and by the number of contours)
	mb := boundsOfRecorded(manual.d)
	pb := p.Bounds()
	tol := 1e-6 * (1 + adv + c.Size)
	if !p.Empty() && (math.Abs(pb.X0-mb[0]) > tol || math.Abs(pb.Y0-mb[1]) > tol || math.Abs(pb.X1-mb[2]) > tol || math.Abs(pb.Y1-mb[3]) > tol) {
		fail("topath-placement", "ToPath spans [%.6g,%.6g]x[%.6g,%.6g], the outlines placed at the summed advances span [%.6g,%.6g]x[%.6g,%.6g]", pb.X0, pb.X1, pb.Y0, pb.Y1, mb[0], mb[2], mb[1], mb[3])
		return
	}
	line := canvas.NewTextLine(face, c.Text, canvas.Left)
	lw := 0.0
	line.WalkSpans(func(x, y float64, s canvas.TextSpan) { lw = math.Max(lw, s.X+s.Width) })
	if strings.TrimSpace(c.Text) != "" && math.Abs(lw-adv) > 1e-6*(1+adv) {
		fail("span-width", "the span of NewTextLine ends at %.9g, TextWidth is %.9g", lw, adv)
		return
	}
	// ---- PDF ----
	var t *canvas.Text
	if c.Box > 0 {
		t = canvas.NewTextBox(face, c.Text, c.Box, 0, canvas.Justify, canvas.Top, 0, 0)
	} else {
		t = line
	}
	const x0, y0 = 20.0, 250.0
	var tv *canvas.Text
	if c.Vert {
		rt := canvas.NewRichText(face)
		rt.SetWritingMode(canvas.VerticalRL)
		if c.Upright {
			rt.SetTextOrientation(canvas.Upright)
		}
		rt.WriteString(c.Text)
		tv = rt.ToText(0, 200, canvas.Left, canvas.Top, 0, 0)
	}
	var extra []*canvas.Text
	var extraFaces []*canvas.FontFace
	if len(c.Inter) == 2 {
		if fb := c13Fonts[int(c.Inter[0])]; fb != nil {
			faceB := fb.Face(c.Inter[1], canvas.Black, canvas.FontRegular, canvas.FontNormal)
			tb := "Between fonts 123"
			if int(c.Inter[0]) == 0 {
				tb = "Between αβγ 123"
			}
			extra = append(extra, canvas.NewTextLine(faceB, tb, canvas.Left), canvas.NewTextLine(face, "again "+strings.TrimSpace(strings.SplitN(c.Text, "\n", 2)[0]), canvas.Left))
			extraFaces = append(extraFaces, faceB, face)
		}
	}
	var buf bytes.Buffer
	if !o.Call("pdf renderer", func() {
		r := pdf.New(&buf, 210, 297, &pdf.Options{Compress: c.Compress, SubsetFonts: c.Subset})
		ctx := canvas.NewContext(r)
		ctx.DrawText(x0, y0, t)
		if tv != nil {
			ctx.DrawText(150, y0, tv)
		}
		for i, e := range extra {
			ctx.DrawText(x0, y0-40-30*float64(i), e)
		}
		r.Close()
	}) {
		return
	}
	type laid struct {
		g    canvas.TextSpan
		x, y float64
	}
	var want []struct {
		id   uint16
		r    rune
		x, y float64
		adv  int32
	}
	var vertical, second []bool
	var srcs []*font.SFNT // source font of every expected glyph
	var sizes []float64   // face size of every expected glyph as FontFace.Size has it (millimetres)
	t.WalkSpans(func(x, y float64, s canvas.TextSpan) {
		pen := 0.0
		for _, g := range s.Glyphs {
			want = append(want, struct {
				id   uint16
				r    rune
				x, y float64
				adv  int32
			}{g.ID, g.Text, x0 + x + pen + k*float64(g.XOffset), y0 + y + k*float64(g.YOffset), g.XAdvance})
			if g.XOffset != 0 || g.YOffset != 0 {
				o.Count("glyphs_with_offsets", 1)
			}
			vertical = append(vertical, false)
			second = append(second, false)
			srcs, sizes = append(srcs, src), append(sizes, face.Size)
			pen += k * float64(g.XAdvance)
		}
	})
	if tv != nil {
		tv.WalkSpans(func(x, y float64, s canvas.TextSpan) {
			for _, g := range s.Glyphs {
				want = append(want, struct {
					id   uint16
					r    rune
					x, y float64
					adv  int32
				}{g.ID, g.Text, 0, 0, g.XAdvance})
				vertical = append(vertical, g.Vertical)
				second = append(second, true)
				srcs, sizes = append(srcs, src), append(sizes, face.Size)
			}
		})
	}
	for i, e := range extra {
		fc := extraFaces[i]
		e.WalkSpans(func(x, y float64, s canvas.TextSpan) {
			for _, g := range s.Glyphs {
				want = append(want, struct {
					id   uint16
					r    rune
					x, y float64
					adv  int32
				}{g.ID, g.Text, 0, 0, g.XAdvance})
				vertical = append(vertical, false)
				second = append(second, true)
				srcs, sizes = append(srcs, fc.Font.SFNT), append(sizes, fc.Size)
			}
		})
	}
	f := refpdf.Parse(buf.Bytes())
	f.CheckReferences()
	pages := f.Pages()
	if len(f.Problems) > 0 || len(pages) != 1 {
		fail("pdf", "the PDF is not well-formed: %v", f.Problems)
		return
	}
	pg := pages[0]
	ops, err := refpdf.ParseContent(pg.Content)
	if err != nil {
		fail("pdf", "content stream: %v", err)
		return
	}
	fonts := map[refpdf.Name]*c18Font{}
	fres, _ := f.Resolve(pg.Resources["Font"]).(refpdf.Dict)
	var shown []c18Shown
	ctm := affI
	var cur *c18Font
	size := 0.0
	tm := affI
	rise := 0.0
	num := func(v any) float64 { x, _ := refpdf.Num(v); return x }
	for _, op := range ops {
		a := op.Operands
		switch op.Name {
		case "cm":
			ctm = ctm.mul(aff{num(a[0]), num(a[2]), num(a[4]), num(a[1]), num(a[3]), num(a[5])})
		case "BT":
			tm = affI
		case "Tf":
			nm := a[0].(refpdf.Name)
			if fonts[nm] == nil {
				fd, _ := f.Resolve(fres[nm]).(refpdf.Dict)
				cf, err := c18ReadFont(f, fd)
				if err != nil {
					fail("pdf-font", "font /%s: %v", nm, err)
					return
				}
				cf.name = string(nm)
				fonts[nm] = cf
			}
			cur, size = fonts[nm], num(a[1])
		case "Tm":
			tm = aff{num(a[0]), num(a[2]), num(a[4]), num(a[1]), num(a[3]), num(a[5])}
		case "Td":
			tm = tm.mul(affT(num(a[0]), num(a[1])))
		case "Ts":
			rise = num(a[0])
		case "Tc", "Tw", "Tz", "TL", "TD", "T*", "'", "\"":
			o.Skip("the reader does not model the text operator " + op.Name)
			return
		case "TJ", "Tj":
			if cur == nil {
				fail("pdf", "text shown without a font")
				return
			}
			var items refpdf.Array
			if op.Name == "Tj" {
				items = refpdf.Array{a[0]}
			} else {
				items, _ = a[0].(refpdf.Array)
			}
			pen := 0.0 // text space units
			for _, it := range items {
				switch v := it.(type) {
				case refpdf.String:
					if len(v)%2 != 0 {
						fail("pdf", "a string of %d bytes under a two-byte encoding", len(v))
						return
					}
					for i := 0; i+1 < len(v); i += 2 {
						code := int(v[i])<<8 | int(v[i+1])
						pos := ctm.mul(tm).dot(Pt{X: pen, Y: rise})
						shown = append(shown, c18Shown{code: code, x: pos.X * 25.4 / 72, y: pos.Y * 25.4 / 72, font: cur, size: size})
						pen += cur.width(code) / 1000 * size
					}
				default:
					if n, ok := refpdf.Num(v); ok {
						pen -= n / 1000 * size
					}
				}
			}
			tm = tm.mul(affT(pen, 0))
		}
	}
	o.Decided(1)
	if len(shown) != len(want) {
		fail("glyph-count", "the PDF shows %d glyphs, the layout has %d", len(shown), len(want))
		return
	}
	o.Count("glyphs_compared", float64(len(shown)))
	for i, sh := range shown {
		w := want[i]
		src := srcs[i]
		upem := float64(src.Head.UnitsPerEm)
		o.Decided(1)
		// the writer works in millimetres: Tf carries the face size in mm (the page matrix scales mm to pt)
		if math.Abs(sh.size-sizes[i]) > 1e-5*(1+sizes[i]) {
			fail("font-size", "glyph %d (%q) is shown with Tf size %.6g, its face has size %.6g (mm)", i, string(w.r), sh.size, sizes[i])
			return
		}
		wantEnc := "Identity-H"
		if vertical[i] {
			wantEnc = "Identity-V"
		}
		if sh.font.encoding != wantEnc {
			fail("encoding", "glyph %d (%q) of the %s text is shown with a font of encoding %s", i, string(w.r), map[bool]string{false: "horizontal", true: "vertical"}[vertical[i]], sh.font.encoding)
			return
		}
		gid := sh.font.gid(sh.code)
		if !sh.font.cffOnly && gid >= int(sh.font.prog.NumGlyphs()) {
			fail("glyph-select", "glyph %d (%q): code %d selects glyph %d of an embedded program with %d glyphs", i, string(w.r), sh.code, gid, sh.font.prog.NumGlyphs())
			return
		}
		eo, err1 := c18Outline(sh.font.prog, uint16(gid))
		so, err2 := c18Outline(src, w.id)
		if err1 != nil || err2 != nil {
			o.Count("glyph_outlines_not_comparable", 1)
		} else if !floatsClose(eo, so, 0.51) {
			fail("glyph-outline", "glyph %d (%q, source glyph %d): code %d selects glyph %d of the embedded %s program (CIDToGIDMap %v), whose outline differs from the source glyph's (%d vs %d numbers)", i, string(w.r), w.id, sh.code, gid, sh.font.subtype, sh.font.hasMap, len(eo), len(so))
			return
		}
		if sh.font.cffOnly {
			o.Count("glyph_advances_not_in_embedded_program", 1)
		} else if ea, sa := sh.font.prog.GlyphAdvance(uint16(gid)), src.GlyphAdvance(w.id); ea != sa {
			fail("glyph-advance", "glyph %d (%q): the embedded glyph %d has advance %d, the source glyph %d has %d", i, string(w.r), gid, ea, w.id, sa)
			return
		}
		if wd, ex := sh.font.width(sh.code), float64(src.GlyphAdvance(w.id))*1000/upem; math.Abs(wd-ex) > 1.0 {
			fail("width-array", "glyph %d (%q, code %d): W/DW give width %.4g, the source advance is %.4g (1000/em)", i, string(w.r), sh.code, wd, ex)
			return
		}
		if sh.font.toUni != nil && w.id != 0 && src.GlyphIndex(w.r) == w.id && w.r >= 32 {
			o.Count("tounicode_entries_compared", 1)
			if got := sh.font.toUni[sh.code]; got != string(w.r) {
				fail("tounicode", "glyph %d: ToUnicode maps code %d to %q, the laid-out character is %q", i, sh.code, got, string(w.r))
				return
			}
		}
		if !second[i] {
			ptol := 0.02 + float64(i+1)*c.Size*0.3528/1000*1.5
			if math.Abs(sh.x-w.x) > ptol || math.Abs(sh.y-w.y) > 0.02 {
				fail("pen-position", "glyph %d (%q): the PDF places it at (%.5g,%.5g) mm, the layout at (%.5g,%.5g) mm", i, string(w.r), sh.x, sh.y, w.x, w.y)
				return
			}
		}
	}
}

// c18Shift forwards an outline scaled and shifted.
type c18Shift struct {
	p          *c18Pather
	dx, dy, sc float64
}

func (s *c18Shift) MoveTo(x, y float64) { s.p.MoveTo(s.dx+s.sc*x, s.dy+s.sc*y) }
func (s *c18Shift) LineTo(x, y float64) { s.p.LineTo(s.dx+s.sc*x, s.dy+s.sc*y) }
func (s *c18Shift) QuadTo(a, b, x, y float64) {
	s.p.QuadTo(s.dx+s.sc*a, s.dy+s.sc*b, s.dx+s.sc*x, s.dy+s.sc*y)
}
func (s *c18Shift) CubeTo(a, b, c, d, x, y float64) {
	s.p.CubeTo(s.dx+s.sc*a, s.dy+s.sc*b, s.dx+s.sc*c, s.dy+s.sc*d, s.dx+s.sc*x, s.dy+s.sc*y)
}
func (s *c18Shift) Close() { s.p.Close() }

// boundsOfRecorded: extent of the recorded outline (curves by their exact extrema through geom).
func boundsOfRecorded(d []float64) [4]float64 {
	p := &canvas.Path{}
	for i := 0; i < len(d); {
		switch d[i] {
		case 1:
			p.MoveTo(d[i+1], d[i+2])
			i += 3
		case 2:
			p.LineTo(d[i+1], d[i+2])
			i += 3
		case 3:
			p.QuadTo(d[i+1], d[i+2], d[i+3], d[i+4])
			i += 5
		case 4:
			p.CubeTo(d[i+1], d[i+2], d[i+3], d[i+4], d[i+5], d[i+6])
			i += 7
		default:
			p.Close()
			i++
		}
	}
	b := p.Bounds()
	return [4]float64{b.X0, b.Y0, b.X1, b.Y1}
}

func init() {
	core.Register(&core.Property{
		ID:    "C18",
		Title: "Embedded fonts and glyph paths reproduce the laid-out text",
		Rule: "texts (ASCII, ligatures, kerning pairs, digits with equal advances, accented Latin, Greek, punctuation incl. PDF string delimiters, random letter/digit runs of up to 60 characters) in DejaVu Serif (TrueType) and EB Garamond / Dynalight (CFF) at 5-40 pt, as a single line or a justified box, are written to PDF with {subsetted, full} fonts x {compressed, plain}; the file is read with harness/refpdf and every shown glyph is resolved code -> CID -> glyph of the embedded program as ISO 32000-1 9.7 prescribes and compared with the layout: outline (0.5 unit) and advance vs the source font, W/DW width (1/1000 em), ToUnicode for glyphs the cmap maps 1:1, pen position (0.02 mm + 1.5/1000 em per preceding glyph), glyph count; " +
			"FontSubsetter is driven with 3-40 glyph ids (stable codes, .notdef at 0, list consistent); TextWidth, ToPath width and extent, and the NewTextLine span width are compared with outlines placed at the summed advances",
		Strata: []core.Stratum{
			{Name: "texts", Quick: 600, Thorough: 20000, Gen: genC18("texts")},
			{Name: "justified", Quick: 300, Thorough: 8000, Gen: genC18("justified")},
			{Name: "vertical", Quick: 200, Thorough: 4000, Gen: genC18("vertical"), Note: "the same font used for horizontal text and for rotated text of a vertical writing mode in one document"},
			{Name: "interleaved", Quick: 300, Thorough: 6000, Gen: genC18("interleaved"), Note: "font selections A, B, A on one page (another font, or the same font at another size, between two texts of one face)"},
			{Name: "many-glyphs", Quick: 60, Thorough: 800, Gen: genC18("many-glyphs"), Note: "200-420 distinct glyphs of one font in one document (character codes beyond 0x00FF)"},
			{Name: "astral", Quick: 200, Thorough: 3000, Gen: genC18("astral"), Note: "characters beyond U+FFFF: ToUnicode entries are surrogate pairs"},
			{Name: "marks", Quick: 200, Thorough: 3000, Gen: genC18("marks"), Note: "combining marks positioned by glyph offsets (GPOS mark-to-base)"},
			{Name: "upright", Quick: 100, Thorough: 1000, Gen: genC18("upright"), WitnessOnly: true, Note: "upright glyphs in a vertical writing mode: the glyphs advance vertically in the layout, but the font is embedded with encoding Identity-H and without vertical metrics (W2/DW2), so a reader advances them horizontally"},
			{Name: "cff-full", Quick: 100, Thorough: 1000, Gen: genC18("cff-full"), WitnessOnly: true, Note: "CFF fonts embedded without subsetting: character codes are the subsetter's codes and a CIDToGIDMap is written, but for a CIDFontType0 with a non-CID-keyed CFF program a reader takes the CID as the glyph index, so every glyph but .notdef selects a different outline"},
		},
		NewCase: func() any { return &c18Case{} },
		Check:   c18Check,
		Describe: func(ci any) any {
			c := ci.(*c18Case)
			return map[string]any{"text": c.Text, "font": c13FontFiles[c.Font], "size": c.Size, "subset": c.Subset, "box": c.Box}
		},
		Assumptions: []string{
			"embedded font programs are parsed with github.com/tdewolff/font (ParseSFNT, GlyphPath, GlyphAdvance); the writer side under test is the subsetter, writeFont and WriteText",
			"horizontal writing mode; faux bold/italic, vertical text and glyph offsets of mark positioning are not generated",
		},
	})
}
