package mon

import (
	"math"

	"github.com/tdewolff/canvas"

	"verif/core"
	"verif/geom"
)

type c03Case struct {
	P    []float64
	Tol  float64
	Kind string
	// Strict: do not add the arc-to-cubic error floor for elliptic arcs (witnesses of F-C03-ellipse-floor)
	Strict bool `json:",omitempty"`
}

func genC03(kind string) func(r *core.Rng) any {
	return func(r *core.Rng) any {
		var p *canvas.Path
		scale := 1.0
		if r.Chance(0.3) {
			scale = r.LogRange(1e-2, 1e2)
		}
		switch kind {
		case "mild-quads":
			p = genPath(r, pathOpts{Kinds: kQuad | kLine, MaxSegs: 4, MaxSubs: 2, Closed: 2, MildCurve: true, Scale: scale})
		case "convex-cubics":
			p = genPath(r, pathOpts{Kinds: kCube | kLine, MaxSegs: 4, MaxSubs: 2, Closed: 2, MildCurve: true, Inflect: -1, Scale: scale})
		case "chord-cubics": // an inflection point at or next to an end point
			p = genPath(r, pathOpts{Kinds: kCube, MaxSegs: 3, MaxSubs: 2, Closed: 2, MildCurve: true, NearChord: true, Scale: scale})
		case "end-inflection-cubics":
			p = genPath(r, pathOpts{Kinds: kCube, MaxSegs: 2, MaxSubs: 1, Closed: 2, MildCurve: true, EndInflect: true, Scale: scale})
		case "gentle-cubics":
			// convex cubics whose first (or last) three control points are collinear up to a relative
			// offset between 1e-9 and 1e-1, the fourth well off that line: the quadratic term of the
			// error estimate nearly vanishes at the start and the cubic term must bound the step
			p = &canvas.Path{}
			for n := r.IntRange(1, 2); n > 0; n-- {
				L := r.Range(5, 60) * scale
				th := r.Range(0, 2*math.Pi)
				d := canvas.Point{X: math.Cos(th), Y: math.Sin(th)}
				nn := canvas.Point{X: -d.Y, Y: d.X}
				if r.Chance(0.5) {
					nn = canvas.Point{X: d.Y, Y: -d.X}
				}
				p0 := canvas.Point{X: r.Range(-50, 50) * scale, Y: r.Range(-50, 50) * scale}
				a := r.Range(0.2, 1.5)
				b := a + r.Range(0.2, 1.5)
				cc := b + r.Range(0.0, 1.5)
				eps := r.LogRange(1e-9, 1e-1)
				if r.Chance(0.1) {
					eps = 0
				}
				h := r.Range(0.3, 3)
				p1 := p0.Add(d.Mul(a * L))
				p2 := p0.Add(d.Mul(b * L)).Add(nn.Mul(eps * L))
				p3 := p0.Add(d.Mul(cc * L)).Add(nn.Mul(h * L))
				if r.Chance(0.5) {
					p0, p1, p2, p3 = p3, p2, p1, p0
				}
				p.MoveTo(p0.X, p0.Y)
				p.CubeTo(p1.X, p1.Y, p2.X, p2.Y, p3.X, p3.Y)
			}
		case "s-cubics":
			p = genPath(r, pathOpts{Kinds: kCube, MaxSegs: 3, MaxSubs: 2, Closed: 2, MildCurve: true, Inflect: 1, Scale: scale})
		case "wild-beziers": // hairpins, cusps, loops, control points on end points
			p = genPath(r, pathOpts{Kinds: kQuad | kCube, MaxSegs: 3, MaxSubs: 2, Closed: 2, Scale: scale})
		case "circular-arcs":
			p = genPath(r, pathOpts{Kinds: kArc | kLine, MaxSegs: 3, MaxSubs: 2, Closed: 2, CircArcs: true, Scale: scale})
		case "rotated-circular-arcs":
			// circular arcs that carry a rotation in their record, as Transform leaves them after a
			// rotation (the builder stores 0 for circles); the geometry does not depend on it
			p = genPath(r, pathOpts{Kinds: kArc | kLine, MaxSegs: 3, MaxSubs: 2, Closed: 2, CircArcs: true, Scale: scale})
			d := dataCopy(p)
			for i := 0; i < len(d); {
				n := 4
				switch d[i] {
				case 4:
					n = 6
				case 8:
					n = 8
				case 16:
					n = 8
					if d[i+1] == d[i+2] {
						d[i+3] = r.Range(0, math.Pi)
					}
				}
				i += n
			}
			p = canvas.NewPathFromData(d)
		case "elliptic-arcs":
			p = genPath(r, pathOpts{Kinds: kArc, MaxSegs: 3, MaxSubs: 2, Closed: 2, MaxRatio: 300, Scale: scale})
		case "mild-elliptic-arcs":
			p = genPath(r, pathOpts{Kinds: kArc, MaxSegs: 3, MaxSubs: 2, Closed: 2, MaxRatio: 1.5, Scale: scale})
		case "grid": // integer coordinates and radii, circular arcs: exact-value shortcuts
			p = genPath(r, pathOpts{Kinds: kLine | kArc, MaxSegs: 4, MaxSubs: 2, Closed: 2, Integer: true, CircArcs: true})
			scale = 1
		default: // mixed (mild Béziers + circular arcs): the composition of the clean classes
			p = genPath(r, pathOpts{Kinds: kAll, MaxSegs: 5, MaxSubs: 3, Closed: 2, MildCurve: true, Inflect: -1, CircArcs: true, Scale: scale})
		}
		// tolerance log-uniform over 4 decades relative to the path's scale
		return &c03Case{P: dataCopy(p), Tol: r.LogRange(1e-4, 1) * scale, Kind: kind}
	}
}

// structure compares sub-path structure of two decoded paths.
func sameStructure(o *core.Obs, label string, a, b []geom.Sub, scale float64) bool {
	if len(a) != len(b) {
		o.Fail("structure:"+label, "%s: %d sub-paths became %d", label, len(a), len(b))
		return false
	}
	for i := range a {
		if a[i].Closed != b[i].Closed {
			o.Fail("structure:"+label, "%s: sub-path %d closed=%v became closed=%v", label, i, a[i].Closed, b[i].Closed)
			return false
		}
		if a[i].Start != b[i].Start {
			o.Fail("structure:"+label, "%s: sub-path %d starts at %v instead of %v", label, i, b[i].Start, a[i].Start)
			return false
		}
		ea, eb := a[i].End(), b[i].End()
		if ea.Dist(eb) > 1e-9*scale {
			o.Fail("structure:"+label, "%s: sub-path %d ends at %v instead of %v", label, i, eb, ea)
			return false
		}
	}
	return true
}

func c03Check(ci any, o *core.Obs) {
	c := ci.(*c03Case)
	checkGlobals(o)
	P := pathFrom(c.P)
	src, err := refSubs(P)
	if err != nil || len(src) == 0 {
		o.Skip("source not decodable")
		return
	}
	scale := geom.BoxPolys(geom.Flatten(src, 1e-2, false)).Scale()
	t := c.Tol
	o.NonTrivial()
	// Elliptic (non-circular) arcs are first replaced by cubics with a fixed relative error and only
	// then flattened (the code has a TODO for a direct method), so their flattening error has a floor
	// that does not vanish with t: finding F-C03-ellipse-floor. Random exploration adds the ReplaceArcs
	// bound for such arcs; the strict form is pinned by witnesses.
	floor := 0.0
	hasArcAny := false
	for si := range src {
		for i := range src[si].Segs {
			if sg := &src[si].Segs[i]; sg.Kind == geom.Arc {
				hasArcAny = true
				_, _, _, rx, ry := sg.ArcCenter()
				if math.Abs(rx-ry) > 1e-9*math.Max(rx, ry) && !c.Strict {
					floor = math.Max(floor, c03ArcRel*math.Max(rx, ry))
				}
			}
		}
	}

	// ---- Flatten -----------------------------------------------------------------------------------
	var F *canvas.Path
	if o.Call("Path.Flatten", func() { F = pathFrom(c.P).Flatten(t) }) {
		fs, err := refSubs(F)
		if err != nil {
			o.Fail("flatten:malformed", "Flatten returned undecodable data: %v", err)
		} else if !isFlat(F) {
			o.Fail("flatten:notflat", "Flatten(%g) left curved segments: %s", t, pstr(F))
		} else if sameStructure(o, "Flatten", src, fs, scale) {
			flat := geom.Flatten(fs, 1, false)
			// (a) every vertex on the curve (within t), in curve order: the nearest point of the curve at
			// or after the position of the previous vertex
			worstV := 0.0
			allowV := t*(1+1e-2) + 1e-9*scale + floor
		vertices:
			for si := range fs {
				pos := geom.Pos{}
				for vi, v := range flat[si].V {
					// earliest position at or after the previous one where the curve comes within the
					// allowance of the vertex (searched in eighths of every segment)
					p2, d := earliestWithin(&src[si], v.P, pos, allowV)
					if d <= allowV {
						_, dn := geom.NearestOnSub(&src[si], v.P, geom.Pos{})
						worstV = math.Max(worstV, dn)
					}
					o.Decided(1)
					if d > allowV {
						_, dAny := geom.NearestOnSub(&src[si], v.P, geom.Pos{})
						tag := "flatten:vertex-off-curve"
						if dAny <= allowV {
							tag = "flatten:vertex-order"
						}
						o.Fail(tag, "Flatten(%g): vertex %d %v of sub-path %d is %.4g from the part of the curve after the previous vertex (%.4g from the curve anywhere); source %s", t, vi, v.P, si, d, dAny, pstr(P))
						break vertices
					}
					pos = p2
				}
			}
			o.Max("flatten_vertex_dev_over_t:"+c.Kind, worstV/t)
			// (b) every point of the curve within K*t of the polyline: 256 samples per curved segment
			// and a golden-section refinement around the worst one
			kindName := []string{"line", "quad", "cube", "arc"}
			for si := range src {
				for i := range src[si].Segs {
					sg := &src[si].Segs[i]
					if sg.Kind == geom.Line {
						continue
					}
					const N = 256
					dist := func(u float64) float64 { return geom.DistPtPolys(sg.At(u), flat[si:si+1]) }
					bi, bd := 0, 0.0
					for k := 0; k <= N; k++ {
						if d := dist(float64(k) / N); d > bd {
							bi, bd = k, d
						}
					}
					lo, hi := math.Max(0, float64(bi-1)/N), math.Min(1, float64(bi+1)/N)
					for it := 0; it < 40; it++ {
						m1, m2 := lo+(hi-lo)/3, hi-(hi-lo)/3
						if dist(m1) < dist(m2) {
							lo = m1
						} else {
							hi = m2
						}
					}
					if d := dist((lo + hi) / 2); d > bd {
						bd = d
					}
					K := c03K[sg.Kind]
					o.Max("flatten_curve_dev_over_t:"+kindName[sg.Kind]+":"+c.Kind, bd/t)
					o.Decided(1)
					if bd > K*t+1e-9*scale+floor {
						o.Fail("flatten:curve-dev:"+kindName[sg.Kind], "Flatten(%g): the point %v of %s segment %d of sub-path %d is %.4g = %.2f*t from the polyline (allowed %.1f*t); source %s", t, sg.At((lo+hi)/2), kindName[sg.Kind], i, si, bd, bd/t, K, pstr(P))
						break
					}
				}
			}
		}
	}

	// ---- ReplaceArcs -------------------------------------------------------------------------------
	hasArc := false
	maxR := 0.0
	for si := range src {
		for i := range src[si].Segs {
			if sg := &src[si].Segs[i]; sg.Kind == geom.Arc {
				hasArc = true
				_, _, _, rx, ry := sg.ArcCenter()
				maxR = math.Max(maxR, math.Max(rx, ry))
			}
		}
	}
	var R *canvas.Path
	if o.Call("Path.ReplaceArcs", func() { R = pathFrom(c.P).ReplaceArcs() }) {
		rs, err := refSubs(R)
		if err != nil {
			o.Fail("replacearcs:malformed", "ReplaceArcs returned undecodable data: %v", err)
		} else if sameStructure(o, "ReplaceArcs", src, rs, scale) {
			for si := range rs {
				for i := range rs[si].Segs {
					if rs[si].Segs[i].Kind == geom.Arc {
						o.Fail("replacearcs:arc-left", "ReplaceArcs left an arc: %s", pstr(R))
					}
				}
			}
			if hasArc {
				h1, _ := geom.HausdorffSubs(src, rs, 32)
				h2, at := geom.HausdorffSubs(rs, src, 16)
				h := math.Max(h1, h2)
				o.Max("replacearcs_dev_over_r", h/maxR)
				o.Decided(1)
				if h > c03ArcRel*maxR+1e-9*scale {
					o.Fail("replacearcs:dev", "ReplaceArcs deviates by %.4g (%.3g of the largest radius %.4g, allowed %.3g) near %v; source %s", h, h/maxR, maxR, c03ArcRel, at, pstr(P))
				}
			} else if !bitsEqual(R.Data(), P.Data()) {
				o.Fail("replacearcs:changed", "ReplaceArcs changed a path without arcs")
			}
		}
	}

	// ---- XMonotone ---------------------------------------------------------------------------------
	var X *canvas.Path
	if o.Call("Path.XMonotone", func() { X = pathFrom(c.P).XMonotone() }) {
		xs, err := refSubs(X)
		if err != nil {
			o.Fail("xmonotone:malformed", "XMonotone returned undecodable data: %v", err)
		} else if sameStructure(o, "XMonotone", src, xs, scale) {
			h1, _ := geom.HausdorffSubs(src, xs, 16)
			h2, at := geom.HausdorffSubs(xs, src, 8)
			h := math.Max(h1, h2)
			o.Max("xmonotone_dev_rel", h/scale)
			o.Decided(1)
			xtol := c03XMonoRel * scale
			if hasArcAny {
				xtol = c03XMonoArcRel * scale
			}
			if h > xtol {
				o.Fail("xmonotone:dev", "XMonotone moved the path by %.4g (%.3g of its size) near %v; source %s result %s", h, h/scale, at, pstr(P), pstr(X))
			}
			// every output segment is monotone in x
			for si := range xs {
				for i := range xs[si].Segs {
					sg := &xs[si].Segs[i]
					if sg.Kind == geom.Line {
						continue
					}
					const N = 256
					worstBack := 0.0
					prev := sg.At(0).X
					increasing := sg.At(1).X >= prev
					for k := 1; k <= N; k++ {
						x := sg.At(float64(k) / N).X
						step := x - prev
						if increasing {
							worstBack = math.Max(worstBack, -step)
						} else {
							worstBack = math.Max(worstBack, step)
						}
						prev = x
					}
					o.Decided(1)
					o.Max("xmonotone_backstep_rel", worstBack/scale)
					if worstBack > c03XMonoRel*scale {
						o.Fail("xmonotone:not-monotone", "XMonotone: segment %d of sub-path %d goes back in x by %.4g; source %s result %s", i, si, worstBack, pstr(P), pstr(X))
					}
				}
			}
		}
	}
	checkGlobals(o)
}

// c03K: "a small constant multiple of t", per segment kind (index geom.Quad, geom.Cube, geom.Arc).
// Calibrated on the random strata (see DESIGN 5/C03): the values are about 1.5x the observed maxima.
var c03K = [4]float64{0, 3, 6, 1.5}

// Thresholds (DESIGN 4.2).
const (
	// c03ArcRel: ReplaceArcs uses one cubic per quarter turn; the classical kappa approximation has
	// a relative radial error of 2.7e-4; observed 5.6e-4 of the larger radius -> 2e-3.
	c03ArcRel = 2e-3
	// c03XMonoRel: "exact split": rounding only. With arcs the split points come from the end-point
	// to centre conversion and trigonometry: observed up to 1.2e-8 on mildly elliptic arcs -> 1e-7.
	c03XMonoRel    = 1e-9
	c03XMonoArcRel = 1e-7
)

func c03Describe(ci any) any {
	c := ci.(*c03Case)
	return map[string]any{"kind": c.Kind, "tolerance": c.Tol, "P": dstr(c.P)}
}

func init() {
	core.Register(&core.Property{
		ID:    "C03",
		Title: "Flattening approximates every curve within the requested tolerance",
		Rule: "random paths of 1-3 open/closed sub-paths at scales 1e-2..1e2 (strata by curve class: mild Béziers turning < 90 degrees per segment, circular arcs, mixed; wild Béziers and eccentric elliptic arcs are measured separately) x tolerance log-uniform in [1e-4,1]*scale; " +
			"Flatten: only M/L/z, same sub-paths/ends/closedness, every vertex within t of the curve after the previous vertex, every dense curve sample within K*t of the polyline; ReplaceArcs: no arcs left, two-sided Hausdorff <= 2e-3*radius; XMonotone: same geometry to 1e-9, every segment monotone in x; every case non-trivial; distinct = distinct case hash",
		Strata: []core.Stratum{
			{Name: "mild-quads", Quick: 1500, Thorough: 30000, Gen: genC03("mild-quads")},
			{Name: "convex-cubics", Quick: 1500, Thorough: 30000, Gen: genC03("convex-cubics")},
			{Name: "gentle-cubics", Quick: 1500, Thorough: 30000, Gen: genC03("gentle-cubics"), Note: "convex cubics with three nearly collinear control points at one end"},
			{Name: "s-cubics", Quick: 1500, Thorough: 30000, Gen: genC03("s-cubics")},
			{Name: "chord-cubics", Quick: 1000, Thorough: 20000, Gen: genC03("chord-cubics")},
			{Name: "circular-arcs", Quick: 1500, Thorough: 30000, Gen: genC03("circular-arcs")},
			{Name: "rotated-circular-arcs", Quick: 1000, Thorough: 20000, Gen: genC03("rotated-circular-arcs"), Note: "circular arcs whose record carries a rotation (as after Transform)"},
			{Name: "mild-elliptic-arcs", Quick: 1000, Thorough: 20000, Gen: genC03("mild-elliptic-arcs"), Note: "radii ratio <= 1.5; bound K*t + 2e-3*r (arc-to-cubic error floor, F-C03-ellipse-floor)"},
			{Name: "mixed", Quick: 1500, Thorough: 30000, Gen: genC03("mixed")},
			{Name: "grid", Quick: 1000, Thorough: 20000, Gen: genC03("grid")},
			// demoted (DESIGN 4.5)
			{Name: "end-inflection-cubics", Quick: 1000, Thorough: 20000, Gen: genC03("end-inflection-cubics"), WitnessOnly: true, Note: "cubic with an inflection point next to an end point: 1% flattened with errors up to 80000*t"},
			{Name: "wild-beziers", Quick: 1500, Thorough: 40000, Gen: genC03("wild-beziers"), WitnessOnly: true, Note: "hairpins/cusps/loops: 8% beyond K*t (up to 4000*t), XMonotone 0.2% off"},
			{Name: "elliptic-arcs", Quick: 1500, Thorough: 40000, Gen: genC03("elliptic-arcs"), WitnessOnly: true, Note: "radii ratio up to 300: 3% beyond K*t + 2e-3*r, XMonotone 1% off by up to 1e-3 of the size"},
		},
		NewCase:  func() any { return &c03Case{} },
		Check:    c03Check,
		Describe: c03Describe,
		Assumptions: []string{
			"the reference polyline of the source deviates from the true curve by less than min(t/200, 1e-6*scale) (provable chord bound h^2/8*max|P''|)",
			"K = 4 is this monitor's reading of 'a small constant multiple of t'",
		},
	})
}

// earliestWithin returns the earliest position at or after from (searched in eighths of each
// segment) whose distance to q is at most allow, or the overall nearest position and its distance
// if there is none.
func earliestWithin(sub *geom.Sub, q Pt, from geom.Pos, allow float64) (geom.Pos, float64) {
	best, bestD := from, math.Inf(1)
	if len(sub.Segs) == 0 {
		return geom.Pos{}, q.Dist(sub.Start)
	}
	for i := from.Seg; i < len(sub.Segs); i++ {
		t0 := 0.0
		if i == from.Seg {
			t0 = from.T
		}
		chunks := 8
		if sub.Segs[i].Kind == geom.Line {
			chunks = 1
		}
		for k := 0; k < chunks; k++ {
			a, b := float64(k)/float64(chunks), float64(k+1)/float64(chunks)
			if b < t0 {
				continue
			}
			if a < t0 {
				a = t0
			}
			t, d := sub.Segs[i].Nearest(q, a, b)
			if d <= allow {
				return geom.Pos{Seg: i, T: t}, d
			}
			if d < bestD {
				best, bestD = geom.Pos{Seg: i, T: t}, d
			}
		}
	}
	return best, bestD
}
