package mon

import (
	"bytes"
	"encoding/xml"
	"fmt"
	"math"
	"strconv"
	"strings"

	"github.com/tdewolff/canvas"
	"github.com/tdewolff/canvas/renderers/svg"

	"verif/core"
	"verif/geom"
	"verif/refsyn"
)

// C19: imported SVG documents draw the geometry the SVG specifies.
//
// Documents are generated over the supported grammar. An evaluator written from the SVG
// specification (this file: viewBox mapping, nested transforms, property inheritance, style
// attributes, CSS rules by specificity, basic shapes) turns the document into painted primitives in
// canvas space. The canvas ParseSVG returns is replayed to a recording renderer and turned into
// primitives by the monitor's own geometry; both lists are compared point-wise (C12's machinery).

type c19Case struct {
	SVG  string
	Kind string
}

// ---- document generator --------------------------------------------------------------------------

func c19Num(v float64) string { return strconv.FormatFloat(math.Round(v*1000)/1000, 'f', -1, 64) }

var c19Colors = []string{"red", "blue", "green", "#f80", "#12a4c8", "rgb(200,30,90)", "black", "#000", "rgb(10%,50%,90%)", "purple", "orange"}

func genC19(kind string) func(r *core.Rng) any {
	return func(r *core.Rng) any {
		var sb strings.Builder
		vw, vh := r.Range(40, 200), r.Range(40, 200)
		minx, miny := 0.0, 0.0
		if kind == "viewbox" || r.Chance(0.3) {
			minx, miny = r.Range(-50, 50), r.Range(-50, 50)
		}
		scale := core.PickF(r, []float64{1, 1, 0.5, 2, r.Range(0.2, 3)})
		unit := core.PickS(r, []string{"mm", "mm", "", "px", "cm", "in", "pt"})
		conv := map[string]float64{"mm": 1, "": 25.4 / 96, "px": 25.4 / 96, "cm": 10, "in": 25.4, "pt": 25.4 / 72}[unit]
		// width/height in the unit such that the canvas is vw*scale x vh*scale mm
		fmt.Fprintf(&sb, `<svg xmlns="http://www.w3.org/2000/svg"`)
		if kind == "sizes" {
			// width and height independently absolute, "100%" or absent; the percentage of an outermost
			// svg element refers to a viewport that a stand-alone document does not have: like an absent
			// attribute it leaves the size of the viewBox in px
			wa, ha := r.Intn(3), r.Intn(3)
			if wa == 0 {
				fmt.Fprintf(&sb, ` width="%s%s"`, c19Num(vw*scale/conv), unit)
			} else if wa == 1 {
				sb.WriteString(` width="100%"`)
			}
			if ha == 0 {
				fmt.Fprintf(&sb, ` height="%s%s"`, c19Num(vh*scale*r.Range(0.5, 1.5)/conv), unit)
			} else if ha == 1 {
				sb.WriteString(` height="100%"`)
			}
		} else if kind != "nosize" {
			fmt.Fprintf(&sb, ` width="%s%s" height="%s%s"`, c19Num(vw*scale/conv), unit, c19Num(vh*scale/conv), unit)
		}
		fmt.Fprintf(&sb, ` viewBox="%s %s %s %s">`, c19Num(minx), c19Num(miny), c19Num(vw), c19Num(vh))
		useCSS := kind == "css" || kind == "specificity" || kind == "combinator" || r.Chance(0.25) || (kind == "properties" && r.Chance(0.4))
		if useCSS {
			sb.WriteString("<style>")
			n := r.IntRange(1, 3)
			// rules of one document have equal specificity (classes only or element types only): the parser
			// applies rules in document order and ignores specificity (its TODO; finding
			// F-C19-css-specificity, stratum specificity)
			pool := []string{".a", ".b", ".c"}
			if r.Chance(0.3) {
				pool = []string{"rect", "circle", "path", "ellipse", "polygon"}
			}
			if kind == "specificity" {
				pool = []string{".a", ".b", "rect", "circle", "path", "g .a", ".c", "g rect"}
			}
			if kind == "combinator" {
				// three type selectors joined by child or descendant combinators: equal specificity
				pool = nil
				for len(pool) < 6 {
					a, b := core.PickS(r, []string{"svg", "g"}), "g"
					cmb := func() string { return core.PickS(r, []string{" ", ">"}) }
					pool = append(pool, a+cmb()+b+cmb()+core.PickS(r, []string{"rect", "circle", "path", "ellipse", "polygon", "g"}))
				}
			}
			for k := 0; k < n; k++ {
				sel := core.PickS(r, pool)
				if kind == "properties" && r.Chance(0.4) {
					fmt.Fprintf(&sb, "%s{fill-rule:%s}", sel, core.PickS(r, []string{"evenodd", "nonzero"}))
					continue
				}
				fmt.Fprintf(&sb, "%s{%s:%s}", sel, core.PickS(r, []string{"fill", "fill", "stroke"}), core.PickS(r, c19Colors))
			}
			sb.WriteString("</style>")
		}
		rich := kind == "properties"
		paint := func(attrs *[]string, style *[]string) {
			put := func(k, v string) {
				if r.Chance(0.35) {
					*style = append(*style, k+":"+v)
				} else {
					*attrs = append(*attrs, fmt.Sprintf(`%s="%s"`, k, v))
				}
			}
			if r.Chance(0.7) {
				put("fill", core.PickS(r, append(c19Colors, "none")))
			}
			if r.Chance(0.5) {
				put("stroke", core.PickS(r, c19Colors))
				put("stroke-width", c19Num(core.PickF(r, []float64{1, 2, 0.5, r.Range(0.3, 4)})))
				if r.Chance(0.6) {
					put("stroke-linejoin", "round")
					put("stroke-linecap", "round")
				}
			}
			if rich {
				// every value of the property, the initial ones included: an element can set a property
				// back that an ancestor, a style sheet rule or its own attribute changed
				if r.Chance(0.4) {
					put("fill-rule", core.PickS(r, []string{"evenodd", "nonzero", "nonzero"}))
				}
				if r.Chance(0.5) {
					put("stroke-linejoin", core.PickS(r, []string{"miter", "miter", "bevel", "round"}))
				}
				if r.Chance(0.3) {
					put("stroke-linecap", core.PickS(r, []string{"butt", "square", "round"}))
				}
				if r.Chance(0.4) {
					put("stroke-miterlimit", core.PickS(r, []string{"1.5", "4", "10", "10"}))
				}
			}
			if useCSS && r.Chance(0.6) {
				*attrs = append(*attrs, fmt.Sprintf(`class="%s"`, core.PickS(r, []string{"a", "b", "a b", "c"})))
			}
		}
		transform := func() string {
			var parts []string
			for k := r.IntRange(1, 2); k > 0; k-- {
				switch r.Intn(5) {
				case 0:
					parts = append(parts, fmt.Sprintf("translate(%s %s)", c19Num(r.Range(-20, 20)), c19Num(r.Range(-20, 20))))
				case 1:
					parts = append(parts, fmt.Sprintf("translate(%s)", c19Num(r.Range(-20, 20))))
				case 2:
					parts = append(parts, fmt.Sprintf("scale(%s)", c19Num(r.Range(0.5, 1.5))))
				case 3:
					if r.Bool() {
						parts = append(parts, fmt.Sprintf("rotate(%s)", c19Num(r.Range(-40, 40))))
					} else {
						parts = append(parts, fmt.Sprintf("rotate(%s,%s,%s)", c19Num(r.Range(-90, 90)), c19Num(minx+vw/2), c19Num(miny+vh/2)))
					}
				case 4:
					a := r.Range(-0.5, 0.5)
					s := r.Range(0.7, 1.3)
					parts = append(parts, fmt.Sprintf("matrix(%s %s %s %s %s %s)", c19Num(s*math.Cos(a)), c19Num(s*math.Sin(a)), c19Num(-s*math.Sin(a)), c19Num(s*math.Cos(a)), c19Num(r.Range(-10, 10)), c19Num(r.Range(-10, 10))))
				}
			}
			return strings.Join(parts, " ")
		}
		n := r.IntRange(1, 5)
		for k := 0; k < n; k++ {
			depth := core.PickI(r, []int{0, 0, 1, 2})
			if kind == "combinator" {
				depth = core.PickI(r, []int{1, 2, 3, 3})
			}
			for d := 0; d < depth; d++ {
				var attrs, style []string
				if r.Chance(0.6) {
					attrs = append(attrs, fmt.Sprintf(`transform="%s"`, transform()))
				}
				if r.Chance(0.5) {
					paint(&attrs, &style)
				}
				if len(style) > 0 {
					attrs = append(attrs, fmt.Sprintf(`style="%s"`, strings.Join(style, ";")))
				}
				fmt.Fprintf(&sb, "<g %s>", strings.Join(attrs, " "))
			}
			var attrs, style []string
			cx, cy := minx+vw*r.Range(0.2, 0.8), miny+vh*r.Range(0.2, 0.8)
			sz := math.Min(vw, vh) * r.Range(0.1, 0.3)
			tag := core.PickS(r, []string{"rect", "rect", "circle", "ellipse", "line", "polyline", "polygon", "path", "path"})
			if rich && r.Chance(0.5) {
				tag = core.PickS(r, []string{"star", "rings", "spike", "spike"})
			}
			switch tag {
			case "spike": // an open polyline with a tip of 8-40 degrees: mitre ratios from 2.9 to 14
				tag = "polyline"
				half := r.Range(4, 20) * math.Pi / 180
				dir := r.Range(0, 2*math.Pi)
				l := sz * 1.5
				tip := Pt{cx + l/2*math.Cos(dir), cy + l/2*math.Sin(dir)}
				a := Pt{tip.X - l*math.Cos(dir-half), tip.Y - l*math.Sin(dir-half)}
				b := Pt{tip.X - l*math.Cos(dir+half), tip.Y - l*math.Sin(dir+half)}
				attrs = append(attrs, fmt.Sprintf(`points="%s,%s %s,%s %s,%s" fill="none"`, c19Num(a.X), c19Num(a.Y), c19Num(tip.X), c19Num(tip.Y), c19Num(b.X), c19Num(b.Y)))
				if r.Chance(0.7) {
					attrs = append(attrs, fmt.Sprintf(`stroke="%s" stroke-width="%s"`, core.PickS(r, c19Colors), c19Num(r.Range(0.5, 2))))
				}
			case "star": // pentagram: the inner pentagon has winding number 2
				tag = "polygon"
				var pts []string
				ph := r.Range(0, 2*math.Pi)
				for i := 0; i < 5; i++ {
					a := ph + 2*math.Pi*float64(i*2%5)/5
					pts = append(pts, c19Num(cx+sz*math.Cos(a))+","+c19Num(cy+sz*math.Sin(a)))
				}
				attrs = append(attrs, fmt.Sprintf(`points="%s"`, strings.Join(pts, " ")))
			case "rings": // two squares in each other, in the same or in opposite directions
				tag = "path"
				in := sz * r.Range(0.3, 0.6)
				d := fmt.Sprintf("M%s %sh%sv%sh%sz", c19Num(cx-sz), c19Num(cy-sz), c19Num(2*sz), c19Num(2*sz), c19Num(-2*sz))
				if r.Bool() {
					d += fmt.Sprintf("M%s %sh%sv%sh%sz", c19Num(cx-in), c19Num(cy-in), c19Num(2*in), c19Num(2*in), c19Num(-2*in))
				} else {
					d += fmt.Sprintf("M%s %sv%sh%sv%sz", c19Num(cx-in), c19Num(cy-in), c19Num(2*in), c19Num(2*in), c19Num(-2*in))
				}
				attrs = append(attrs, fmt.Sprintf(`d="%s"`, d))
			case "rect":
				attrs = append(attrs, fmt.Sprintf(`x="%s" y="%s" width="%s" height="%s"`, c19Num(cx-sz), c19Num(cy-sz/2), c19Num(2*sz), c19Num(sz)))
				if r.Chance(0.25) {
					attrs = append(attrs, fmt.Sprintf(`rx="%s"`, c19Num(sz*r.Range(0.1, 0.4))))
				}
			case "circle":
				attrs = append(attrs, fmt.Sprintf(`cx="%s" cy="%s" r="%s"`, c19Num(cx), c19Num(cy), c19Num(sz)))
			case "ellipse":
				attrs = append(attrs, fmt.Sprintf(`cx="%s" cy="%s" rx="%s" ry="%s"`, c19Num(cx), c19Num(cy), c19Num(sz), c19Num(sz*r.Range(0.3, 0.9))))
			case "line":
				attrs = append(attrs, fmt.Sprintf(`x1="%s" y1="%s" x2="%s" y2="%s" stroke="%s" stroke-width="%s"`, c19Num(cx-sz), c19Num(cy-sz*r.Range(-1, 1)), c19Num(cx+sz), c19Num(cy+sz*r.Range(-1, 1)), core.PickS(r, c19Colors), c19Num(r.Range(0.5, 3))))
			case "polyline", "polygon":
				var pts []string
				m := r.IntRange(3, 6)
				for i := 0; i < m; i++ {
					a := 2 * math.Pi * float64(i) / float64(m)
					rad := sz * r.Range(0.5, 1)
					pts = append(pts, c19Num(cx+rad*math.Cos(a))+","+c19Num(cy+rad*math.Sin(a)))
				}
				attrs = append(attrs, fmt.Sprintf(`points="%s"`, strings.Join(pts, " ")))
			case "path":
				p := simpleClosedShape(r, cx, cy, sz, r.Bool())
				if r.Chance(0.3) {
					p = genPath(r, pathOpts{Kinds: kAll, MinSegs: 2, MaxSegs: 4, MaxSubs: 1, Closed: 1, MildCurve: true, CircArcs: true, Scale: sz / 50}).Translate(cx, cy)
				}
				attrs = append(attrs, fmt.Sprintf(`d="%s"`, p.ToSVG()))
			}
			if tag != "line" {
				paint(&attrs, &style)
			}
			if r.Chance(0.3) {
				attrs = append(attrs, fmt.Sprintf(`transform="%s"`, transform()))
			}
			if len(style) > 0 {
				attrs = append(attrs, fmt.Sprintf(`style="%s"`, strings.Join(style, ";")))
			}
			// attribute order is arbitrary
			for i := len(attrs) - 1; i > 0; i-- {
				j := r.Intn(i + 1)
				attrs[i], attrs[j] = attrs[j], attrs[i]
			}
			fmt.Fprintf(&sb, "<%s %s/>", tag, strings.Join(attrs, " "))
			for d := 0; d < depth; d++ {
				sb.WriteString("</g>")
			}
		}
		sb.WriteString("</svg>")
		return &c19Case{SVG: sb.String(), Kind: kind}
	}
}

// genC19RoundTrip: the library's own SVG output for a path drawing.
func genC19RoundTrip(r *core.Rng) any {
	c := genC12("mixed")(r).(*c12Case)
	for i := range c.Draws {
		c.Draws[i].Grad = false
		c.Draws[i].Dashes = nil
		if c.Draws[i].JoinX == 3 || c.Draws[i].JoinX == 4 {
			c.Draws[i].JoinX = 2
		}
	}
	var buf bytes.Buffer
	cv := c12Canvas(c)
	w := svg.New(&buf, cv.W, cv.H, nil)
	cv.RenderTo(w)
	w.Close()
	return &c19Case{SVG: buf.String(), Kind: "roundtrip"}
}

// ---- SVG evaluator (specification semantics) -----------------------------------------------------

type svgProps map[string]string

var svgInherited = []string{"fill", "stroke", "stroke-width", "stroke-linecap", "stroke-linejoin", "stroke-miterlimit", "fill-rule", "stroke-dasharray", "stroke-dashoffset"}

type cssRuleRef struct {
	sel   []string // compound selectors
	child []bool   // child[i]: sel[i] is joined to sel[i-1] by '>' (else by a descendant combinator)
	decls [][2]string
	order int
}

func parseLen(s string) (float64, error) { // user units (px)
	s = strings.TrimSpace(s)
	for suf, f := range map[string]float64{"mm": 96 / 25.4, "cm": 960 / 25.4, "in": 96, "pt": 96.0 / 72, "pc": 16, "px": 1} {
		if strings.HasSuffix(s, suf) {
			v, err := strconv.ParseFloat(strings.TrimSpace(strings.TrimSuffix(s, suf)), 64)
			return v * f, err
		}
	}
	return strconv.ParseFloat(s, 64)
}

func parseSVGColor(s string) (col [4]float64, none bool, err error) {
	s = strings.TrimSpace(strings.ToLower(s))
	named := map[string][3]float64{"red": {255, 0, 0}, "blue": {0, 0, 255}, "green": {0, 128, 0}, "black": {0, 0, 0}, "white": {255, 255, 255}, "purple": {128, 0, 128}, "orange": {255, 165, 0}, "yellow": {255, 255, 0}}
	if s == "none" || s == "transparent" {
		return col, true, nil
	}
	if v, ok := named[s]; ok {
		return [4]float64{v[0], v[1], v[2], 1}, false, nil
	}
	comp := func(t string) (float64, error) {
		t = strings.TrimSpace(t)
		if strings.HasSuffix(t, "%") {
			v, e := strconv.ParseFloat(strings.TrimSuffix(t, "%"), 64)
			return v * 2.55, e
		}
		return strconv.ParseFloat(t, 64)
	}
	if strings.HasPrefix(s, "rgb(") && strings.HasSuffix(s, ")") {
		p := strings.Split(s[4:len(s)-1], ",")
		if len(p) != 3 {
			return col, false, fmt.Errorf("colour %q", s)
		}
		for i := range p {
			v, e := comp(p[i])
			if e != nil {
				return col, false, e
			}
			col[i] = math.Round(v)
		}
		col[3] = 1
		return col, false, nil
	}
	c, n, _, e := parseCSSColor(s)
	return c, n, e
}

func parseTransformList(s string) (aff, error) {
	m := affI
	s = strings.TrimSpace(s)
	for s != "" {
		i := strings.IndexByte(s, '(')
		j := strings.IndexByte(s, ')')
		if i < 0 || j < i {
			return m, fmt.Errorf("transform %q", s)
		}
		name := strings.TrimSpace(s[:i])
		var a []float64
		for _, f := range strings.FieldsFunc(s[i+1:j], func(r rune) bool { return r == ',' || r == ' ' || r == '\t' || r == '\n' }) {
			v, err := strconv.ParseFloat(f, 64)
			if err != nil {
				return m, err
			}
			a = append(a, v)
		}
		var t aff
		switch {
		case name == "matrix" && len(a) == 6:
			t = aff{a[0], a[2], a[4], a[1], a[3], a[5]}
		case name == "translate" && len(a) == 1:
			t = affT(a[0], 0)
		case name == "translate" && len(a) == 2:
			t = affT(a[0], a[1])
		case name == "scale" && len(a) == 1:
			t = affS(a[0], a[0])
		case name == "scale" && len(a) == 2:
			t = affS(a[0], a[1])
		case name == "rotate" && len(a) == 1:
			t = affR(a[0])
		case name == "rotate" && len(a) == 3:
			t = affAbout(affR(a[0]), a[1], a[2])
		case name == "skewX" && len(a) == 1:
			t = aff{1, math.Tan(a[0] * math.Pi / 180), 0, 0, 1, 0}
		case name == "skewY" && len(a) == 1:
			t = aff{1, 0, 0, math.Tan(a[0] * math.Pi / 180), 1, 0}
		default:
			return m, fmt.Errorf("transform %s with %d arguments", name, len(a))
		}
		m = m.mul(t)
		s = strings.TrimLeft(s[j+1:], " ,\t\n")
	}
	return m, nil
}

// evalSVG evaluates the document: canvas size in mm and the painted primitives in canvas space.
func evalSVG(doc string, eps float64) (W, H float64, prims []c12Prim, err error) {
	dec := xml.NewDecoder(strings.NewReader(doc))
	type frame struct {
		ctm   aff
		props svgProps
		tag   string
		class []string
	}
	var stack []frame
	var rules []cssRuleRef
	var toCanvas aff
	var unitScale float64
	haveRoot := false
	for {
		tok, e := dec.Token()
		if e != nil {
			break
		}
		switch se := tok.(type) {
		case xml.EndElement:
			if len(stack) > 0 {
				stack = stack[:len(stack)-1]
			}
		case xml.StartElement:
			attr := map[string]string{}
			for _, a := range se.Attr {
				attr[a.Name.Local] = a.Value
			}
			tag := se.Name.Local
			if tag == "style" {
				var text string
				if t2, e := dec.Token(); e == nil {
					if cd, ok := t2.(xml.CharData); ok {
						text = string(cd)
					}
				}
				for k, blk := range strings.Split(text, "}") {
					parts := strings.SplitN(blk, "{", 2)
					if len(parts) != 2 {
						continue
					}
					rule := cssRuleRef{order: k}
					for _, tk := range strings.Fields(strings.ReplaceAll(parts[0], ">", " > ")) {
						if tk == ">" {
							rule.child = append(rule.child, true)
							continue
						}
						rule.sel = append(rule.sel, tk)
						if len(rule.child) < len(rule.sel) {
							rule.child = append(rule.child, false)
						}
					}
					for _, d := range strings.Split(parts[1], ";") {
						if kv := strings.SplitN(d, ":", 2); len(kv) == 2 {
							rule.decls = append(rule.decls, [2]string{strings.TrimSpace(kv[0]), strings.TrimSpace(kv[1])})
						}
					}
					rules = append(rules, rule)
				}
				stack = append(stack, frame{tag: "style"})
				continue
			}
			parent := frame{ctm: affI, props: svgProps{}}
			if len(stack) > 0 {
				parent = stack[len(stack)-1]
			}
			fr := frame{ctm: parent.ctm, props: svgProps{}, tag: tag, class: strings.Fields(attr["class"])}
			for _, k := range svgInherited {
				if v, ok := parent.props[k]; ok {
					fr.props[k] = v
				}
			}
			if tag == "svg" && !haveRoot {
				haveRoot = true
				vb := strings.FieldsFunc(attr["viewBox"], func(r rune) bool { return r == ' ' || r == ',' })
				if len(vb) != 4 {
					return 0, 0, nil, fmt.Errorf("viewBox %q", attr["viewBox"])
				}
				var v [4]float64
				for i := range vb {
					v[i], _ = strconv.ParseFloat(vb[i], 64)
				}
				wpx, hpx := v[2], v[3] // absent width/height: 100% of the viewBox in px
				if a, ok := attr["width"]; ok && !strings.HasSuffix(strings.TrimSpace(a), "%") {
					if wpx, err = parseLen(a); err != nil {
						return 0, 0, nil, err
					}
				}
				if a, ok := attr["height"]; ok && !strings.HasSuffix(strings.TrimSpace(a), "%") {
					if hpx, err = parseLen(a); err != nil {
						return 0, 0, nil, err
					}
				}
				W, H = wpx*25.4/96, hpx*25.4/96
				sx, sy := W/v[2], H/v[3]
				unitScale = math.Sqrt(sx * sy)
				// user (y down) -> canvas mm (y up)
				toCanvas = aff{sx, 0, -v[0] * sx, 0, -sy, H + v[1]*sy}
				stack = append(stack, fr)
				continue
			}
			// properties: presentation attributes < CSS rules (by specificity, then order) < style attribute
			for k, v := range attr {
				switch k {
				case "fill", "stroke", "stroke-width", "stroke-linecap", "stroke-linejoin", "stroke-miterlimit", "fill-rule", "stroke-dasharray", "stroke-dashoffset":
					fr.props[k] = v
				}
			}
			type hit struct {
				spec, order int
				decls       [][2]string
			}
			var hits []hit
			for _, rule := range rules {
				if len(rule.sel) == 0 {
					continue
				}
				match := func(sel string, f frame) bool {
					if strings.HasPrefix(sel, ".") {
						for _, c := range f.class {
							if c == sel[1:] {
								return true
							}
						}
						return false
					}
					return sel == f.tag || sel == "*"
				}
				if !match(rule.sel[len(rule.sel)-1], fr) {
					continue
				}
				// ancestors, right to left with backtracking
				var up func(si, k int) bool
				up = func(si, k int) bool { // sel[si] must match an ancestor at or above stack[k] as the combinator of sel[si+1] allows
					if si < 0 {
						return true
					}
					if rule.child[si+1] {
						return k >= 0 && match(rule.sel[si], stack[k]) && up(si-1, k-1)
					}
					for ; k >= 0; k-- {
						if match(rule.sel[si], stack[k]) && up(si-1, k-1) {
							return true
						}
					}
					return false
				}
				if !up(len(rule.sel)-2, len(stack)-1) {
					continue
				}
				spec := 0
				for _, s := range rule.sel {
					if strings.HasPrefix(s, ".") {
						spec += 10
					} else if s != "*" {
						spec++
					}
				}
				hits = append(hits, hit{spec, rule.order, rule.decls})
			}
			for i := 1; i < len(hits); i++ { // insertion sort by (specificity, order)
				for j := i; j > 0 && (hits[j].spec < hits[j-1].spec || (hits[j].spec == hits[j-1].spec && hits[j].order < hits[j-1].order)); j-- {
					hits[j], hits[j-1] = hits[j-1], hits[j]
				}
			}
			for _, h := range hits {
				for _, d := range h.decls {
					fr.props[d[0]] = d[1]
				}
			}
			for _, d := range strings.Split(attr["style"], ";") {
				if kv := strings.SplitN(d, ":", 2); len(kv) == 2 {
					fr.props[strings.TrimSpace(kv[0])] = strings.TrimSpace(kv[1])
				}
			}
			if t, ok := attr["transform"]; ok {
				m, e := parseTransformList(t)
				if e != nil {
					return 0, 0, nil, e
				}
				fr.ctm = fr.ctm.mul(m)
			}
			stack = append(stack, fr)
			// geometry
			num := func(k string) float64 { v, _ := parseLen(attr[k]); return v }
			var subs []geom.Sub
			closedForFill := true
			ell := func(cx, cy, rx, ry float64) []geom.Sub {
				p := canvas.Ellipse(rx, ry).Translate(cx, cy) // geometry only: decoded by the reference decoder
				s, _ := geom.Decode(p.Data())
				return s
			}
			switch tag {
			case "rect":
				x, y, w, h := num("x"), num("y"), num("width"), num("height")
				rx, ry := num("rx"), num("ry")
				if _, ok := attr["rx"]; !ok {
					rx = ry
				}
				if _, ok := attr["ry"]; !ok {
					ry = rx
				}
				rx, ry = math.Min(rx, w/2), math.Min(ry, h/2)
				if w <= 0 || h <= 0 {
					continue
				}
				var d string
				if rx > 0 && ry > 0 {
					d = fmt.Sprintf("M%g %gH%gA%g %g 0 0 1 %g %gV%gA%g %g 0 0 1 %g %gH%gA%g %g 0 0 1 %g %gV%gA%g %g 0 0 1 %g %gz", x+rx, y, x+w-rx, rx, ry, x+w, y+ry, y+h-ry, rx, ry, x+w-rx, y+h, x+rx, rx, ry, x, y+h-ry, y+ry, rx, ry, x+rx, y)
				} else {
					d = fmt.Sprintf("M%g %gH%gV%gH%gz", x, y, x+w, y+h, x)
				}
				subs, _ = refsyn.ParseSVGPath(d)
			case "circle":
				if num("r") <= 0 {
					continue
				}
				subs = ell(num("cx"), num("cy"), num("r"), num("r"))
			case "ellipse":
				if num("rx") <= 0 || num("ry") <= 0 {
					continue
				}
				subs = ell(num("cx"), num("cy"), num("rx"), num("ry"))
			case "line":
				subs, _ = refsyn.ParseSVGPath(fmt.Sprintf("M%g %gL%g %g", num("x1"), num("y1"), num("x2"), num("y2")))
				closedForFill = false
			case "polyline", "polygon":
				f := strings.FieldsFunc(attr["points"], func(r rune) bool { return r == ',' || r == ' ' || r == '\n' || r == '\t' })
				d := ""
				for i := 0; i+1 < len(f); i += 2 {
					if i == 0 {
						d += "M" + f[i] + " " + f[i+1]
					} else {
						d += "L" + f[i] + " " + f[i+1]
					}
				}
				if tag == "polygon" {
					d += "z"
				}
				subs, _ = refsyn.ParseSVGPath(d)
			case "path":
				var e error
				subs, e = refsyn.ParseSVGPath(attr["d"])
				if e != nil {
					return 0, 0, nil, e
				}
			default:
				continue
			}
			m := toCanvas.mul(fr.ctm)
			tr := func(p Pt) Pt { return m.dot(p) }
			epsU := eps / math.Max(m.sigmaMin(), 1e-9)
			get := func(k, def string) string {
				if v, ok := fr.props[k]; ok {
					return v
				}
				return def
			}
			if col, none, e := parseSVGColor(get("fill", "black")); e != nil {
				return 0, 0, nil, e
			} else if !none && closedForFill && col[3] > 0 {
				pr := c12Prim{fill: subsToPolys(subs, epsU, true, tr), col: col}
				if get("fill-rule", "nonzero") == "evenodd" {
					pr.rule = 1
				}
				prims = append(prims, pr)
			}
			if col, none, e := parseSVGColor(get("stroke", "none")); e != nil {
				return 0, 0, nil, e
			} else if !none && col[3] > 0 {
				w, e := parseLen(get("stroke-width", "1"))
				if e != nil {
					return 0, 0, nil, e
				}
				lim, _ := strconv.ParseFloat(get("stroke-miterlimit", "4"), 64)
				sc := math.Sqrt(math.Abs(m.det()))
				pr := c12Prim{line: subsToPolys(subs, epsU, false, tr), hw: w * sc / 2, limit: lim, col: col}
				pr.cap = map[string]int{"butt": 0, "round": 1, "square": 2}[get("stroke-linecap", "butt")]
				pr.join = map[string]int{"miter": 0, "round": 1, "bevel": 2, "arcs": 3, "miter-clip": 0}[get("stroke-linejoin", "miter")]
				if w > 0 {
					prims = append(prims, pr)
				}
			}
			_ = unitScale
		}
	}
	if !haveRoot {
		return 0, 0, nil, fmt.Errorf("no svg element")
	}
	return W, H, prims, nil
}

// ---- check ---------------------------------------------------------------------------------------

// c19LibPrims turns the calls a renderer receives from the parsed canvas into primitives.
func c19LibPrims(calls []c15Call, eps float64, o *core.Obs) ([]c12Prim, bool) {
	var prims []c12Prim
	for _, cl := range calls {
		if cl.Kind != "path" {
			continue
		}
		m := affOf(cl.M)
		subs, err := geom.Decode(cl.Data)
		if err != nil {
			o.Fail("lib-path", "ParseSVG recorded a path that does not decode: %v", err)
			return nil, false
		}
		tr := func(p Pt) Pt { return m.dot(p) }
		epsU := eps / math.Max(m.sigmaMin(), 1e-9)
		toCol := func(c canvas.Paint) [4]float64 {
			a := float64(c.Color.A) / 255
			if a == 0 {
				return [4]float64{}
			}
			return [4]float64{float64(c.Color.R) / a, float64(c.Color.G) / a, float64(c.Color.B) / a, a}
		}
		st := cl.Style
		if st.HasFill() {
			prims = append(prims, c12Prim{fill: subsToPolys(subs, epsU, true, tr), rule: int(st.FillRule), col: toCol(st.Fill), grad: st.Fill.IsGradient()})
		}
		if st.HasStroke() {
			sc := math.Sqrt(math.Abs(m.det()))
			pr := c12Prim{line: subsToPolys(subs, epsU, false, tr), hw: st.StrokeWidth * sc / 2, col: toCol(st.Stroke), limit: 4}
			switch st.StrokeCapper.(type) {
			case canvas.RoundCapper:
				pr.cap = 1
			case canvas.SquareCapper:
				pr.cap = 2
			}
			switch j := st.StrokeJoiner.(type) {
			case canvas.RoundJoiner:
				pr.join = 1
			case canvas.BevelJoiner:
				pr.join = 2
			case canvas.ArcsJoiner:
				pr.join = 3
			case canvas.MiterJoiner:
				pr.limit = j.Limit
			}
			for _, d := range st.Dashes {
				pr.dashes = append(pr.dashes, d*st.StrokeWidth*sc)
			}
			pr.dashOff = st.DashOffset * st.StrokeWidth * sc
			prims = append(prims, pr)
		}
	}
	return prims, true
}

func c19Check(ci any, o *core.Obs) {
	c := ci.(*c19Case)
	checkGlobals(o)
	var cv *canvas.Canvas
	var perr error
	if !o.Call("ParseSVG", func() { cv, perr = canvas.ParseSVG(strings.NewReader(c.SVG)) }) {
		return
	}
	o.NonTrivial()
	fail := func(tag, format string, a ...any) { o.Fail(tag, format+"; document: %s", append(a, c.SVG)...) }
	if perr != nil || cv == nil {
		fail("parse-error", "ParseSVG rejects the document: %v", perr)
		return
	}
	W, H, model, err := evalSVG(c.SVG, 0.002)
	if err != nil {
		o.Skip("the reference evaluator does not read this document: " + err.Error())
		return
	}
	o.Decided(1)
	if math.Abs(cv.W-W) > 1e-6*(1+W) || math.Abs(cv.H-H) > 1e-6*(1+H) {
		fail("size", "the canvas measures %.6gx%.6g mm, the document specifies %.6gx%.6g mm", cv.W, cv.H, W, H)
		return
	}
	rec := &c15Recorder{w: cv.W, h: cv.H}
	cv.RenderTo(rec)
	lib, ok := c19LibPrims(rec.calls, 0.002, o)
	if !ok {
		return
	}
	for k := range model {
		model[k].prepare()
		model[k].makeBoxes()
	}
	for k := range lib {
		lib[k].prepare()
		lib[k].makeBoxes()
	}
	o.Count("shapes_in_documents", float64(len(model)))
	mg := 0.02 * math.Sqrt(W*H) / 10 // a fifth of a percent of the canvas
	r := caseRng(c, "points")
	var samples []Pt
	for k := 0; k < 100; k++ {
		samples = append(samples, Pt{X: r.Range(0, W), Y: r.Range(0, H)})
	}
	for _, pr := range model {
		polys := pr.fill
		if polys == nil {
			polys = pr.line
		}
		for _, poly := range polys {
			for k := 0; k < 25 && len(poly.V) > 1; k++ {
				vi := r.Intn(len(poly.V) - 1)
				a, b := poly.V[vi].P, poly.V[vi+1].P
				p := a.Lerp(b, r.Float())
				n := Pt{X: -(b.Y - a.Y), Y: b.X - a.X}
				if l := n.Len(); l > 0 {
					n = n.Mul(1 / l)
				}
				off := mg * r.Range(1.2, 4)
				if pr.line != nil {
					off = core.PickF(r, []float64{0, pr.hw - 1.5*mg, pr.hw + 1.5*mg, pr.hw * r.Range(0, 1.5)})
				}
				if r.Bool() {
					off = -off
				}
				samples = append(samples, p.Add(n.Mul(off)))
			}
			// beyond the corners of stroked lines, along the outward bisector: where the join type and the
			// miter limit decide
			if pr.line != nil {
				nv := len(poly.V)
				for i := 1; i+1 < nv && i < 40; i++ {
					u, w := poly.V[i].P.Sub(poly.V[i-1].P), poly.V[i+1].P.Sub(poly.V[i].P)
					if u.Len() == 0 || w.Len() == 0 {
						continue
					}
					b := u.Mul(1 / u.Len()).Sub(w.Mul(1 / w.Len()))
					if b.Len() < 0.3 {
						continue // nearly straight
					}
					b = b.Mul(1 / b.Len())
					for _, d := range []float64{1.3, 2, 3, 5, 8} {
						samples = append(samples, poly.V[i].P.Add(b.Mul(pr.hw*d*r.Range(0.9, 1.1))))
					}
				}
			}
		}
	}
	eval := func(prims []c12Prim, q Pt) (exp [4]float64, known, painted bool, trace string) {
		known = true
		for k := range prims {
			pr := &prims[k]
			switch pr.cover(q, mg) {
			case covAmb:
				return exp, false, painted, trace
			case covIn:
				painted = true
				trace += fmt.Sprintf(" #%d", k)
				a := pr.col[3]
				src := [4]float64{pr.col[0] * a, pr.col[1] * a, pr.col[2] * a, 255 * a}
				for ch := 0; ch < 4; ch++ {
					exp[ch] = src[ch] + exp[ch]*(1-a)
				}
			}
		}
		return
	}
	judged := 0
	for _, q := range samples {
		me, mk, mp, mt := eval(model, q)
		le, lk, lp, lt := eval(lib, q)
		if !mk || !lk {
			continue
		}
		judged++
		o.Decided(1)
		if mp != lp {
			tag := "missing"
			if lp {
				tag = "extra"
			}
			fail(tag, "at canvas point (%.5g,%.5g) the document paints=%v (shapes%s), the parsed canvas paints=%v (draws%s)", q.X, q.Y, mp, mt, lp, lt)
			return
		}
		if mp {
			worst := 0.0
			for ch := 0; ch < 4; ch++ {
				worst = math.Max(worst, math.Abs(me[ch]-le[ch]))
			}
			if worst > 3 {
				fail("colour", "at canvas point (%.5g,%.5g) the document paints premultiplied (%.0f,%.0f,%.0f,%.0f) (shapes%s), the parsed canvas (%.0f,%.0f,%.0f,%.0f) (draws%s)", q.X, q.Y, me[0], me[1], me[2], me[3], mt, le[0], le[1], le[2], le[3], lt)
				return
			}
		}
	}
	o.Count("points_judged", float64(judged))
}

func c19Describe(ci any) any { return map[string]any{"svg": ci.(*c19Case).SVG} }

func init() {
	core.Register(&core.Property{
		ID:    "C19",
		Title: "Imported SVG documents draw the geometry the SVG specifies",
		Rule: "documents with width/height in mm, cm, in, pt, px or unitless (or absent), viewBox with zero or non-zero origin, 1-5 shapes (rect incl. rounded, circle, ellipse, line, polyline, polygon, path with all command kinds) inside 0-2 nested groups with translate/scale/rotate/matrix transforms, paint given by presentation attributes, style attributes, inherited group properties and <style> rules (type, class and descendant selectors), in arbitrary attribute order; " +
			"a reference evaluator written from the SVG specification yields the canvas size and the painted primitives; the canvas returned by ParseSVG is replayed to a recording renderer and compared at 100 uniform points plus 25 per contour (fills by exact winding, strokes by exact stroke regions; margin 0.2% of the canvas); stratum roundtrip: the library's own SVG output of C12's drawings",
		Strata: []core.Stratum{
			{Name: "documents", Quick: 1200, Thorough: 40000, Gen: genC19("documents")},
			{Name: "sizes", Quick: 400, Thorough: 8000, Gen: genC19("sizes"), Note: "width and height independently absolute, 100% or absent"},
			{Name: "properties", Quick: 600, Thorough: 15000, Gen: genC19("properties"), Note: "fill-rule, line join, line cap and miter limit with every value (the initial ones included) on groups, elements, style attributes and style sheet rules; pentagrams and nested squares"},
			{Name: "viewbox", Quick: 400, Thorough: 10000, Gen: genC19("viewbox")},
			{Name: "css", Quick: 400, Thorough: 10000, Gen: genC19("css")},
			{Name: "roundtrip", Quick: 400, Thorough: 10000, Gen: genC19RoundTrip},
			{Name: "combinator", Quick: 500, Thorough: 10000, Gen: genC19("combinator")},
			{Name: "specificity", Quick: 300, Thorough: 5000, Gen: genC19("specificity"), WitnessOnly: true, Note: "style sheets whose rules differ in specificity (type vs class vs descendant selectors): the parser applies rules in document order only"},
		},
		NewCase:  func() any { return &c19Case{} },
		Check:    c19Check,
		Describe: c19Describe,
		Assumptions: []string{
			"the evaluator implements SVG 1.1 sections 7 (coordinate systems, transforms, viewBox with equal aspect ratios), 9 (basic shapes), 11 (painting) and CSS cascade order (presentation attributes < rules by specificity and order < style attribute)",
			"width/height are converted at 96 px per inch as CSS defines",
		},
	})
}
