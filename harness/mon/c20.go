package mon

import (
	"bufio"
	"bytes"
	"compress/zlib"
	"crypto/sha256"
	"encoding/base64"
	"encoding/hex"
	"encoding/json"
	"fmt"
	"image"
	"image/color"
	"io"
	"math"
	"os"
	"os/exec"
	"path/filepath"
	"regexp"
	"runtime"
	"sort"
	"strings"
	"sync"
	"sync/atomic"
	"time"

	"github.com/tdewolff/canvas"
	"github.com/tdewolff/canvas/renderers/pdf"
	"github.com/tdewolff/canvas/renderers/ps"
	"github.com/tdewolff/canvas/renderers/rasterizer"
	"github.com/tdewolff/canvas/renderers/svg"

	"verif/core"
)

// ---- workload ------------------------------------------------------------------------------------

// c20Call is one library call on inputs of its own; Run returns a digest of everything the call
// returns. Calls never share mutable inputs; the loaded font is shared on purpose.
type c20Call struct {
	Name string // operation class, e.g. "Path.And"
	Run  func() string
}

func digestFloats(d []float64) string {
	h := sha256.New()
	var b [8]byte
	for _, v := range d {
		u := math.Float64bits(v)
		for i := 0; i < 8; i++ {
			b[i] = byte(u >> (8 * i))
		}
		h.Write(b[:])
	}
	return hex.EncodeToString(h.Sum(nil)[:8])
}

func digestBytes(b []byte) string {
	if dir := os.Getenv("VERIF_C20_DUMP"); dir != "" {
		// development aid: keep the raw outputs for diffing
		c20DumpN++
		os.WriteFile(filepath.Join(dir, fmt.Sprintf("out-%04d", c20DumpN)), b, 0o644)
	}
	h := sha256.Sum256(b)
	return hex.EncodeToString(h[:8])
}

var c20DumpN int

// The font writer of the dependency stamps time.Now() into the head table of every font it
// serialises (SVG embeds the font base64-encoded, PDF in a deflated stream). normalizeFonts undoes
// the encodings and zeroes head.modified, head.checkSumAdjustment and the directory checksum of
// head, so that the digests do not depend on the wall clock.
var c20B64Re = regexp.MustCompile(`base64,([A-Za-z0-9+/=]+)`)

func zeroHeadStamps(b []byte) []byte {
	b = append([]byte(nil), b...)
	for from := 0; ; {
		k := bytes.Index(b[from:], []byte("head"))
		if k < 0 {
			break
		}
		idx := from + k
		from = idx + 4
		if idx+16 > len(b) {
			break
		}
		off := int(b[idx+8])<<24 | int(b[idx+9])<<16 | int(b[idx+10])<<8 | int(b[idx+11])
		length := int(b[idx+12])<<24 | int(b[idx+13])<<16 | int(b[idx+14])<<8 | int(b[idx+15])
		if length != 54 {
			continue
		}
		for i := 0; i < 64; i++ {
			start := idx - 12 - 16*i
			if start < 0 {
				break
			}
			sig := string(b[start : start+4])
			if sig != "\x00\x01\x00\x00" && sig != "OTTO" && sig != "true" {
				continue
			}
			if n := int(b[start+4])<<8 | int(b[start+5]); n <= i {
				continue
			}
			hs := start + off
			if hs+54 > len(b) || !(b[hs+12] == 0x5F && b[hs+13] == 0x0F && b[hs+14] == 0x3C && b[hs+15] == 0xF5) {
				continue
			}
			for j := idx + 4; j < idx+8; j++ {
				b[j] = 0
			}
			for j := hs + 8; j < hs+12; j++ {
				b[j] = 0
			}
			for j := hs + 28; j < hs+36; j++ {
				b[j] = 0
			}
			break
		}
	}
	return b
}

func normalizeFonts(b []byte) []byte {
	// base64 payloads (SVG)
	b = c20B64Re.ReplaceAllFunc(b, func(m []byte) []byte {
		raw, err := base64.StdEncoding.DecodeString(string(m[7:]))
		if err != nil {
			return m
		}
		return append([]byte("base64-decoded,"), zeroHeadStamps(raw)...)
	})
	// deflated streams (PDF)
	var out []byte
	for {
		k := bytes.Index(b, []byte(">>stream\n"))
		if k < 0 {
			break
		}
		k += 2
		e := bytes.Index(b[k:], []byte("\nendstream"))
		if e < 0 {
			break
		}
		data := b[k+7 : k+e]
		out = append(out, b[:k+7]...)
		if zr, err := zlib.NewReader(bytes.NewReader(data)); err == nil {
			if raw, err := io.ReadAll(zr); err == nil {
				data = raw
			}
		}
		out = append(out, zeroHeadStamps(data)...)
		b = b[k+e:]
	}
	out = append(out, b...)
	// the deflated length of a font stream and with it all following object offsets depend on the stamp
	out = c20LenRe.ReplaceAll(out, []byte("/Length N"))
	out = c20XrefRe.ReplaceAll(out, []byte("offset"))
	return out
}

var c20LenRe = regexp.MustCompile(`/Length \d+`)
var c20XrefRe = regexp.MustCompile(`(?m)^\d{10} \d{5} [nf] *$|startxref\n\d+`)

var c20DateRe = regexp.MustCompile(`D:\d{14}[^)]*`)
var c20PSDateRe = regexp.MustCompile(`%%CreationDate: [^\n]*`)

type c20Fonts struct {
	ttf      []byte
	family   *canvas.FontFamily
	nonameOK bool
	noname   []byte
}

func repoDir() string {
	if r := os.Getenv("VERIF_REPO"); r != "" {
		return r
	}
	return "/repo"
}

// stripNames returns a copy of a TrueType font whose name table has no family, full or PostScript
// name (LoadFont then assigns a generated name from the package-level counter).
func stripNames(ttf []byte) []byte {
	b := append([]byte(nil), ttf...)
	if len(b) < 12 {
		return nil
	}
	n := int(b[4])<<8 | int(b[5])
	for i := 0; i < n; i++ {
		e := 12 + 16*i
		if e+16 > len(b) {
			return nil
		}
		if string(b[e:e+4]) == "name" {
			off := int(b[e+8])<<24 | int(b[e+9])<<16 | int(b[e+10])<<8 | int(b[e+11])
			if off+6 > len(b) {
				return nil
			}
			// move every record to a name id outside 1, 4 and 6
			cnt := int(b[off+2])<<8 | int(b[off+3])
			for k := 0; k < cnt; k++ {
				r := off + 6 + 12*k
				if r+12 > len(b) {
					return nil
				}
				b[r+6], b[r+7] = 1, byte(k)
			}
			return b
		}
	}
	return nil
}

func loadC20Fonts() (*c20Fonts, error) {
	f := &c20Fonts{}
	b, err := os.ReadFile(filepath.Join(repoDir(), "resources", "DejaVuSerif.ttf"))
	if err != nil {
		return nil, err
	}
	f.ttf = b
	f.family = canvas.NewFontFamily("dejavu")
	if err := f.family.LoadFont(b, 0, canvas.FontRegular); err != nil {
		return nil, err
	}
	if nn := stripNames(b); nn != nil {
		if _, err := canvas.LoadFont(nn, 0, canvas.FontRegular); err == nil {
			f.noname, f.nonameOK = nn, true
		}
	}
	return f, nil
}

// c20Workload builds the fixed list of calls from the seed.
func c20Workload(seed int64, fonts *c20Fonts, reps int, sharedPDF bool) []c20Call {
	ownFamily := func() *canvas.FontFamily {
		f := canvas.NewFontFamily("dejavu")
		f.LoadFont(fonts.ttf, 0, canvas.FontRegular)
		return f
	}
	var calls []c20Call
	add := func(name string, run func() string) { calls = append(calls, c20Call{name, run}) }
	for rep := 0; rep < reps; rep++ {
		// boolean operations and Settle on generated operands (fresh copies per call)
		for i := 0; i < 8; i++ {
			r := core.NewRng(seed, "C20", "bool", rep*100+i)
			var c *c01Case
			if i%2 == 0 {
				c = genC01Simple(r).(*c01Case)
			} else {
				c = genC01Grid(r).(*c01Case)
			}
			P, Q := c.P, c.Q
			add("Path.And", func() string { return digestFloats(pathFrom(P).And(pathFrom(Q)).Data()) })
			add("Path.Or", func() string { return digestFloats(pathFrom(P).Or(pathFrom(Q)).Data()) })
			add("Path.Xor", func() string { return digestFloats(pathFrom(P).Xor(pathFrom(Q)).Data()) })
			add("Path.Not", func() string { return digestFloats(pathFrom(P).Not(pathFrom(Q)).Data()) })
			if i < 3 {
				add("Path.DivideBy", func() string {
					defer func() { recover() }() // a known panic class; the digest of a panic is "panic"
					return digestFloats(pathFrom(P).DivideBy(pathFrom(Q)).Data())
				})
			}
			rule := rules[i%4]
			add("Path.Settle", func() string { return digestFloats(pathFrom(P).Settle(rule).Data()) })
		}
		for i := 0; i < 6; i++ {
			r := core.NewRng(seed, "C20", "geom", rep*100+i)
			p := genPath(r, pathOpts{Kinds: kAll, MaxSegs: 5, MaxSubs: 2, Closed: 2, MildCurve: true, CircArcs: true})
			d := dataCopy(p)
			w := r.Range(0.5, 4)
			// tolerances other than the package default as well: an operation must not leave its argument
			// behind in a package tunable
			tol := core.PickF(r, []float64{0.01, 0.01, 0.05, 0.002, 0.5})
			add("Path.Stroke", func() string {
				return digestFloats(pathFrom(d).Stroke(w, canvas.RoundCap, canvas.RoundJoin, tol).Data())
			})
			add("Path.Flatten", func() string { return digestFloats(pathFrom(d).Flatten(tol).Data()) })
			add("Path.Dash", func() string { return digestFloats(pathFrom(d).Dash(0.5, 2, 1, 0.5, 1).Data()) })
			q := dataCopy(simpleClosedShape(r, 0, 0, r.Range(5, 20), r.Bool()))
			add("Path.Offset", func() string { return digestFloats(pathFrom(q).Offset(w/2, tol).Data()) })
			circ := dataCopy(canvas.Circle(r.Range(3, 12)))
			add("Path.Settle(curved)", func() string { return digestFloats(pathFrom(circ).Settle(canvas.NonZero).Data()) })
		}
		// text layout on the shared font
		texts := []string{"The quick brown fox jumps over the lazy dog.", "Lorem ipsum dolor sit amet, consectetur adipiscing elit, sed do eiusmod tempor.", "AVATAR Wavy Toast fi fl ffi", "Zwölf Boxkämpfer jagen Viktor quer über den großen Sylter Deich"}
		for i, s := range texts {
			s := s
			width := 30.0 + 10*float64(i)
			size := 10.0 + float64(i)
			add("NewTextBox", func() string {
				face := fonts.family.Face(size, canvas.Black, canvas.FontRegular, canvas.FontNormal)
				t := canvas.NewTextBox(face, s, width, 0, canvas.Justify, canvas.Top, 0, 0)
				var sb strings.Builder
				t.WalkSpans(func(x, y float64, span canvas.TextSpan) {
					fmt.Fprintf(&sb, "%x %x %q|", math.Float64bits(x), math.Float64bits(y), span.Text)
					for _, g := range span.Glyphs {
						fmt.Fprintf(&sb, "%d,%d;", g.ID, g.XAdvance)
					}
				})
				return digestBytes([]byte(sb.String()))
			})
		}
		// text decorations and text converted to paths (font.go decorators, text.go RenderAsPath)
		decos := []canvas.FontDecorator{canvas.FontUnderline, canvas.FontOverline, canvas.FontStrikethrough, canvas.FontDoubleUnderline, canvas.FontDottedUnderline, canvas.FontDashedUnderline, canvas.FontWavyUnderline, canvas.FontSineUnderline, canvas.FontSawtoothUnderline}
		for i, deco := range decos {
			deco := deco
			size := 10.0 + float64(i%3)
			add("Text.RenderAsPath", func() string {
				face := fonts.family.Face(size, canvas.Black, canvas.FontRegular, canvas.FontNormal, deco)
				t := canvas.NewTextBox(face, "Decorated words of text, wide enough for several dashes", 60, 0, canvas.Left, canvas.Top, 0, 0)
				rec := &c15Recorder{w: 100, h: 100}
				t.RenderAsPath(rec, canvas.Identity, canvas.DPMM(10))
				var all []float64
				for _, c := range rec.calls {
					all = append(all, c.Data...)
					all = append(all, c.M[0][0], c.M[0][1], c.M[0][2], c.M[1][0], c.M[1][1], c.M[1][2])
				}
				return digestFloats(all)
			})
		}
		// font loading
		for i := 0; i < 3; i++ {
			add("LoadFont", func() string {
				f, err := canvas.LoadFont(fonts.ttf, 0, canvas.FontRegular)
				if err != nil {
					return "err:" + err.Error()
				}
				return fmt.Sprintf("%s/%d", f.Name(), f.SFNT.NumGlyphs())
			})
			if fonts.nonameOK {
				add("LoadFont(noname)", func() string {
					f, err := canvas.LoadFont(fonts.noname, 0, canvas.FontRegular)
					if err != nil {
						return "err:" + err.Error()
					}
					// the generated name embeds the global counter: by design it differs between calls;
					// only its shape and the font are part of the result. Every load must get a name of its
					// own, though: the names of one process are collected and compared at its end
					c20NonameMu.Lock()
					c20NonameSeen[f.Name()]++
					c20NonameMu.Unlock()
					return fmt.Sprintf("%v/%d", strings.HasPrefix(f.Name(), "f"), f.SFNT.NumGlyphs())
				})
			}
		}
		// face selection in a family of two styles when the requested style lies exactly between them
		// (a Regular subscript face asks for SemiBold): the choice must not depend on anything but the
		// arguments
		for i := 0; i < 3; i++ {
			add("FontFamily.Face(tie)", func() string {
				fam := canvas.NewFontFamily("two-styles")
				if err := fam.LoadFont(fonts.ttf, 0, canvas.FontRegular); err != nil {
					return "err:" + err.Error()
				}
				if err := fam.LoadFont(fonts.ttf, 0, canvas.FontBold); err != nil {
					return "err:" + err.Error()
				}
				face := fam.Face(10, canvas.Black, canvas.FontRegular, canvas.FontSubscript)
				return fmt.Sprintf("faux bold %.4f faux italic %.4f", face.FauxBold, face.FauxItalic)
			})
		}
		// faces of styles the shared family has not loaded: faux bold / faux italic are computed per call and
		// the family must not change by being asked
		for _, st := range []canvas.FontStyle{canvas.FontBold | canvas.FontItalic, canvas.FontBold, canvas.FontSemiBold} {
			st := st
			add("FontFamily.Face(faux)", func() string {
				face := fonts.family.Face(12, canvas.Black, st, canvas.FontNormal)
				sub := fonts.family.Face(12, canvas.Black, canvas.FontRegular, canvas.FontSubscript)
				p, w, err := face.ToPath("faux")
				if err != nil {
					return "err:" + err.Error()
				}
				return fmt.Sprintf("bold %.4f italic %.4f sub %.4f width %.6f %s", face.FauxBold, face.FauxItalic, sub.FauxBold, w, digestFloats(p.Data()))
			})
		}
		// rendering of distinct canvases
		for i := 0; i < 4; i++ {
			i := i
			build := func(family *canvas.FontFamily) *canvas.Canvas {
				r := core.NewRng(seed, "C20", "canvas", rep*100+i)
				c := canvas.New(60, 40)
				ctx := canvas.NewContext(c)
				ctx.SetFillColor(color.RGBA{uint8(50 * i), 100, 200, 255})
				ctx.DrawPath(10, 10, simpleClosedShape(r, 0, 0, 8, true))
				ctx.SetFillColor(canvas.Transparent)
				ctx.SetStrokeColor(canvas.Black)
				ctx.SetStrokeWidth(0.7)
				ctx.SetDashes(0, 2, 1)
				ctx.DrawPath(30, 20, genPath(r, pathOpts{Kinds: kAll, MaxSegs: 4, MaxSubs: 1, Closed: 2, MildCurve: true, CircArcs: true, Scale: 0.2}))
				face := family.Face(8, canvas.Black, canvas.FontRegular, canvas.FontNormal)
				ctx.DrawText(5, 35, canvas.NewTextLine(face, fmt.Sprintf("Canvas %d — fi", i), canvas.Left))
				if i%2 == 1 {
					// a raster image: its encoding is an option of the back-ends
					img := image.NewRGBA(image.Rect(0, 0, 6, 4))
					for k := range img.Pix {
						img.Pix[k] = uint8(40*i + 13*k)
						if k%4 == 3 {
							img.Pix[k] = 255
						}
					}
					ctx.DrawImage(40, 5, img, canvas.DPMM(1))
				}
				return c
			}
			add("rasterizer.Draw", func() string {
				img := rasterizer.Draw(build(fonts.family), canvas.DPMM(4), canvas.DefaultColorSpace)
				return digestBytes(img.Pix)
			})
			add("svg", func() string {
				var buf bytes.Buffer
				c := build(fonts.family)
				r := svg.New(&buf, c.W, c.H, nil)
				c.RenderTo(r)
				r.Close()
				return digestBytes(normalizeFonts(buf.Bytes()))
			})
			add("ps", func() string {
				var buf bytes.Buffer
				c := build(fonts.family)
				r := ps.New(&buf, c.W, c.H, nil)
				c.RenderTo(r)
				r.Close()
				return digestBytes(c20PSDateRe.ReplaceAll(buf.Bytes(), nil))
			})
			pdfOf := func(family *canvas.FontFamily) string {
				var buf bytes.Buffer
				c := build(family)
				r := pdf.New(&buf, c.W, c.H, nil)
				c.RenderTo(r)
				r.Close()
				return digestBytes(normalizeFonts(c20DateRe.ReplaceAll(buf.Bytes(), []byte("D:0"))))
			}
			if i == 0 {
				// two embedded fonts in one SVG: the order of the @font-face blocks is part of the output
				add("svg(two fonts)", func() string {
					second := canvas.NewFontFamily("second")
					if err := second.LoadFont(fonts.ttf, 0, canvas.FontBold); err != nil {
						return "err:" + err.Error()
					}
					c := canvas.New(60, 30)
					ctx := canvas.NewContext(c)
					ctx.DrawText(5, 20, canvas.NewTextLine(fonts.family.Face(8, canvas.Black, canvas.FontRegular, canvas.FontNormal), "first font", canvas.Left))
					ctx.DrawText(5, 8, canvas.NewTextLine(second.Face(8, canvas.Black, canvas.FontBold, canvas.FontNormal), "second font", canvas.Left))
					var buf bytes.Buffer
					r := svg.New(&buf, c.W, c.H, nil)
					c.RenderTo(r)
					r.Close()
					return digestBytes(normalizeFonts(buf.Bytes()))
				})
			}
			// the PDF writer subsets the font; in the main workload every PDF call has a font of its own
			add("pdf", func() string { return pdfOf(ownFamily()) })
			if i%2 == 1 {
				// renderers configured through their setters after New(nil options): what one renderer is
				// told must not reach another one
				add("pdf(setters)", func() string {
					var buf bytes.Buffer
					c := build(ownFamily())
					r := pdf.New(&buf, c.W, c.H, nil)
					r.SetImageEncoding(canvas.Lossy)
					r.SetInfo("t", "s", "k", "a", "c")
					r.SetLang("en")
					c.RenderTo(r)
					r.Close()
					return digestBytes(normalizeFonts(c20DateRe.ReplaceAll(buf.Bytes(), []byte("D:0"))))
				})
				add("svg(setters)", func() string {
					var buf bytes.Buffer
					c := build(fonts.family)
					r := svg.New(&buf, c.W, c.H, nil)
					r.SetImageEncoding(canvas.Lossy)
					r.SetCustomStyle("path{stroke-linejoin:round}")
					r.AddClass("k")
					c.RenderTo(r)
					r.Close()
					return digestBytes(normalizeFonts(buf.Bytes()))
				})
			}
			if sharedPDF {
				add("pdf(shared font)", func() string { return pdfOf(fonts.family) })
			}
		}
	}
	return calls
}

// ---- child modes ---------------------------------------------------------------------------------

type c20Result struct {
	Mode         string            `json:"mode"`
	Digests      map[string]string `json:"digests"` // "<index>" -> digest (last execution)
	Diverged     []string          `json:"diverged,omitempty"`
	Calls        int               `json:"calls"`
	Overlaps     int64             `json:"overlaps"`
	OpPairs      []string          `json:"op_pairs,omitempty"`
	Puts         int64             `json:"puts"`
	Poisoned     int64             `json:"poisoned"`
	Stale        int64             `json:"stale_reads"`
	GlyphsBefore int               `json:"shared_font_glyphs_before"`
	GlyphsAfter  int               `json:"shared_font_glyphs_after"`
	Names        []string          `json:"names,omitempty"`
	Panics       []string          `json:"panics,omitempty"`
	Goroutines   int               `json:"goroutines"`
	Procs        int               `json:"procs"`
}

func runCall(c c20Call) (d string) {
	defer func() {
		if r := recover(); r != nil {
			d = "panic:" + fmt.Sprint(r)
		}
	}()
	d = c.Run()
	// the package tunables are inputs of every operation: a library call that writes one (even
	// transiently) changes what concurrent calls compute; reading them here also lets the race
	// detector see such a write
	if !c20TunablesDefault() {
		d += "+tunable-changed"
	}
	return d
}

var (
	c20NonameMu   sync.Mutex
	c20NonameSeen = map[string]int{}
)

func c20TunablesDefault() bool {
	// the option defaults of the back-ends are package variables too
	if pd := pdf.DefaultOptions; !pd.Compress || !pd.SubsetFonts || pd.ImageEncoding != canvas.Lossless {
		return false
	}
	if sd := svg.DefaultOptions; sd.Compression != 0 || !sd.EmbedFonts || sd.SubsetFonts || sd.SizeUnits != "mm" || sd.ImageEncoding != canvas.Lossless {
		return false
	}
	if qd := ps.DefaultOptions; qd.Format != ps.PostScript || qd.ImageEncoding != canvas.Lossless {
		return false
	}
	return canvas.Tolerance == 0.01 && canvas.Epsilon == 1e-10 && canvas.Precision == 8 && canvas.BentleyOttmannEpsilon == 1e-8 && !canvas.FastStroke && canvas.PixelTolerance == 0.1
}

// C20Child executes one history; called through `vcheck -prop C20 -c20 <spec> -c20out <file>`.
func C20Child(spec, out string) int {
	var a struct {
		Mode      string
		Seed      int64
		Reps      int
		G         int
		Procs     int
		Ref       string
		SharedPDF bool
	}
	if err := json.Unmarshal([]byte(spec), &a); err != nil {
		fmt.Println(err)
		return 2
	}
	fonts, err := loadC20Fonts()
	if err != nil {
		fmt.Println("fonts:", err)
		return 2
	}
	glyphsBefore := fonts.family.Face(8, canvas.Black, canvas.FontRegular, canvas.FontNormal).Font.SFNT.NumGlyphs()
	calls := c20Workload(a.Seed, fonts, a.Reps, a.SharedPDF)
	res := c20Result{Mode: a.Mode, Digests: map[string]string{}, Calls: len(calls)}
	for _, c := range calls {
		res.Names = append(res.Names, c.Name)
	}
	var ref map[string]string
	if a.Ref != "" {
		b, _ := os.ReadFile(a.Ref)
		var rr c20Result
		json.Unmarshal(b, &rr)
		ref = rr.Digests
	}
	record := func(i int, d string) {
		k := fmt.Sprint(i)
		if ref != nil && ref[k] != d {
			res.Diverged = append(res.Diverged, fmt.Sprintf("%s[%d]: %s != reference %s", calls[i].Name, i, d, ref[k]))
		}
		res.Digests[k] = d
		if strings.HasPrefix(d, "panic:") {
			res.Panics = append(res.Panics, calls[i].Name+": "+d)
		}
	}
	r := core.NewRng(a.Seed, "C20", a.Mode, 0)
	polluter := func() {
		// a large operation that fills the pools with used objects
		p := contoursPath([][]Pt{selfCrossing(r, false), selfCrossing(r, false), selfCrossing(r, true)})
		func() { defer func() { recover() }(); p.Settle(canvas.EvenOdd) }()
	}
	canvas.VerifSetPoison(false) // the histories switch the poison on themselves
	switch a.Mode {
	case "sequential":
		for i := range calls {
			record(i, runCall(calls[i]))
		}
	case "reversed":
		for i := len(calls) - 1; i >= 0; i-- {
			record(i, runCall(calls[i]))
		}
	case "shuffled":
		for _, i := range r.Perm(len(calls)) {
			record(i, runCall(calls[i]))
		}
	case "twice":
		for i := range calls {
			record(i, runCall(calls[i]))
			record(i, runCall(calls[i]))
		}
	case "polluted":
		for _, i := range r.Perm(len(calls)) {
			polluter()
			record(i, runCall(calls[i]))
		}
	case "poisoned":
		canvas.VerifSetPoison(true)
		for _, i := range r.Perm(len(calls)) {
			canvas.VerifPoisonPools(64)
			polluter()
			record(i, runCall(calls[i]))
		}
	case "concurrent":
		runtime.GOMAXPROCS(a.Procs)
		canvas.VerifSetPoison(true)
		res.Goroutines, res.Procs = a.G, a.Procs
		type iv struct {
			name       string
			start, end int64
		}
		var clock atomic.Int64
		var mu sync.Mutex
		var ivs []iv
		var wg sync.WaitGroup
		for g := 0; g < a.G; g++ {
			wg.Add(1)
			rg := core.NewRng(a.Seed, "C20", "goroutine", g)
			go func() {
				defer wg.Done()
				// a burst of loads of the font without a name table: the generated names come from a
				// process-wide counter
				if fonts.nonameOK {
					for k := 0; k < 40; k++ {
						if f, err := canvas.LoadFont(fonts.noname, 0, canvas.FontRegular); err == nil {
							c20NonameMu.Lock()
							c20NonameSeen[f.Name()]++
							c20NonameMu.Unlock()
						}
					}
				}
				for _, i := range rg.Perm(len(calls)) {
					s := clock.Add(1)
					d := runCall(calls[i])
					e := clock.Add(1)
					mu.Lock()
					record(i, d)
					ivs = append(ivs, iv{calls[i].Name, s, e})
					mu.Unlock()
					runtime.Gosched()
				}
			}()
		}
		wg.Wait()
		// overlapping pairs by logical time
		sort.Slice(ivs, func(i, j int) bool { return ivs[i].start < ivs[j].start })
		pairs := map[string]bool{}
		for i := range ivs {
			for j := i + 1; j < len(ivs) && ivs[j].start < ivs[i].end; j++ {
				res.Overlaps++
				x, y := ivs[i].name, ivs[j].name
				if y < x {
					x, y = y, x
				}
				pairs[x+" || "+y] = true
			}
		}
		for k := range pairs {
			res.OpPairs = append(res.OpPairs, k)
		}
		sort.Strings(res.OpPairs)
	default:
		fmt.Println("unknown mode", a.Mode)
		return 2
	}
	res.Puts, res.Poisoned = canvas.VerifPoolCounters()
	res.Stale = canvas.VerifStaleReads()
	res.GlyphsBefore = int(glyphsBefore)
	res.GlyphsAfter = int(fonts.family.Face(8, canvas.Black, canvas.FontRegular, canvas.FontNormal).Font.SFNT.NumGlyphs())
	if !c20TunablesDefault() {
		res.Diverged = append(res.Diverged, "package tunables changed during the run")
	}
	c20NonameMu.Lock()
	dups := 0
	for name, n := range c20NonameSeen {
		if n > 1 {
			dups++
			if dups <= 3 {
				res.Diverged = append(res.Diverged, fmt.Sprintf("LoadFont gave the generated name %q to %d fonts without a name table loaded in this process", name, n))
			}
		}
	}
	c20NonameMu.Unlock()
	b, _ := json.Marshal(res)
	os.WriteFile(out, b, 0o644)
	return 0
}

// ---- driver --------------------------------------------------------------------------------------

type raceReport struct {
	Key   string
	Text  string
	Count int
}

// parseRaceLogs reads GORACE log files and de-duplicates the reports by the function names of the
// top frames of both accesses (line numbers stripped).
func parseRaceLogs(glob string) []raceReport {
	files, _ := filepath.Glob(glob)
	byKey := map[string]*raceReport{}
	fn := regexp.MustCompile(`^\s+([^\s(]+(?:\([^)]*\))?[^\s(]*)\(`)
	for _, f := range files {
		fh, err := os.Open(f)
		if err != nil {
			continue
		}
		sc := bufio.NewScanner(fh)
		sc.Buffer(make([]byte, 1<<20), 1<<20)
		var block []string
		flush := func() {
			if len(block) == 0 {
				return
			}
			var stacks [][]string
			var cur []string
			for _, l := range block {
				if strings.HasPrefix(l, "Read at") || strings.HasPrefix(l, "Write at") || strings.HasPrefix(l, "Previous read at") || strings.HasPrefix(l, "Previous write at") {
					if cur != nil {
						stacks = append(stacks, cur)
					}
					cur = []string{}
					continue
				}
				if strings.HasPrefix(l, "Goroutine ") {
					if cur != nil {
						stacks = append(stacks, cur)
					}
					cur = nil
					continue
				}
				if cur != nil {
					if m := fn.FindStringSubmatch(l); m != nil && len(cur) < 3 {
						cur = append(cur, m[1])
					}
				}
			}
			if cur != nil {
				stacks = append(stacks, cur)
			}
			var parts []string
			for _, s := range stacks {
				parts = append(parts, strings.Join(s, "<"))
			}
			sort.Strings(parts)
			key := strings.Join(parts, " / ")
			if r, ok := byKey[key]; ok {
				r.Count++
			} else {
				byKey[key] = &raceReport{Key: key, Text: strings.Join(block, "\n"), Count: 1}
			}
			block = nil
		}
		in := false
		for sc.Scan() {
			l := sc.Text()
			if strings.HasPrefix(l, "WARNING: DATA RACE") {
				flush()
				in = true
				continue
			}
			if strings.HasPrefix(l, "==================") {
				if in {
					flush()
				}
				in = false
				continue
			}
			if in {
				block = append(block, l)
			}
		}
		flush()
		fh.Close()
	}
	var out []raceReport
	for _, r := range byKey {
		out = append(out, *r)
	}
	sort.Slice(out, func(i, j int) bool { return out[i].Key < out[j].Key })
	return out
}

func c20Driver(d *core.Driver) int {
	start := time.Now()
	reps, rounds, sharedRounds := 1, 3, 1
	combos := [][2]int{{4, 2}, {16, 16}, {32, 8}, {2, 1}}
	if d.Tier == "thorough" {
		reps, rounds, sharedRounds = 2, 6, 2
		combos = [][2]int{{2, 1}, {16, 16}, {4, 2}, {4, 16}, {64, 16}, {16, 2}}
	}
	raceBin := filepath.Join(d.Verif, "bin", "vcheck-race"+os.Getenv("VERIF_BINSUF"))
	work := d.WorkDir
	violations := 0
	var lines []string
	viol := func(format string, a ...any) {
		violations++
		msg := fmt.Sprintf(format, a...)
		rp := filepath.Join(d.Verif, "evidence", "replay", fmt.Sprintf("C20-%d.txt", violations))
		os.WriteFile(rp, []byte(msg+"\n"), 0o644)
		lines = append(lines, fmt.Sprintf("VIOLATION property=C20 replay=%s\n  %s", rp, firstN(msg, 1500)))
	}
	runChild := func(bin, name string, spec map[string]any, env []string, timeout time.Duration) (*c20Result, string) {
		sb, _ := json.Marshal(spec)
		out := filepath.Join(work, name+".json")
		logf := filepath.Join(work, name+".log")
		lf, _ := os.Create(logf)
		cmd := exec.Command(bin, "-verif", d.Verif, "-prop", "C20", "-c20", string(sb), "-c20out", out)
		cmd.Stdout, cmd.Stderr = lf, lf
		cmd.Env = append(os.Environ(), env...)
		done := make(chan error, 1)
		cmd.Start()
		go func() { done <- cmd.Wait() }()
		select {
		case <-done:
		case <-time.After(timeout):
			cmd.Process.Kill()
			<-done
			lf.Close()
			return nil, "watchdog fired after " + timeout.String()
		}
		lf.Close()
		b, err := os.ReadFile(out)
		if err != nil {
			lb, _ := os.ReadFile(logf)
			return nil, "child died: " + firstN(string(lb), 2000)
		}
		var r c20Result
		if err := json.Unmarshal(b, &r); err != nil {
			return nil, "unreadable result: " + err.Error()
		}
		return &r, ""
	}
	// A: sequential reference in a fresh process
	refSpec := map[string]any{"Mode": "sequential", "Seed": d.Seed, "Reps": reps}
	ref, errs := runChild(d.Self, "A-sequential", refSpec, nil, 10*time.Minute)
	if ref == nil {
		fmt.Printf("INCONCLUSIVE property=C20 reference run failed: %s\n", errs)
		return 2
	}
	refFile := filepath.Join(work, "A-sequential.json")
	calls := ref.Calls
	executions := calls
	var puts, poisoned, overlaps, stale int64
	puts, poisoned = ref.Puts, ref.Poisoned
	knownPanics := map[string]int{}
	for _, p := range ref.Panics {
		knownPanics[p]++
	}
	// B: histories in fresh processes
	histories := []string{"reversed", "shuffled", "twice", "polluted", "poisoned"}
	samples := []any{}
	for _, h := range histories {
		r, e := runChild(d.Self, "B-"+h, map[string]any{"Mode": h, "Seed": d.Seed, "Reps": reps, "Ref": refFile}, nil, 15*time.Minute)
		if r == nil {
			viol("history %q did not complete: %s", h, e)
			continue
		}
		executions += r.Calls
		puts += r.Puts
		poisoned += r.Poisoned
		stale += r.Stale
		if r.Stale > 0 {
			viol("history %q: %d reads of sweep points that had already been released to the shared pool (poison marker seen at the hook in the result tracing)", h, r.Stale)
		}
		if len(r.Diverged) > 0 {
			viol("history %q: %d calls returned a result that differs from the sequential reference: %s", h, len(r.Diverged), strings.Join(r.Diverged[:min(len(r.Diverged), 5)], "; "))
		}
		samples = append(samples, map[string]any{"history": h, "calls": r.Calls, "diverged": len(r.Diverged), "pool_releases": r.Puts, "poisoned": r.Poisoned})
	}
	// C: race detector
	opPairs := map[string]bool{}
	var sharedFinding *core.Finding
	for i := range d.Findings {
		if d.Findings[i].Status == "open" && d.Findings[i].Kind == "race" && strings.Contains(d.Findings[i].Entry, "pdf(shared font)") {
			sharedFinding = &d.Findings[i]
		}
	}
	known := map[string]int{}
	unknownRaces := 0
	var raceSummaries []any
	totalReports := 0
	// judgeRaces matches the de-duplicated reports of one log group against the open race findings
	judgeRaces := func(glob string, shared bool) map[string]int {
		seen := map[string]int{}
		for _, rp := range parseRaceLogs(glob) {
			totalReports++
			matched := ""
			for _, f := range d.Findings {
				if f.Status != "open" || f.Kind != "race" || f.Site == "" || !strings.Contains(rp.Text, f.Site) {
					continue
				}
				if strings.Contains(f.Entry, "pdf(shared font)") && !shared {
					continue // this finding needs canvases that share a font; the main workload has none
				}
				matched = f.ID
				break
			}
			raceSummaries = append(raceSummaries, map[string]any{"frames": rp.Key, "occurrences": rp.Count, "known_finding": matched, "shared_font_round": shared})
			if matched != "" {
				known[matched] += rp.Count
				seen[matched] += rp.Count
				continue
			}
			unknownRaces++
			viol("data race (%d occurrences), top frames %s\n%s", rp.Count, rp.Key, firstN(rp.Text, 3000))
		}
		return seen
	}
	roundsAborted := false
	rerunRounds := 0
	concRound := func(round int, gp [2]int, shared bool) {
		if roundsAborted {
			return
		}
		tag, logName := "C", "race.log"
		if shared {
			tag, logName = "S", "race-shared.log"
		}
		seed := d.Seed + int64(round)
		name := fmt.Sprintf("%s-round%d-g%d-p%d", tag, round, gp[0], gp[1])
		r, e := runChild(raceBin, name, map[string]any{"Mode": "concurrent", "Seed": seed, "Reps": reps, "G": gp[0], "Procs": gp[1], "Ref": "", "SharedPDF": shared},
			[]string{"GORACE=halt_on_error=0 log_path=" + filepath.Join(work, logName)}, 8*time.Minute)
		if r == nil && strings.HasPrefix(e, "watchdog fired") {
			// a wall-clock bound is no verdict on a loaded machine: the round is run once more, alone and
			// with three times the budget, before "never returns" is believed
			rerunRounds++
			r, e = runChild(raceBin, name+"-again", map[string]any{"Mode": "concurrent", "Seed": seed, "Reps": reps, "G": gp[0], "Procs": gp[1], "Ref": "", "SharedPDF": shared},
				[]string{"GORACE=halt_on_error=0 log_path=" + filepath.Join(work, logName)}, 25*time.Minute)
		}
		if r == nil {
			// a round takes 10-40 s on its own; the watchdog is a wall-clock bound 12 times that. A round
			// that dies or never returns is a violation (a call "returns what it returns when run alone");
			// the remaining rounds are not run: each further hang would cost another watchdog period
			viol("concurrent round %s%d (%d goroutines, GOMAXPROCS %d) did not complete: %s", tag, round, gp[0], gp[1], e)
			roundsAborted = true
			return
		}
		if len(r.Diverged) > 0 {
			viol("concurrent round %s%d (%d goroutines, GOMAXPROCS %d): %s", tag, round, gp[0], gp[1], strings.Join(r.Diverged[:min(len(r.Diverged), 5)], "; "))
		}
		// results of concurrent executions vs the sequential reference of the same seed
		seqRef := ref
		if round != 0 || shared {
			seqRef, e = runChild(d.Self, fmt.Sprintf("A-%s-seed%d", tag, round), map[string]any{"Mode": "sequential", "Seed": seed, "Reps": reps, "SharedPDF": shared}, nil, 10*time.Minute)
			if seqRef == nil {
				viol("sequential reference for round %s%d failed: %s", tag, round, e)
				return
			}
		}
		if !shared && seqRef.GlyphsAfter != seqRef.GlyphsBefore {
			viol("the shared loaded font reports %d glyphs after the sequential workload, %d before", seqRef.GlyphsAfter, seqRef.GlyphsBefore)
		}
		seen := map[string]int{}
		if shared {
			seen = judgeRaces(filepath.Join(work, logName+".*"), true)
			old, _ := filepath.Glob(filepath.Join(work, logName+".*"))
			for _, f := range old {
				os.Remove(f)
			}
		}
		var div []string
		explained := 0
		for k, dg := range r.Digests {
			if seqRef.Digests[k] == dg {
				continue
			}
			idx := 0
			fmt.Sscan(k, &idx)
			nm := ""
			if idx < len(r.Names) {
				nm = r.Names[idx]
			}
			if shared && sharedFinding != nil && seen[sharedFinding.ID] > 0 && (nm == "svg" || nm == "pdf(shared font)") {
				explained++ // these calls serialise the shared font while another PDF writer subsets it
				continue
			}
			div = append(div, fmt.Sprintf("%s[%s]: %s != %s", nm, k, dg, seqRef.Digests[k]))
		}
		sort.Strings(div)
		if len(div) > 0 {
			viol("concurrent round %s%d (%d goroutines, GOMAXPROCS %d): %d calls returned a result that differs from running alone: %s", tag, round, gp[0], gp[1], len(div), strings.Join(div[:min(len(div), 5)], "; "))
		}
		if shared {
			if seqRef.GlyphsAfter != seqRef.GlyphsBefore {
				if sharedFinding != nil {
					known[sharedFinding.ID]++
				} else {
					viol("rendering to PDF changed the shared loaded font: NumGlyphs %d before, %d after (sequential run)", seqRef.GlyphsBefore, seqRef.GlyphsAfter)
				}
			}
		}
		executions += r.Calls * gp[0]
		overlaps += r.Overlaps
		puts += r.Puts
		poisoned += r.Poisoned
		stale += r.Stale
		if r.Stale > 0 {
			viol("concurrent round %s%d: %d reads of sweep points that had already been released to the shared pool", tag, round, r.Stale)
		}
		for _, p := range r.OpPairs {
			opPairs[p] = true
		}
		samples = append(samples, map[string]any{"round": fmt.Sprintf("%s%d", tag, round), "goroutines": gp[0], "gomaxprocs": gp[1], "calls_each": r.Calls, "overlapping_call_pairs": r.Overlaps, "distinct_op_pairs": len(r.OpPairs), "diverged": len(div), "diverged_explained_by_known_finding": explained,
			"shared_font_glyphs_before_after_sequential": []int{seqRef.GlyphsBefore, seqRef.GlyphsAfter}})
	}
	for round := 0; round < rounds; round++ {
		concRound(round, combos[round%len(combos)], false)
	}
	judgeRaces(filepath.Join(work, "race.log.*"), false)
	// S: the same with PDF rendering of canvases that share one loaded font
	for round := 0; round < sharedRounds; round++ {
		concRound(round, combos[(round+1)%len(combos)], true)
	}
	for _, f := range d.Findings {
		if f.Status == "open" && known[f.ID] > 0 {
			fmt.Printf("KNOWN-FINDING: property=C20 %s [%s, %d race reports]\n", f.Summary, f.ID, known[f.ID])
		} else if f.Status == "open" {
			fmt.Printf("note: open finding %s was not observed in this run (%s)\n", f.ID, f.Summary)
		}
	}
	for _, l := range lines {
		fmt.Println(l)
	}
	var pairs []string
	for p := range opPairs {
		pairs = append(pairs, p)
	}
	sort.Strings(pairs)
	cov := map[string]any{
		"evaluations":                          executions,
		"distinct_nontrivial":                  calls,
		"rule":                                 "a fixed workload of library calls on inputs of their own (boolean operations, Settle, Stroke, Offset, Flatten, Dash, text layout on a shared font, LoadFont incl. a font without name records, rasterizer/SVG/PS/PDF rendering of distinct canvases) is executed (A) sequentially in a fresh process, (B) in fresh processes under five histories (reversed, shuffled, every call twice, interleaved with pool-polluting operations, with poison-on-release and pre-poisoned pools), (C) under the race detector from 2-64 goroutines at several GOMAXPROCS values; every result must equal the sequential one and no race may be reported; distinct_nontrivial = distinct calls of the workload; evaluations = call executions",
		"samples":                              samples,
		"histories":                            histories,
		"concurrent_rounds":                    rounds,
		"overlapping_call_pairs_observed":      overlaps,
		"distinct_overlapping_operation_pairs": len(pairs),
		"overlapping_operation_pairs":          pairs,
		"pool_objects_released":                puts,
		"rounds_rerun_after_watchdog":          rerunRounds,
		"pool_objects_poisoned":                poisoned,
		"stale_reads_of_released_objects":      stale,
		"race_reports_deduplicated":            raceSummaries,
		"unknown_race_reports":                 unknownRaces,
		"known_findings_matched":               known,
		"reference_panics":                     knownPanics,
		"exhaustive":                           false,
	}
	ev := map[string]any{"property_id": "C20", "tier": d.Tier, "seed": d.Seed, "level": "exploration", "coverage": cov,
		"assumptions": []string{"the Go race detector (happens-before, no false positives) observes the interleavings the scheduler produced in these runs only", "results are compared as digests of the returned path data / image pixels / output bytes (PDF creation date masked)"},
		"wall_s":      math.Round(time.Since(start).Seconds()*100) / 100, "violations": violations}
	b, _ := json.MarshalIndent(ev, "", " ")
	os.WriteFile(filepath.Join(d.Verif, "evidence", "C20.json"), b, 0o644)
	fmt.Printf("C20 %s seed=%d: %d calls, %d executions, %d overlapping call pairs (%d distinct operation pairs), %d pool objects released (%d poisoned), %d distinct race reports (%d unknown), %d violations, %.1fs\n",
		d.Tier, d.Seed, calls, executions, overlaps, len(pairs), puts, poisoned, totalReports, unknownRaces, violations, time.Since(start).Seconds())
	if overlaps == 0 {
		fmt.Println("INCONCLUSIVE property=C20 no overlapping calls were observed")
		return 2
	}
	if violations > 0 {
		return 1
	}
	return 0
}

func firstN(s string, n int) string {
	if len(s) > n {
		return s[:n] + "…"
	}
	return s
}

func init() {
	core.Register(&core.Property{
		ID:      "C20",
		Title:   "Concurrent use on independent objects is race-free and deterministic",
		Custom:  c20Driver,
		NewCase: func() any { return &struct{}{} },
	})
	core.ChildHook = C20Child
}
