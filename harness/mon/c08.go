package mon

import (
	"math"

	"github.com/tdewolff/canvas"

	"verif/core"
	"verif/geom"
)

type c08Case struct {
	P    []float64
	Kind string
}

func genC08(kind string) func(r *core.Rng) any {
	return func(r *core.Rng) any {
		var p *canvas.Path
		switch kind {
		case "lines":
			p = genPath(r, pathOpts{Kinds: kLine, MaxSegs: 6, MaxSubs: 3, Closed: 2})
		case "beziers":
			p = genPath(r, pathOpts{Kinds: kQuad | kCube, MaxSegs: 4, MaxSubs: 2, Closed: 2, Scale: r.LogRange(1e-3, 1e3)})
		case "arcs":
			p = genPath(r, pathOpts{Kinds: kArc, MaxSegs: 3, MaxSubs: 2, Closed: 2, MaxRatio: 100})
		case "arcs-axis":
			// axis-parallel ellipses and circles (rotation 0/90/180/270): what the repository's tests cover
			p = &canvas.Path{}
			x, y := r.Range(-20, 20), r.Range(-20, 20)
			p.MoveTo(x, y)
			for i, n := 0, r.IntRange(1, 3); i < n; i++ {
				ex, ey := r.Range(-40, 40), r.Range(-40, 40)
				d := math.Hypot(ex-x, ey-y)
				rx := d * r.LogRange(0.3, 3)
				ry := rx / r.LogRange(1, 10)
				p.ArcTo(rx, ry, core.PickF(r, []float64{0, 90, 180, 270}), r.Bool(), r.Bool(), ex, ey)
				x, y = ex, ey
			}
		case "grid": // integer coordinates, radii and nice angles: exercises the exact-value shortcuts
			p = genPath(r, pathOpts{Kinds: kAll, MaxSegs: 5, MaxSubs: 2, Closed: 2, Integer: true})
		default: // mixed
			p = genPath(r, pathOpts{Kinds: kAll, MaxSegs: 6, MaxSubs: 3, Closed: 2})
		}
		return &c08Case{P: dataCopy(p), Kind: kind}
	}
}

func c08Corpus() []any {
	var out []any
	for _, s := range []string{
		"M0 0C0 1 10 1 0 2",                      // FastBounds must include the control hull
		"M0 0C10 1 0 1 0 2", "M0 0C0 10 1 0 2 0", // permutations of the same
		"M0 0A10 5 45 0 1 10 5", "M0 0A10 5 30 1 0 3 8", // rotated ellipses
		"M0 0Q5 10 10 0", "M0 0L10 5",
	} {
		p, err := canvas.ParseSVGPath(s)
		if err == nil {
			out = append(out, &c08Case{P: dataCopy(p), Kind: "corpus"})
		}
	}
	return out
}

func rectBox(r canvas.Rect) geom.Box { return geom.Box{X0: r.X0, Y0: r.Y0, X1: r.X1, Y1: r.Y1} }

func c08Check(ci any, o *core.Obs) {
	c := ci.(*c08Case)
	P := pathFrom(c.P)
	subs, err := refSubs(P)
	if err != nil || len(subs) == 0 {
		o.Skip("not decodable or empty")
		return
	}
	coarse := geom.BoxPolys(geom.Flatten(subs, 1, false))
	scale := coarse.Scale()
	eps := 1e-7 * scale
	polys := geom.Flatten(subs, eps, false)
	ref := geom.BoxPolys(polys)
	o.NonTrivial()
	hasArcs := false
	for si := range subs {
		for i := range subs[si].Segs {
			if subs[si].Segs[i].Kind == geom.Arc {
				hasArcs = true
			}
		}
	}
	check := func(label string, P *canvas.Path, ref geom.Box) (b, fb geom.Box, ok bool) {
		var rb, rf canvas.Rect
		if !o.Call("Path.Bounds", func() { rb = P.Bounds() }) {
			return
		}
		if !o.Call("Path.FastBounds", func() { rf = P.FastBounds() }) {
			return
		}
		b, fb = rectBox(rb), rectBox(rf)
		// lines and Béziers: rounding only. Arcs: the end-point to centre conversion is ill-conditioned
		// when the radii barely span the chord (error about r*sqrt(machine epsilon) in the library and
		// in the reference alike); observed shortfall up to 2e-8*scale on the calibration sweep.
		slack := 1e-9 * scale
		if hasArcs {
			slack = 2e-7 * scale
		}
		// (1) Bounds contains every sample
		out := math.Max(math.Max(b.X0-ref.X0, ref.X1-b.X1), math.Max(b.Y0-ref.Y0, ref.Y1-b.Y1))
		o.Max("bounds_misses_samples_by_rel", out/scale)
		o.Decided(1)
		if out > slack {
			o.Fail("bounds-contain"+label, "Bounds()=%v does not contain the path: sampled extent %v (short by %.3g); path %s", rb, ref, out, pstr(P))
		}
		// (2) tight: every side within the sampling error of the sample extreme
		tight := math.Max(math.Max(ref.X0-b.X0, b.X1-ref.X1), math.Max(ref.Y0-b.Y0, b.Y1-ref.Y1))
		o.Max("bounds_slack_rel", tight/scale)
		o.Decided(1)
		if tight > 4*eps+slack {
			o.Fail("bounds-tight"+label, "Bounds()=%v is not tight: sampled extent %v (excess %.3g); path %s", rb, ref, tight, pstr(P))
		}
		// (3) FastBounds contains Bounds
		fout := math.Max(math.Max(fb.X0-b.X0, b.X1-fb.X1), math.Max(fb.Y0-b.Y0, b.Y1-fb.Y1))
		fref := math.Max(math.Max(fb.X0-ref.X0, ref.X1-fb.X1), math.Max(fb.Y0-ref.Y0, ref.Y1-fb.Y1))
		o.Decided(1)
		if fout > slack || fref > slack {
			o.Fail("fastbounds"+label, "FastBounds()=%v does not contain Bounds()=%v / the path extent %v; path %s", rf, rb, ref, pstr(P))
		}
		return b, fb, true
	}
	b0, f0, ok := check("", P, ref)
	if !ok {
		return
	}
	// equivariance under translation and axis reflections (applied to the raw coordinates by the
	// monitor for flat data; through the library's Transform otherwise, which C07 monitors)
	r := caseRng(c, "C08sym")
	tx, ty := math.Round(r.Range(-50, 50)), math.Round(r.Range(-50, 50))
	for _, m := range []struct {
		name   string
		sx, sy float64
	}{{"translate", 1, 1}, {"reflect-x", -1, 1}, {"reflect-y", 1, -1}} {
		var Q *canvas.Path
		mat := canvas.Identity.Translate(tx, ty).Scale(m.sx, m.sy)
		if o.Guard("Path.Transform", func() { Q = pathFrom(c.P).Transform(mat) }) {
			continue
		}
		img := func(b geom.Box) geom.Box {
			x0, x1 := b.X0*m.sx+tx, b.X1*m.sx+tx
			y0, y1 := b.Y0*m.sy+ty, b.Y1*m.sy+ty
			return geom.Box{X0: math.Min(x0, x1), Y0: math.Min(y0, y1), X1: math.Max(x0, x1), Y1: math.Max(y0, y1)}
		}
		var rb, rf canvas.Rect
		if !o.Call("Path.Bounds", func() { rb = Q.Bounds(); rf = Q.FastBounds() }) {
			continue
		}
		want, got := img(b0), rectBox(rb)
		dev := math.Max(math.Max(math.Abs(want.X0-got.X0), math.Abs(want.X1-got.X1)), math.Max(math.Abs(want.Y0-got.Y0), math.Abs(want.Y1-got.Y1)))
		o.Max("bounds_equivariance_dev_rel", dev/scale)
		o.Decided(1)
		if dev > 1e-7*scale {
			o.Fail("bounds-equivariance", "Bounds of the %s image is %v, expected %v (image of %v)", m.name, rb, want, b0)
		}
		// FastBounds: translation and reflection map control hulls/centres onto each other
		wantF, gotF := img(f0), rectBox(rf)
		devF := math.Max(math.Max(math.Abs(wantF.X0-gotF.X0), math.Abs(wantF.X1-gotF.X1)), math.Max(math.Abs(wantF.Y0-gotF.Y0), math.Abs(wantF.Y1-gotF.Y1)))
		o.Decided(1)
		if devF > 1e-7*scale {
			o.Fail("fastbounds-equivariance", "FastBounds of the %s image is %v, expected %v", m.name, rf, wantF)
		}
	}
}

func c08Describe(ci any) any {
	c := ci.(*c08Case)
	return map[string]any{"kind": c.Kind, "P": dstr(c.P)}
}

func init() {
	core.Register(&core.Property{
		ID:    "C08",
		Title: "Bounds is the tight bounding box and FastBounds contains it",
		Rule: "random paths (lines; quads/cubics at scales 1e-3..1e3; arcs with any rotation, radii ratio up to 100, all flags; mixed; axis-parallel arcs) with 1-3 open/closed sub-paths; " +
			"Bounds vs the extent of an independent dense sampling (deviation < 1e-7*scale), FastBounds vs Bounds, both vs their images under an integer translation and the two axis reflections; every case is non-trivial; distinct = distinct case hash",
		Strata: []core.Stratum{
			{Name: "lines", Quick: 500, Thorough: 10000, Gen: genC08("lines")},
			{Name: "beziers", Quick: 2000, Thorough: 60000, Gen: genC08("beziers")},
			{Name: "arcs", Quick: 2000, Thorough: 60000, Gen: genC08("arcs")},
			{Name: "arcs-axis", Quick: 1000, Thorough: 20000, Gen: genC08("arcs-axis")},
			{Name: "mixed", Quick: 2000, Thorough: 60000, Gen: genC08("mixed")},
			{Name: "grid", Quick: 1500, Thorough: 40000, Gen: genC08("grid")},
		},
		NewCase:  func() any { return &c08Case{} },
		Corpus:   c08Corpus,
		Check:    c08Check,
		Describe: c08Describe,
		Assumptions: []string{
			"the extent of the reference sampling (adaptive flattening to 1e-7*scale, arcs evaluated from SVG F.6.5) is the true extent up to 4e-7*scale",
			"equivariance is tested through Path.Transform (translation/reflection only), which C07 monitors independently",
		},
	})
}
