package mon

import (
	"bytes"
	"fmt"
	"image"
	"image/color"
	"math"
	"os"
	"path/filepath"
	"strings"
	"sync"

	"github.com/tdewolff/canvas"
	"github.com/tdewolff/canvas/renderers/pdf"

	"verif/core"
	"verif/refpdf"
)

// C13: every PDF produced is a structurally valid PDF file. Documents are generated (pages, styled
// paths, gradients, images, text in several fonts, links, metadata, options), written by the real
// renderer and read back by harness/refpdf, which shares no code with the writer.

type c13Item struct {
	Kind   string // path | text | image | link
	Data   []float64
	Fill   []int
	Stroke []int
	Width  float64
	Dashes []float64
	Grad   int // 0 none, 1 linear, 2 radial (fill)
	SGrad  int // gradient stroke
	Rule   int
	Cap    int
	Join   int
	Text   string
	Font   int
	Size   float64
	Deco   int
	Box    float64 // text box width, 0: single line
	Vert   int     `json:",omitempty"` // 1 vertical right-to-left, 2 vertical left-to-right writing mode
	ImgW   int
	ImgH   int
	ImgK   int // 0 opaque RGBA, 1 with alpha, 2 gray, 3 NRGBA
	Res    float64
	URI    string
	Rect   []float64
	X, Y   float64
	View   []float64
}

type c13Page struct {
	W, H  float64
	Items []c13Item
}

type c13Case struct {
	Compress bool
	Subset   bool
	Lossy    bool
	NilOpts  bool
	Pages    []c13Page
	SetInfo  bool
	Info     []string // title subject keywords author creator
	Lang     string
	Kind     string
}

// the fourth entry is DejaVuSerif.ttf with the italic angle of its post table set to -11 degrees in
// memory (the bundled fonts are all upright; an oblique font has negative numbers in its descriptor)
var c13FontFiles = []string{"DejaVuSerif.ttf", "EBGaramond12-Regular.otf", "Dynalight-Regular.otf", "DejaVuSerif.ttf+italicAngle-11"}

// c13SetItalicAngle rewrites post.italicAngle (16.16 fixed point at offset 4 of the post table).
func c13SetItalicAngle(b []byte, deg int) []byte {
	out := append([]byte(nil), b...)
	if len(out) < 12 {
		return out
	}
	n := int(out[4])<<8 | int(out[5])
	for i := 0; i < n && 12+16*i+16 <= len(out); i++ {
		e := out[12+16*i:]
		if string(e[:4]) == "post" {
			off := int(e[8])<<24 | int(e[9])<<16 | int(e[10])<<8 | int(e[11])
			if off+8 <= len(out) {
				v := uint32(int32(deg) << 16)
				out[off+4], out[off+5], out[off+6], out[off+7] = byte(v>>24), byte(v>>16), byte(v>>8), byte(v)
			}
		}
	}
	return out
}
var c13FontOnce sync.Once
var c13Fonts []*canvas.FontFamily

func c13LoadFonts() {
	c13FontOnce.Do(func() {
		for _, fn := range c13FontFiles {
			b, err := os.ReadFile(filepath.Join(repoDir(), "resources", strings.SplitN(fn, "+", 2)[0]))
			if err != nil {
				c13Fonts = append(c13Fonts, nil)
				continue
			}
			if strings.Contains(fn, "+italicAngle") {
				b = c13SetItalicAngle(b, -11)
			}
			fam := canvas.NewFontFamily(strings.TrimSuffix(fn, filepath.Ext(fn)))
			if fam.LoadFont(b, 0, canvas.FontRegular) != nil {
				fam = nil
			}
			c13Fonts = append(c13Fonts, fam)
		}
	})
}

var c13Texts = []string{
	"Hello, World!", "The quick brown fox", "office affluent ffi fl", "Ünïcödé çà et là — “quotes”", "tab\tand (parens) \\ backslash",
	"世界你好", "mixed 世界 text", "ΑΒΓ αβγ кириллица", "a", " ", "line one\nline two", "1234567890 +-*/=", "Příliš žluťoučký kůň", "😀 emoji", "marks b\u0308\u0301 q\u0301 Z\u030c\u0323",
}

var c13Meta = []string{
	"", "Title", "A plain ASCII title", "Parens ( and ) and \\ backslash", "Ünïcödé título", "Dvořák: č ď ň", "日本語のタイトル", "tab\there", "two\nlines",
	"carriage\rreturn", "percent % and #hash /slash <angle> [bracket]", "(((", ")))", "trailing backslash \\", "ē ĕ ė ę ě č Ċ", "emoji 😀 title", "ⴰⴱ ഀ഍",
}

func genC13(kind string) func(r *core.Rng) any {
	return func(r *core.Rng) any {
		c := &c13Case{Compress: r.Bool(), Subset: r.Bool(), Lossy: r.Chance(0.3), NilOpts: r.Chance(0.1), Kind: kind}
		np := core.PickI(r, []int{1, 1, 2, 3, 5})
		if kind == "meta" {
			np = 1
		}
		for p := 0; p < np; p++ {
			pg := c13Page{W: core.PickF(r, []float64{210, 100, r.Range(10, 500)}), H: core.PickF(r, []float64{297, 100, r.Range(10, 500)})}
			n := r.IntRange(0, 6)
			if kind == "meta" {
				n = r.IntRange(0, 1)
			}
			for k := 0; k < n; k++ {
				it := c13Item{X: r.Range(0, pg.W), Y: r.Range(0, pg.H)}
				if r.Chance(0.3) {
					it.View = c15Matrix(r)
				}
				col := func() []int {
					return []int{r.Intn(256), r.Intn(256), r.Intn(256), core.PickI(r, []int{255, 255, 255, 128, 1, 0})}
				}
				pick := r.Intn(10)
				if kind == "text" {
					pick = 5
				}
				if kind == "empty-images" && r.Bool() {
					pick = 8
				}
				switch {
				case pick < 4:
					it.Kind = "path"
					p := genPath(r, pathOpts{Kinds: kAll, MinSegs: 1, MaxSegs: 5, MaxSubs: 2, Closed: 2, MildCurve: true, CircArcs: r.Bool()})
					it.Data = dataCopy(p)
					if r.Chance(0.8) {
						it.Fill = col()
						it.Grad = core.PickI(r, []int{0, 0, 0, 1, 2})
					}
					if r.Chance(0.6) {
						it.Stroke = col()
						it.SGrad = core.PickI(r, []int{0, 0, 0, 0, 1})
						it.Width = core.PickF(r, []float64{0, 0.5, 1, r.Range(0.1, 5)})
						it.Cap, it.Join = r.Intn(3), r.Intn(4)
						if r.Chance(0.4) {
							for j := r.IntRange(1, 4); j > 0; j-- {
								it.Dashes = append(it.Dashes, core.PickF(r, []float64{1, 2, 0.5, 0, r.Range(0.1, 4)}))
							}
						}
					}
					it.Rule = r.Intn(2)
				case pick < 7:
					it.Kind = "text"
					it.Text = core.PickS(r, c13Texts)
					it.Font = r.Intn(len(c13FontFiles))
					it.Size = core.PickF(r, []float64{12, 8, 24, r.Range(4, 40)})
					it.Deco = core.PickI(r, []int{0, 0, 0, 1, 2, 3})
					if r.Chance(0.3) {
						it.Box = r.Range(20, 100)
					}
					if r.Chance(0.15) {
						it.Vert = 1 + r.Intn(2)
					}
					it.Fill = col()
				case pick < 9:
					it.Kind = "image"
					it.ImgW, it.ImgH = r.IntRange(1, 9), r.IntRange(1, 9)
					if kind == "empty-images" && r.Chance(0.6) {
						// an image without pixels (an empty SubImage, say): zero width, zero height or both
						switch r.Intn(3) {
						case 0:
							it.ImgW = 0
						case 1:
							it.ImgH = 0
						default:
							it.ImgW, it.ImgH = 0, 0
						}
					}
					it.ImgK = r.Intn(4)
					it.Res = core.PickF(r, []float64{1, 2, 0.5, r.Range(0.1, 10)})
				default:
					it.Kind = "link"
					it.URI = core.PickS(r, []string{"https://example.com", "https://example.com/a(b)c", "http://x.y/?q=1&r=(2)", "mailto:a@b.c", "https://example.com/back\\slash", "https://ünï.example/ø", "", "https://example.com/#frag%20ment"})
					x0, y0 := r.Range(0, pg.W), r.Range(0, pg.H)
					it.Rect = []float64{x0, y0, x0 + r.Range(1, 50), y0 + r.Range(1, 20)}
				}
				pg.Items = append(pg.Items, it)
			}
			c.Pages = append(c.Pages, pg)
		}
		if kind == "meta" || r.Chance(0.5) {
			c.SetInfo = true
			for i := 0; i < 5; i++ {
				c.Info = append(c.Info, core.PickS(r, c13Meta))
			}
		}
		if r.Chance(0.4) {
			c.Lang = core.PickS(r, []string{"en", "en-US", "es-CL", "nl", "cs-CZ"})
		}
		return c
	}
}

func c13Image(it *c13Item) image.Image {
	rect := image.Rect(0, 0, it.ImgW, it.ImgH)
	switch it.ImgK {
	case 2:
		img := image.NewGray(rect)
		for i := range img.Pix {
			img.Pix[i] = uint8(37 * i)
		}
		return img
	case 3:
		img := image.NewNRGBA(rect)
		for i := range img.Pix {
			img.Pix[i] = uint8(53 * i)
		}
		return img
	}
	img := image.NewRGBA(rect)
	for y := 0; y < it.ImgH; y++ {
		for x := 0; x < it.ImgW; x++ {
			a := uint8(255)
			if it.ImgK == 1 {
				a = uint8(40 * (x + y))
			}
			img.SetRGBA(x, y, color.RGBA{uint8(x * 30 * int(a) / 255), uint8(y * 30 * int(a) / 255), uint8(a / 2), a})
		}
	}
	return img
}

const c13PtPerMm = 72.0 / 25.4

// c13Write renders the document with the real renderer.
func c13Write(c *c13Case, o *core.Obs) ([]byte, bool) {
	c13LoadFonts()
	var buf bytes.Buffer
	ok := o.Call("pdf renderer", func() {
		var opts *pdf.Options
		if !c.NilOpts {
			opts = &pdf.Options{Compress: c.Compress, SubsetFonts: c.Subset, ImageEncoding: canvas.Lossless}
			if c.Lossy {
				opts.ImageEncoding = canvas.Lossy
			}
		}
		var p *pdf.PDF
		for pi := range c.Pages {
			pg := &c.Pages[pi]
			if pi == 0 {
				p = pdf.New(&buf, pg.W, pg.H, opts)
				if c.SetInfo {
					p.SetInfo(c.Info[0], c.Info[1], c.Info[2], c.Info[3], c.Info[4])
				}
				if c.Lang != "" {
					p.SetLang(c.Lang)
				}
			} else {
				p.NewPage(pg.W, pg.H)
			}
			ctx := canvas.NewContext(p)
			for ii := range pg.Items {
				it := &pg.Items[ii]
				ctx.ResetStyle()
				ctx.ResetView()
				if it.View != nil {
					var v aff
					copy(v[:], it.View)
					ctx.SetView(v.lib())
				}
				grad := func(kind int) canvas.Gradient {
					if kind == 1 {
						g := canvas.NewLinearGradient(canvas.Point{X: 0, Y: 0}, canvas.Point{X: 50, Y: 20})
						g.Add(0, canvas.Red)
						g.Add(0.4, color.RGBA{0, 128, 0, 128})
						g.Add(1, canvas.Blue)
						return g
					}
					g := canvas.NewRadialGradient(canvas.Point{X: 10, Y: 10}, 2, canvas.Point{X: 12, Y: 12}, 30)
					g.Add(0, canvas.Yellow)
					g.Add(1, canvas.Transparent)
					return g
				}
				switch it.Kind {
				case "path":
					ctx.SetFill(nil)
					ctx.SetStroke(nil)
					if it.Fill != nil {
						if it.Grad != 0 {
							ctx.SetFillGradient(grad(it.Grad))
						} else {
							ctx.SetFillColor(nrgba(it.Fill))
						}
					}
					if it.Stroke != nil {
						if it.SGrad != 0 {
							ctx.SetStrokeGradient(grad(it.SGrad))
						} else {
							ctx.SetStrokeColor(nrgba(it.Stroke))
						}
						ctx.SetStrokeWidth(it.Width)
						ctx.SetStrokeCapper(c14Caps[it.Cap])
						ctx.SetStrokeJoiner(c15Joiners[it.Join])
						ctx.SetDashes(0.3, it.Dashes...)
					}
					ctx.SetFillRule(canvas.FillRule(it.Rule))
					ctx.DrawPath(it.X, it.Y, pathFrom(it.Data))
				case "text":
					fam := c13Fonts[it.Font]
					if fam == nil {
						continue
					}
					args := []interface{}{nrgba(it.Fill), canvas.FontRegular, canvas.FontNormal}
					switch it.Deco {
					case 1:
						args = append(args, canvas.FontUnderline)
					case 2:
						args = append(args, canvas.FontStrikethrough)
					case 3:
						args = append(args, canvas.FontDashedUnderline)
					}
					face := fam.Face(it.Size, args...)
					var t *canvas.Text
					if it.Vert != 0 {
						rt := canvas.NewRichText(face)
						rt.SetWritingMode([]canvas.WritingMode{canvas.HorizontalTB, canvas.VerticalRL, canvas.VerticalLR}[it.Vert])
						rt.WriteString(it.Text)
						t = rt.ToText(0, 60+it.Box, canvas.Left, canvas.Top, 0, 0)
					} else if it.Box > 0 {
						t = canvas.NewTextBox(face, it.Text, it.Box, 0, canvas.Justify, canvas.Top, 0, 0)
					} else {
						t = canvas.NewTextLine(face, it.Text, canvas.Left)
					}
					ctx.DrawText(it.X, it.Y, t)
				case "image":
					ctx.DrawImage(it.X, it.Y, c13Image(it), canvas.DPMM(it.Res))
				case "link":
					p.AddLink(it.URI, canvas.Rect{X0: it.Rect[0], Y0: it.Rect[1], X1: it.Rect[2], Y1: it.Rect[3]})
				}
			}
		}
		if err := p.Close(); err != nil {
			panic("Close: " + err.Error())
		}
	})
	return buf.Bytes(), ok
}

func c13Check(ci any, o *core.Obs) {
	c := ci.(*c13Case)
	checkGlobals(o)
	data, ok := c13Write(c, o)
	if !ok {
		return
	}
	o.NonTrivial()
	if fn := os.Getenv("VERIF_C13_DUMP"); fn != "" {
		os.WriteFile(fn, data, 0o644) // development aid
	}
	f := refpdf.Parse(data)
	f.CheckReferences()
	f.CheckStreams()
	pages := f.Pages()
	nOps := 0
	for _, pg := range pages {
		nOps += len(f.CheckContent(pg))
	}
	o.Decided(1)
	fail := func(tag, format string, a ...any) {
		o.Fail(tag, format+"; document: %s", append(a, c13Str(c))...)
	}
	for i, p := range f.Problems {
		if i >= 3 {
			break
		}
		fail(p.Tag, "%s", p.Msg)
	}
	if len(f.Problems) > 0 {
		return
	}
	nStreams, nFonts, nImages := 0, 0, 0
	for _, ob := range f.Objects {
		switch v := ob.(type) {
		case *refpdf.Stream:
			nStreams++
			if v.Dict["Subtype"] == refpdf.Name("Image") {
				nImages++
			}
		case refpdf.Dict:
			if v["Type"] == refpdf.Name("Font") {
				nFonts++
			}
		}
	}
	o.Count("objects_read", float64(len(f.Objects)))
	o.Count("streams_decoded", float64(nStreams))
	o.Count("font_objects", float64(nFonts))
	o.Count("image_objects", float64(nImages))
	o.Count("pages_read", float64(len(pages)))
	o.Count("content_operators_read", float64(nOps))
	// pages
	o.Decided(1)
	if len(pages) != len(c.Pages) {
		fail("page-count", "the document has %d pages, %d were written", len(pages), len(c.Pages))
		return
	}
	for i, pg := range pages {
		want := [4]float64{0, 0, c.Pages[i].W * c13PtPerMm, c.Pages[i].H * c13PtPerMm}
		for k := 0; k < 4; k++ {
			if math.Abs(pg.MediaBox[k]-want[k]) > 1e-6*(1+want[k]) {
				fail("mediabox", "page %d (object %d) has MediaBox %v, expected %v", i, pg.Num, pg.MediaBox, want)
				return
			}
		}
		// links
		var links []c13Item
		for _, it := range c.Pages[i].Items {
			if it.Kind == "link" {
				links = append(links, it)
			}
		}
		annots, _ := f.Resolve(pg.Dict["Annots"]).(refpdf.Array)
		if len(annots) != len(links) {
			fail("annots", "page %d has %d annotations, %d links were added", i, len(annots), len(links))
			return
		}
		for k, a := range annots {
			ad, _ := f.Resolve(a).(refpdf.Dict)
			act, _ := f.Resolve(ad["A"]).(refpdf.Dict)
			uri, isStr := f.Resolve(act["URI"]).(refpdf.String)
			if ad == nil || ad["Subtype"] != refpdf.Name("Link") || !isStr {
				fail("annots", "page %d annotation %d is not a link with a URI action: %v", i, k, ad)
				return
			}
			if string(uri) != links[k].URI {
				fail("link-uri", "page %d link %d has URI %q, %q was added", i, k, string(uri), links[k].URI)
				return
			}
		}
	}
	// document information
	info, _ := f.Resolve(f.Trailer["Info"]).(refpdf.Dict)
	if c.SetInfo {
		o.Decided(1)
		for k, key := range []refpdf.Name{"Title", "Subject", "Keywords", "Author", "Creator"} {
			want := c.Info[k]
			v, has := info[key]
			if !has {
				if want != "" {
					fail("info-missing", "document information has no %s, %q was set", key, want)
					return
				}
				continue
			}
			s, isStr := f.Resolve(v).(refpdf.String)
			if !isStr {
				fail("info", "document information %s is not a string", key)
				return
			}
			if got := refpdf.TextString(s); got != want {
				fail("info-verbatim", "document information %s reads %q (bytes % x), %q was set", key, got, []byte(s), want)
				return
			}
		}
		o.Count("info_fields_compared", 5)
	}
	if c.Lang != "" {
		root, _ := f.Resolve(f.Trailer["Root"]).(refpdf.Dict)
		s, isStr := f.Resolve(root["Lang"]).(refpdf.String)
		o.Decided(1)
		if !isStr || refpdf.TextString(s) != c.Lang {
			fail("lang", "catalog Lang reads %q (present %v), %q was set (creator %q)", refpdf.TextString(s), isStr, c.Lang, strings.Join(c.Info, "|"))
			return
		}
	}
}

func c13Str(c *c13Case) string {
	s := fmt.Sprintf("compress %v subset %v lossy %v nilopts %v info %q lang %q;", c.Compress, c.Subset, c.Lossy, c.NilOpts, c.Info, c.Lang)
	for i, pg := range c.Pages {
		s += fmt.Sprintf(" page %d %.5gx%.5g:", i, pg.W, pg.H)
		for _, it := range pg.Items {
			switch it.Kind {
			case "path":
				s += fmt.Sprintf(" path(%s fill %v grad %d stroke %v sgrad %d w %.3g dashes %v)", dstr(it.Data), it.Fill, it.Grad, it.Stroke, it.SGrad, it.Width, it.Dashes)
			case "text":
				s += fmt.Sprintf(" text(%q font %s size %.3g deco %d box %.3g vertical %d colour %v)", it.Text, c13FontFiles[it.Font], it.Size, it.Deco, it.Box, it.Vert, it.Fill)
			case "image":
				s += fmt.Sprintf(" image(%dx%d kind %d)", it.ImgW, it.ImgH, it.ImgK)
			case "link":
				s += fmt.Sprintf(" link(%q)", it.URI)
			}
		}
	}
	return s
}

func c13Describe(ci any) any { return map[string]any{"document": c13Str(ci.(*c13Case))} }

func init() {
	core.Register(&core.Property{
		ID:    "C13",
		Title: "Every PDF produced is a structurally valid PDF file",
		Rule: "documents of 1-5 pages (sizes 10-500 mm) with 0-6 items per page: styled paths (opaque/translucent/transparent colours, linear and radial gradients as fill or stroke, dashes incl. zeros, 3 caps x 4 joins, fill rules, views), text in a TrueType and two CFF fonts (ASCII, accented, ligatures, CJK and emoji missing from the font, tabs, newlines, text boxes, decorations), images (RGBA opaque / with alpha, NRGBA, gray; lossless and lossy), links (URIs with parentheses, backslashes, non-ASCII), metadata (ASCII, escapes, non-ASCII incl. characters whose UTF-16 code contains 0x0D/0x28/0x29/0x5C, control characters), language, x {compressed, plain} x {subsetted, full fonts} x nil options; " +
			"the bytes are read by harness/refpdf: header, linear body scan, 20-byte cross-reference entries, offsets both ways, trailer Size/Root/Info, every reference, stream Length and filters (Flate, ASCII85, DCT), page tree counts and parents, MediaBox, content-stream syntax, operator arity, q/Q and BT/ET balance, resource names (Font, XObject, ExtGState, Pattern, Shading, ColorSpace), link annotations, Info fields and Lang decoded per 7.9.2.2; every document is non-trivial",
		Strata: []core.Stratum{
			{Name: "documents", Quick: 1500, Thorough: 40000, Gen: genC13("documents")},
			{Name: "text", Quick: 500, Thorough: 15000, Gen: genC13("text")},
			{Name: "meta", Quick: 1000, Thorough: 30000, Gen: genC13("meta")},
			{Name: "empty-images", Quick: 300, Thorough: 5000, Gen: genC13("empty-images"), Note: "documents with images of zero width or height among the other content"},
		},
		NewCase:  func() any { return &c13Case{} },
		Check:    c13Check,
		Describe: c13Describe,
		Assumptions: []string{
			"harness/refpdf implements the file structure, object syntax, literal-string rules (7.3.4.2 incl. end-of-line normalisation), filters and operator table of ISO 32000-1; encryption, object streams, cross-reference streams and incremental updates are not read (the writer does not produce them)",
		},
	})
}
