package mon

import (
	"math"
	"strings"

	"github.com/tdewolff/canvas"

	"verif/core"
	"verif/geom"
)

// c02Case is one path (closed sub-paths) and a fill rule.
type c02Case struct {
	P      []float64
	Rule   int
	Curved bool
	Kind   string
}

func genC02(kind string) func(r *core.Rng) any {
	return func(r *core.Rng) any {
		var p *canvas.Path
		curved := false
		switch kind {
		case "simple":
			cs := genContours(r, false)
			if r.Bool() {
				cs = append(cs, genContours(r, false)...)
			}
			p = contoursPath(cs)
		case "grid":
			cs := genContours(r, true)
			if r.Bool() {
				cs = append(cs, genContours(r, true)...)
			}
			p = contoursPath(cs)
		case "curved":
			p = &canvas.Path{}
			for i, n := 0, r.IntRange(1, 3); i < n; i++ {
				curvedContour(r, p)
			}
			curved = true
		case "nested":
			// 3-5 contours nested in each other (islands in holes in ...), each with its own orientation,
			// in one or two groups; a quarter of the cases on the integer grid (squares)
			var cs [][]Pt
			grid := r.Chance(0.25)
			for g, ng := 0, r.IntRange(1, 2); g < ng; g++ {
				cx, cy := float64(g)*150+r.Range(-20, 20), r.Range(-20, 20)
				rad := r.Range(30, 60)
				if grid {
					cx, cy, rad = math.Round(cx), math.Round(cy), 48
				}
				for k, nk := 0, r.IntRange(3, 5); k < nk; k++ {
					if grid {
						sq := []Pt{{cx - rad, cy - rad}, {cx + rad, cy - rad}, {cx + rad, cy + rad}, {cx - rad, cy + rad}}
						if r.Bool() {
							sq[1], sq[3] = sq[3], sq[1]
						}
						cs = append(cs, sq)
						rad = math.Floor(rad * r.Range(0.4, 0.8))
						if rad < 1 {
							break
						}
					} else {
						cs = append(cs, starPoly(r, cx, cy, rad*0.6, rad, r.IntRange(4, 9), r.Bool()))
						rad *= r.Range(0.3, 0.55)
					}
				}
			}
			p = contoursPath(cs)
		case "selfx":
			cs := [][]Pt{selfCrossing(r, false)}
			if r.Chance(0.4) {
				cs = append(cs, genContours(r, false)...)
			}
			p = contoursPath(cs)
		case "selfx-grid":
			cs := [][]Pt{selfCrossing(r, true)}
			if r.Chance(0.4) {
				cs = append(cs, genContours(r, true)...)
			}
			p = contoursPath(cs)
		}
		return &c02Case{P: dataCopy(p), Rule: r.Intn(4), Curved: curved, Kind: kind}
	}
}

func c02Corpus() []any {
	var out []any
	for _, line := range strings.Split(strings.TrimSpace(corpusSettlePaths), "\n") {
		p, err := canvas.ParseSVGPath(line)
		if err != nil || !allClosed(p) {
			continue
		}
		for rule := 0; rule < 4; rule++ {
			out = append(out, &c02Case{P: dataCopy(p), Rule: rule, Curved: !isFlat(p), Kind: "corpus"})
		}
	}
	return out
}

// canonicalChecks verifies clauses (2)-(4) on a settled output: winding 0/1 at sample points,
// local orientation of every edge, no proper crossings. It returns the number of comparisons decided.
func canonicalChecks(o *core.Obs, label string, polys []geom.Poly, pts []Pt, marginOut float64) {
	// (2) winding number 0 or 1 everywhere off the output boundary
	for _, x := range pts {
		if geom.DistPtPolys(x, polys) <= marginOut {
			continue
		}
		w := geom.Winding(x, polys)
		o.Decided(1)
		if w != 0 && w != 1 {
			o.Fail("winding01:"+label, "%s: winding number of the output around %v is %d (must be 0 or 1)", label, x, w)
			break
		}
	}
	// (3) local orientation: just left of every edge the winding is 1 (the inside of a
	// counter-clockwise filling contour, the outside of a clockwise hole). The right-hand side is 0
	// unless another contour touches the edge there (adjacent cells are allowed), which (2) bounds.
	const e = 1e-5
	for i := range polys {
		v := polys[i].V
		for j := 0; j+1 < len(v); j++ {
			a, b := v[j].P, v[j+1].P
			d := b.Sub(a)
			l := d.Len()
			if l < 8*e {
				continue
			}
			m := a.Lerp(b, 0.5)
			n := Pt{-d.Y / l, d.X / l}
			left := m.Add(n.Mul(e))
			// skip when any other edge comes within 3e of the midpoint (slivers, T-junctions)
			crowded := false
			for i2 := range polys {
				v2 := polys[i2].V
				for j2 := 0; j2+1 < len(v2) && !crowded; j2++ {
					if i2 == i && j2 == j {
						continue
					}
					if geom.DistPtSeg(m, v2[j2].P, v2[j2+1].P) < 3*e {
						crowded = true
					}
				}
			}
			if crowded {
				o.Count("edges_skipped_crowded", 1)
				continue
			}
			wl := geom.Winding(left, polys)
			o.Decided(1)
			o.Count("edges_oriented", 1)
			if wl != 1 {
				o.Fail("orientation:"+label, "%s: edge %v->%v has winding %d on its left (filling contours must be counter-clockwise, holes clockwise)", label, a, b, wl)
				return
			}
		}
	}
	// (4) no two output edges properly cross
	type edge struct{ a, b Pt }
	var es []edge
	for i := range polys {
		v := polys[i].V
		for j := 0; j+1 < len(v); j++ {
			es = append(es, edge{v[j].P, v[j+1].P})
		}
	}
	if len(es) <= 1500 {
		for i := range es {
			for j := i + 1; j < len(es); j++ {
				if math.Max(es[i].a.X, es[i].b.X) < math.Min(es[j].a.X, es[j].b.X) || math.Max(es[j].a.X, es[j].b.X) < math.Min(es[i].a.X, es[i].b.X) {
					continue
				}
				if geom.ProperCross(es[i].a, es[i].b, es[j].a, es[j].b) {
					// a crossing within the snap grid of an end point is vertex contact after rounding
					if crossNearEndpoint(es[i].a, es[i].b, es[j].a, es[j].b, 4e-8) {
						o.Count("crossings_within_snap_grid", 1)
						continue
					}
					o.Fail("crossing:"+label, "%s: output edges %v->%v and %v->%v cross", label, es[i].a, es[i].b, es[j].a, es[j].b)
					return
				}
			}
		}
		o.Decided(1)
	} else {
		o.Count("crossing_test_skipped_large", 1)
	}
}

// crossNearEndpoint: the crossing point of ab and cd lies within tol of an end point of either.
func crossNearEndpoint(a, b, c, d Pt, tol float64) bool {
	r, s := b.Sub(a), d.Sub(c)
	den := r.Cross(s)
	if den == 0 {
		return true
	}
	t := c.Sub(a).Cross(s) / den
	x := a.Add(r.Mul(t))
	return x.Dist(a) < tol || x.Dist(b) < tol || x.Dist(c) < tol || x.Dist(d) < tol
}

func c02Check(ci any, o *core.Obs) {
	c := ci.(*c02Case)
	checkGlobals(o)
	P := pathFrom(c.P)
	eps, margin := 1e-9, 1e-6
	if c.Curved {
		eps, margin = 1e-5, 2*canvas.Tolerance+1e-3
	}
	polyIn, err := refPolys(P, eps, true)
	if err != nil {
		o.Skip("input not decodable")
		return
	}
	var flatIn []geom.Poly
	if c.Curved {
		o.Guard("Path.Flatten", func() { flatIn, _ = refPolys(pathFrom(c.P).Flatten(canvas.Tolerance), 1e-9, true) })
		if flatIn == nil {
			o.Skip("input could not be flattened")
			return
		}
	}
	rule := rules[c.Rule]
	entry := "Path.Settle(" + ruleNames[c.Rule] + ")"
	var S1 *canvas.Path
	if !o.Call("Path.Settle", func() { S1 = pathFrom(c.P).Settle(rule) }) {
		return
	}
	if S1 == nil {
		o.Fail("nil", "%s returned nil", entry)
		return
	}
	poly1, err := refPolys(S1, 1e-9, true)
	if err != nil {
		o.Fail("malformed", "%s returned undecodable data: %v", entry, err)
		return
	}
	if !isFlat(S1) {
		o.Fail("notflat", "%s returned curved segments: %s", entry, pstr(S1))
		return
	}
	for _, s := range S1.Split() {
		if !s.Closed() {
			o.Fail("open-output", "%s of closed sub-paths returned an open sub-path: %s", entry, pstr(S1))
			return
		}
	}
	r := caseRng(c, "C02pts")
	cand := samplePoints(r, polyIn, 48, 24)
	var pts []Pt
	nFilled := 0
	for _, x := range cand {
		if geom.DistPtPolys(x, polyIn) <= margin {
			continue
		}
		w := geom.Winding(x, polyIn)
		if c.Curved {
			if geom.DistPtPolys(x, flatIn) <= 1e-3 || geom.Winding(x, flatIn) != w {
				continue
			}
		}
		pts = append(pts, x)
		want := fillsRule(c.Rule, w)
		if want {
			nFilled++
		}
		got := geom.Winding(x, poly1) != 0
		o.Decided(1)
		if want != got {
			o.Fail("region", "%s: point %v has input winding %d so filled=%v, but output fills=%v; output %s", entry, x, w, want, got, pstr(S1))
			break
		}
	}
	o.Count("points_decidable", float64(len(pts)))
	if len(pts) < 8 {
		o.Skip("fewer than 8 decidable points")
		return
	}
	if nFilled > 0 && len(polyIn) > 0 {
		o.NonTrivial()
	}
	canonicalChecks(o, "Settle", poly1, pts, 1e-7)
	// (4b) Paths.Settle ("the same as Path.Settle, but faster if paths are already split"): the sub-paths
	// are cut out of the raw data here, one Path each
	{
		var ps canvas.Paths
		start := 0
		for i := 0; i < len(c.P); {
			n := 4
			switch c.P[i] {
			case 4:
				n = 6
			case 8, 16:
				n = 8
			}
			if c.P[i] == 1 && i > start {
				ps = append(ps, pathFrom(c.P[start:i]))
				start = i
			}
			i += n
		}
		ps = append(ps, pathFrom(c.P[start:]))
		// every second pair of neighbouring elements is merged into one element with two sub-paths
		// ("already split" is not required of the elements)
		if len(ps) >= 2 {
			var merged canvas.Paths
			// groups of 3, 2, 1, 4, ... neighbouring sub-paths
			sizes := []int{3, 2, 1, 4}
			for i, g := 0, 0; i < len(ps); g++ {
				n := sizes[g%len(sizes)]
				if i+n > len(ps) {
					n = len(ps) - i
				}
				var d []float64
				for k := 0; k < n; k++ {
					d = append(d, ps[i+k].Data()...)
				}
				merged = append(merged, pathFrom(d))
				i += n
			}
			ps = merged
		}
		before := append(canvas.Paths(nil), ps...)
		var beforeData [][]float64
		for _, q := range ps {
			beforeData = append(beforeData, append([]float64(nil), q.Data()...))
		}
		defer func() {
			for i := range before {
				if ps[i] != before[i] || !bitsEqual(ps[i].Data(), beforeData[i]) {
					o.Fail("side-effect:Paths.Settle", "Paths.Settle replaced or modified element %d of the caller's Paths: %s became %s", i, dstr(beforeData[i]), pstr(ps[i]))
					break
				}
			}
		}()
		var SP *canvas.Path
		entryP := "Paths.Settle(" + ruleNames[c.Rule] + ")"
		if !o.Call("Paths.Settle", func() { SP = ps.Settle(rule) }) {
			return
		}
		if SP == nil {
			o.Fail("nil", "%s returned nil", entryP)
			return
		}
		polyP, err := refPolys(SP, 1e-9, true)
		if err != nil {
			o.Fail("malformed", "%s returned undecodable data: %v", entryP, err)
			return
		}
		for _, x := range pts {
			want := fillsRule(c.Rule, geom.Winding(x, polyIn))
			got := geom.Winding(x, polyP) != 0
			o.Decided(1)
			if want != got {
				o.Fail("region-paths", "%s of the %d sub-paths: point %v has input winding %d so filled=%v, but output fills=%v; output %s", entryP, len(ps), x, geom.Winding(x, polyIn), want, got, pstr(SP))
				break
			}
		}
	}
	// (5) idempotence
	var S2 *canvas.Path
	if !o.Call("Path.Settle", func() { S2 = S1.Copy().Settle(canvas.NonZero) }) {
		return
	}
	poly2, err := refPolys(S2, 1e-9, true)
	if err != nil {
		o.Fail("malformed2", "Settle(Settle(p)) returned undecodable data: %v", err)
		return
	}
	for _, x := range pts {
		if geom.DistPtPolys(x, poly1) <= 1e-6 {
			continue
		}
		a, b := geom.Winding(x, poly1) != 0, geom.Winding(x, poly2) != 0
		o.Decided(1)
		if a != b {
			o.Fail("idempotent-region", "settling the settled path changes the region at %v: %v -> %v; first %s second %s", x, a, b, pstr(S1), pstr(S2))
			break
		}
	}
	canonicalChecks(o, "Settle∘Settle", poly2, pts, 1e-7)
	h12, at1 := geom.DirectedHausdorff(poly1, poly2)
	h21, at2 := geom.DirectedHausdorff(poly2, poly1)
	o.Max("idempotence_hausdorff", math.Max(h12, h21))
	o.Decided(1)
	if h12 > c02IdemTol || h21 > c02IdemTol {
		at := at1
		if h21 > h12 {
			at = at2
		}
		o.Fail("idempotent-form", "settling the settled path moves its boundary by %.3g (> %.3g) near %v; first %s second %s", math.Max(h12, h21), c02IdemTol, at, pstr(S1), pstr(S2))
	}
	// area is rule independent for a canonical path and equals the reference area of winding {0,1}
	checkGlobals(o)
}

// c02IdemTol: vertices of a settled path may move only within the snap-grid tolerance when it is
// settled again: 4 grid cells of 1e-8 (diagonal snapping on both passes).
const c02IdemTol = 4e-8

func c02Describe(ci any) any {
	c := ci.(*c02Case)
	return map[string]any{"kind": c.Kind, "rule": ruleNames[c.Rule], "P": dstr(c.P)}
}

func init() {
	core.Register(&core.Property{
		ID:                "C02",
		Title:             "Settle preserves the filled region and returns a canonical simple path",
		StatesTermination: false,
		Rule: "single paths of closed sub-paths (1-6 simple contours, integer-grid contours, curved contours, self-crossing polygons, the inputs of TestPathSettle) x the four fill rules; " +
			"region compared at up to 72 points off the boundary, output winding in {0,1}, every output edge has winding 1 on its left and 0 on its right, no proper crossings (O(n^2)), second Settle keeps region and form; " +
			"non-trivial = at least 8 decidable points of which one is filled; distinct = distinct case hash",
		Strata: []core.Stratum{
			{Name: "simple", Quick: 3000, Thorough: 120000, Gen: genC02("simple")},
			{Name: "grid", Quick: 3000, Thorough: 120000, Gen: genC02("grid")},
			{Name: "nested", Quick: 1500, Thorough: 40000, Gen: genC02("nested"), Note: "3-5 levels of nesting with independent orientations"},
			{Name: "curved", Quick: 500, Thorough: 20000, Gen: genC02("curved")},
			{Name: "selfx", Quick: 1500, Thorough: 60000, Gen: genC02("selfx")},
			{Name: "selfx-grid", Quick: 1000, Thorough: 40000, Gen: genC02("selfx-grid"), WitnessOnly: true, Note: "self-crossing integer-grid polygons: 3e-5 panics / wrong regions / non-idempotent (F-C02-selfx-grid)"},
		},
		NewCase:  func() any { return &c02Case{} },
		Corpus:   c02Corpus,
		Check:    c02Check,
		Describe: c02Describe,
		Assumptions: []string{
			"reference winding numbers on the input's own vertices (curves densely flattened) are the ground truth",
			"open sub-paths are not generated: the library keeps them open by design (see finding F-C02-open-subpaths)",
			"a crossing of two output edges within 4e-8 of an end point counts as vertex contact after snap rounding",
		},
	})
}
