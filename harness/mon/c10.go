package mon

import (
	"encoding/json"
	"fmt"
	"math"
	"strconv"

	"github.com/tdewolff/canvas"

	"verif/core"
	"verif/geom"
)

// fl is a float64 that survives JSON also when it is NaN or infinite.
type fl float64

func (f fl) MarshalJSON() ([]byte, error) {
	v := float64(f)
	if math.IsNaN(v) || math.IsInf(v, 0) {
		return json.Marshal(strconv.FormatFloat(v, 'g', -1, 64))
	}
	return json.Marshal(v)
}
func (f *fl) UnmarshalJSON(b []byte) error {
	var v float64
	if err := json.Unmarshal(b, &v); err == nil {
		*f = fl(v)
		return nil
	}
	var s string
	if err := json.Unmarshal(b, &s); err != nil {
		return err
	}
	v, err := strconv.ParseFloat(s, 64)
	*f = fl(v)
	return err
}

// c10Op is one builder call.
type c10Op struct {
	Op string // MoveTo LineTo QuadTo CubeTo ArcTo Arc Close Shape Join Append Parse
	A  []fl   `json:",omitempty"`
	B  []bool `json:",omitempty"`
	S  string `json:",omitempty"`
}

type c10Case struct {
	Ops  []c10Op
	Kind string // "finite" | "nonfinite"
}

// ---- generator -----------------------------------------------------------------------------------

type c10gen struct {
	r       *core.Rng
	cur     Pt
	pool    []float64
	nonfin  bool
	recentP []Pt
}

func (g *c10gen) coord() float64 {
	r := g.r
	if g.nonfin && r.Chance(0.15) {
		return core.PickF(r, []float64{math.NaN(), math.Inf(1), math.Inf(-1), 1e308, -1e308, 5e-324})
	}
	switch r.Intn(10) {
	case 0, 1, 2, 3:
		return math.Round(r.Range(-10, 10))
	case 4, 5:
		return r.Range(-50, 50)
	case 6:
		return core.PickF(r, []float64{0, 1, -1, 1e9, -1e9, 1e-9, 0.5})
	default:
		if len(g.pool) > 0 {
			v := g.pool[r.Intn(len(g.pool))]
			if r.Bool() {
				v += core.PickF(r, []float64{1e-12, -1e-12, 1e-11, 1e-10, -1e-10, 1e-9, -1e-9, 0})
			}
			return v
		}
		return math.Round(r.Range(-10, 10))
	}
}

func (g *c10gen) point() Pt {
	r := g.r
	var p Pt
	switch r.Intn(8) {
	case 0: // the current point again (zero-length request)
		p = g.cur
	case 1: // exactly collinear continuation of the last two points
		if n := len(g.recentP); n >= 2 {
			a, b := g.recentP[n-2], g.recentP[n-1]
			k := float64(r.IntRange(1, 3))
			if r.Chance(0.3) {
				k = -k // back along the same line
			}
			p = Pt{b.X + k*(b.X-a.X), b.Y + k*(b.Y-a.Y)}
		} else {
			p = Pt{g.coord(), g.coord()}
		}
	case 2: // tiny perturbation of the current point
		e := core.PickF(r, []float64{1e-12, 1e-11, 1e-10, 2e-10, 1e-9})
		p = Pt{g.cur.X + e, g.cur.Y - e}
	default:
		p = Pt{g.coord(), g.coord()}
	}
	g.pool = append(g.pool, p.X, p.Y)
	return p
}

func (g *c10gen) moved(p Pt) {
	g.cur = p
	g.recentP = append(g.recentP, p)
}

var c10Shapes = []string{"Rectangle", "RoundedRectangle", "BeveledRectangle", "Circle", "Ellipse", "Triangle", "RegularPolygon", "RegularStarPolygon", "StarPolygon", "Line", "Arc", "EllipticalArc", "Grid"}

func (g *c10gen) shapeOp(op string) c10Op {
	r := g.r
	dim := func() fl {
		if g.nonfin && r.Chance(0.2) {
			return fl(core.PickF(r, []float64{math.NaN(), math.Inf(1), -1, 0}))
		}
		return fl(core.PickF(r, []float64{0, 1e-12, 0.5, 1, 3, 10, 250, -2}))
	}
	return c10Op{Op: op, S: core.PickS(r, c10Shapes), A: []fl{dim(), dim(), dim(), fl(r.IntRange(-1, 9)), fl(r.IntRange(0, 5)), fl(r.Range(-720, 720)), fl(r.Range(-720, 720))}, B: []bool{r.Bool()}}
}

// collinearT picks the position of a control point along the chord (0 = start, 1 = end).
func collinearT(r *core.Rng) float64 {
	if r.Bool() {
		return r.Range(0, 1)
	}
	return core.PickF(r, []float64{-1, -0.5, 0, 0.25, 0.5, 1, 1.5, 2, 3, r.Range(-1, 3)})
}

func genC10(nonfin bool) func(r *core.Rng) any {
	return func(r *core.Rng) any {
		g := &c10gen{r: r, nonfin: nonfin}
		c := &c10Case{Kind: "finite"}
		if nonfin {
			c.Kind = "nonfinite"
		}
		n := r.IntRange(1, 25)
		for i := 0; i < n; i++ {
			switch r.Intn(16) {
			case 0, 1:
				p := g.point()
				c.Ops = append(c.Ops, c10Op{Op: "MoveTo", A: []fl{fl(p.X), fl(p.Y)}})
				g.moved(p)
			case 2, 3, 4, 5:
				p := g.point()
				c.Ops = append(c.Ops, c10Op{Op: "LineTo", A: []fl{fl(p.X), fl(p.Y)}})
				g.moved(p)
			case 6, 7:
				cp, p := g.point(), g.point()
				if r.Chance(0.3) {
					// control point on the line through the chord, inside it or beyond either end: degenerate
					cp = g.cur.Lerp(p, collinearT(r))
				}
				c.Ops = append(c.Ops, c10Op{Op: "QuadTo", A: []fl{fl(cp.X), fl(cp.Y), fl(p.X), fl(p.Y)}})
				g.moved(p)
			case 8, 9:
				c1, c2, p := g.point(), g.point(), g.point()
				if r.Chance(0.3) {
					c1, c2 = g.cur.Lerp(p, collinearT(r)), g.cur.Lerp(p, collinearT(r))
				}
				c.Ops = append(c.Ops, c10Op{Op: "CubeTo", A: []fl{fl(c1.X), fl(c1.Y), fl(c2.X), fl(c2.Y), fl(p.X), fl(p.Y)}})
				g.moved(p)
			case 10, 11:
				p := g.point()
				rad := func() float64 {
					if g.nonfin && r.Chance(0.2) {
						return core.PickF(r, []float64{math.NaN(), math.Inf(1)})
					}
					return core.PickF(r, []float64{0, 1e-12, 1e-9, 0.1, 1, 2, 5, 20, 1e9, -3})
				}
				rot := core.PickF(r, []float64{0, 30, 45, 90, 180, 270, 360, 400, -30, 1e-9, r.Range(-720, 720)})
				// radii: hostile values, but the ratio of the two stays below 1e4: flattening an arc whose
				// radii differ by 1e18 (1e9 against 1e-9 after the radius correction) takes 1e9 steps, which
				// is recorded as an observation in DESIGN.md rather than run on every case
				rx := rad()
				ry := rx * core.PickF(r, []float64{1, 1, 0.5, 0.1, 0.01, 1e-4, 2, 10})
				if r.Chance(0.3) && !math.IsNaN(rx) {
					ry = core.PickF(r, []float64{0, 0.1, 1, 2, 5, 20, -3})
					if ry != 0 && rx != 0 && (math.Abs(rx) > 1e4*math.Abs(ry) || math.Abs(ry) > 1e4*math.Abs(rx)) {
						ry = rx
					}
				}
				if r.Bool() {
					rx, ry = ry, rx
				}
				c.Ops = append(c.Ops, c10Op{Op: "ArcTo", A: []fl{fl(rx), fl(ry), fl(rot), fl(p.X), fl(p.Y)}, B: []bool{r.Bool(), r.Bool()}})
				g.moved(p)
			case 12:
				rx, ry := core.PickF(r, []float64{0, 1, 2, 5, 1e-9}), core.PickF(r, []float64{0, 1, 2, 5})
				t0, t1 := core.PickF(r, []float64{0, 90, 180, -90, 360, r.Range(-800, 800)}), core.PickF(r, []float64{0, 90, 360, 720, -360, 810, r.Range(-800, 800)})
				c.Ops = append(c.Ops, c10Op{Op: "Arc", A: []fl{fl(rx), fl(ry), fl(core.PickF(r, []float64{0, 45, 90, r.Range(-360, 360)})), fl(t0), fl(t1)}})
				// the end point is not tracked; continue from an unrelated point
			case 13:
				c.Ops = append(c.Ops, c10Op{Op: "Close"})
				if len(g.recentP) > 0 {
					g.cur = g.recentP[0]
				}
			case 14:
				c.Ops = append(c.Ops, g.shapeOp(core.PickS(r, []string{"Join", "Append"})))
			default:
				s := core.PickS(r, []string{"M0 0L1 1", "L5 5z", "M1 2Q3 4 5 6", "C1 1 2 2 3 0z", "A5 5 0 0 1 10 0", "M0 0H5V5h-5z", "m1 1l2 0 0 2z", "M0 0T1 1S2 2 3 3", "M0 0a1 1 0 111 1"})
				if r.Chance(0.4) {
					// valid path data of every command kind, cut off at an arbitrary byte
					full := genC11ParseValid(r).(*c11Case).S
					s = full[:r.Intn(len(full)+1)]
				}
				c.Ops = append(c.Ops, c10Op{Op: "Parse", S: s})
			}
		}
		return c
	}
}

// ---- shadow model --------------------------------------------------------------------------------

// shadow replays the requested drawing in reference geometry.
type shadow struct {
	subs    []geom.Sub
	cur     Pt
	start   Pt
	open    bool // a sub-path is open for appending
	tracked bool // false once an untracked op (Arc, shapes, parse) moved the pen
	hasArc  bool
	// justMoved: the last call was MoveTo. A Close directly after a MoveTo removes the MoveTo in the
	// library (pinned by TestPathCommands 'M3 4z'), so that the next segment starts from the previous
	// pen position instead of the requested one: finding F-C10-moveto-close, not followed by the shadow
	justMoved bool
}

func (s *shadow) moveTo(p Pt) { s.cur, s.start, s.open, s.justMoved = p, p, false, true }
func (s *shadow) begin() {
	s.justMoved = false
	if !s.open {
		s.subs = append(s.subs, geom.Sub{Start: s.cur})
		s.open = true
		s.start = s.cur
	}
}
func (s *shadow) add(sg geom.Seg) {
	// requests of zero length (all points within Epsilon = 1e-10 of the current point, per coordinate)
	// are dropped by the builder and trace nothing; differences next to Epsilon are decided by
	// rounding, the shadow does not follow such histories
	dev := func(p Pt) float64 { return math.Max(math.Abs(p.X-s.cur.X), math.Abs(p.Y-s.cur.Y)) }
	d := dev(sg.P3)
	switch sg.Kind {
	case geom.Quad:
		d = math.Max(d, dev(sg.C1))
	case geom.Cube:
		d = math.Max(d, math.Max(dev(sg.C1), dev(sg.C2)))
	}
	if d > 0.5e-10 && d < 2e-10 {
		s.tracked = false
	}
	if d <= 1e-10 {
		return
	}
	if sg.Kind == geom.Arc {
		s.hasArc = true
		// an arc whose chord is tiny compared with its radii has an ill-conditioned centre: the shadow
		// cannot say where it runs
		if chord := sg.P3.Dist(s.cur); chord < 1e-4*math.Max(sg.Rx, sg.Ry) {
			s.tracked = false
		}
		// radii that (almost) need the SVG radius correction give a half ellipse whose side is decided
		// by rounding: not followed either
		cp, sp := math.Cos(sg.Phi), math.Sin(sg.Phi)
		dx, dy := (s.cur.X-sg.P3.X)/2, (s.cur.Y-sg.P3.Y)/2
		x1, y1 := cp*dx+sp*dy, -sp*dx+cp*dy
		if lam := x1*x1/(sg.Rx*sg.Rx) + y1*y1/(sg.Ry*sg.Ry); lam > 0.98 {
			s.tracked = false
		}
	}
	for _, v := range []float64{sg.P3.X, sg.P3.Y, sg.C1.X, sg.C1.Y, sg.C2.X, sg.C2.Y} {
		if math.Abs(v) > 1e6 {
			s.tracked = false // 1e9-sized coordinates next to 1e-9-sized details: only well-formedness and totality
		}
	}
	s.begin()
	sg.P0 = s.cur
	sub := &s.subs[len(s.subs)-1]
	sub.Segs = append(sub.Segs, sg)
	s.cur = sg.P3
}

// arc follows Path.Arc as documented: an arc of the ellipse with radii rx, ry rotated by rot degrees,
// from angle theta0 to theta1 (degrees, counter-clockwise when theta0 < theta1), starting at the current
// point; a difference of 360 degrees or more draws one full turn and the remainder. The arc is requested
// in pieces of at most 90 degrees. Zero, negative or tiny radii are not followed.
func (s *shadow) arc(rx, ry, rot, theta0, theta1 float64) {
	if !(rx >= 0.5 && ry >= 0.5 && rx <= 1e3 && ry <= 1e3) || !finite(rot, theta0, theta1) || math.Abs(theta0) > 1e4 || math.Abs(theta1) > 1e4 {
		s.tracked = false
		return
	}
	phi, t0, t1 := rot*math.Pi/180, theta0*math.Pi/180, theta1*math.Pi/180
	pos := func(t float64) Pt {
		return Pt{rx*math.Cos(t)*math.Cos(phi) - ry*math.Sin(t)*math.Sin(phi), rx*math.Cos(t)*math.Sin(phi) + ry*math.Sin(t)*math.Cos(phi)}
	}
	c := s.cur.Sub(pos(t0))
	d := t1 - t0
	total := d
	if math.Abs(d) >= 2*math.Pi {
		rem := math.Mod(math.Abs(d), 2*math.Pi)
		if rem < 1e-6 || 2*math.Pi-rem < 1e-6 {
			s.tracked = false // whether a remainder is drawn is decided by rounding
			return
		}
		total = math.Copysign(2*math.Pi+rem, d)
	} else if math.Abs(d) < 1e-6 {
		s.tracked = false
		return
	}
	n := int(math.Ceil(math.Abs(total) / (math.Pi / 2)))
	for k := 1; k <= n; k++ {
		t := t0 + total*float64(k)/float64(n)
		s.add(geom.Seg{Kind: geom.Arc, Rx: rx, Ry: ry, Phi: phi, Large: false, Sweep: d > 0, P3: c.Add(pos(t))})
	}
}

func (s *shadow) close() {
	if s.justMoved {
		s.tracked = false
	}
	s.justMoved = false
	if !s.open {
		return
	}
	sub := &s.subs[len(s.subs)-1]
	if s.cur != s.start {
		sub.Segs = append(sub.Segs, geom.Seg{Kind: geom.Line, P0: s.cur, P3: s.start})
	}
	sub.Closed = true
	s.cur = s.start
	s.open = false
}

func finite(xs ...float64) bool {
	for _, x := range xs {
		if math.IsNaN(x) || math.IsInf(x, 0) {
			return false
		}
	}
	return true
}

func buildShape(op c10Op) *canvas.Path {
	a := func(i int) float64 { return float64(op.A[i]) }
	n, d := int(a(3)), int(a(4))
	switch op.S {
	case "Rectangle":
		return canvas.Rectangle(a(0), a(1))
	case "RoundedRectangle":
		return canvas.RoundedRectangle(a(0), a(1), a(2))
	case "BeveledRectangle":
		return canvas.BeveledRectangle(a(0), a(1), a(2))
	case "Circle":
		return canvas.Circle(a(0))
	case "Ellipse":
		return canvas.Ellipse(a(0), a(1))
	case "Triangle":
		return canvas.Triangle(a(0))
	case "RegularPolygon":
		return canvas.RegularPolygon(n, a(0), op.B[0])
	case "RegularStarPolygon":
		return canvas.RegularStarPolygon(n, d, a(0), op.B[0])
	case "StarPolygon":
		return canvas.StarPolygon(n, a(0), a(1), op.B[0])
	case "Line":
		return canvas.Line(a(0), a(1))
	case "Arc":
		return canvas.Arc(a(0), a(5), a(6))
	case "EllipticalArc":
		return canvas.EllipticalArc(a(0), a(1), a(2), a(5), a(6))
	case "Grid":
		return canvas.Grid(a(0), a(1), minInt10(n, 4), minInt10(d, 4), a(2))
	}
	return &canvas.Path{}
}

func minInt10(a, b int) int {
	if a < b {
		return a
	}
	return b
}

// ---- validator -----------------------------------------------------------------------------------

// validateData checks the well-formedness of raw path data as the statement lists it.
func validateData(d []float64) error {
	// forwards
	type rec struct {
		cmd float64
		i   int
	}
	var recs []rec
	for i := 0; i < len(d); {
		cmd := d[i]
		n := 0
		switch cmd {
		case 1, 2, 32:
			n = 4
		case 4:
			n = 6
		case 8, 16:
			n = 8
		default:
			return fmt.Errorf("index %d: %v is not a command word", i, cmd)
		}
		if i+n > len(d) {
			return fmt.Errorf("index %d: record of command %v is truncated", i, cmd)
		}
		if d[i+n-1] != cmd {
			return fmt.Errorf("index %d: command %v ends with %v", i, cmd, d[i+n-1])
		}
		recs = append(recs, rec{cmd, i})
		i += n
	}
	// backwards
	k := len(recs) - 1
	for j := len(d); j > 0; {
		cmd := d[j-1]
		n := 0
		switch cmd {
		case 1, 2, 32:
			n = 4
		case 4:
			n = 6
		case 8, 16:
			n = 8
		default:
			return fmt.Errorf("backwards at %d: %v is not a command word", j-1, cmd)
		}
		j -= n
		if k < 0 || recs[k].i != j || recs[k].cmd != cmd {
			return fmt.Errorf("backwards decoding disagrees with forwards decoding at %d", j)
		}
		k--
	}
	// semantics
	var start, pos Pt
	have := false
	for _, r := range recs {
		i := r.i
		n := 4
		if r.cmd == 4 {
			n = 6
		} else if r.cmd == 8 || r.cmd == 16 {
			n = 8
		}
		end := Pt{d[i+n-3], d[i+n-2]}
		for _, v := range d[i+1 : i+n-1] {
			if math.IsNaN(v) || math.IsInf(v, 0) {
				return fmt.Errorf("index %d: non-finite value in a path built from finite arguments", i)
			}
		}
		switch r.cmd {
		case 1:
			start, pos, have = end, end, true
			continue
		}
		if !have {
			return fmt.Errorf("index %d: sub-path does not start with a move", i)
		}
		switch r.cmd {
		case 2:
			if end == pos {
				return fmt.Errorf("index %d: zero-length LineTo", i)
			}
		case 4:
			if cp := (Pt{d[i+1], d[i+2]}); end == pos && cp == pos {
				return fmt.Errorf("index %d: zero-length QuadTo", i)
			}
		case 8:
			if c1, c2 := (Pt{d[i+1], d[i+2]}), (Pt{d[i+3], d[i+4]}); end == pos && c1 == pos && c2 == pos {
				return fmt.Errorf("index %d: zero-length CubeTo", i)
			}
		case 16:
			rx, ry, phi, f := d[i+1], d[i+2], d[i+3], d[i+4]
			if !(ry > 0) || !(rx >= ry) {
				return fmt.Errorf("index %d: arc radii rx=%v ry=%v (need rx >= ry > 0)", i, rx, ry)
			}
			if !(phi >= 0 && phi < math.Pi) {
				return fmt.Errorf("index %d: arc rotation %v not in [0,pi)", i, phi)
			}
			if f != 0 && f != 1 && f != 2 && f != 3 {
				return fmt.Errorf("index %d: arc flags %v", i, f)
			}
			if end == pos {
				return fmt.Errorf("index %d: zero-length ArcTo", i)
			}
			// radii large enough to span the chord
			c, s := math.Cos(phi), math.Sin(phi)
			dx, dy := (pos.X-end.X)/2, (pos.Y-end.Y)/2
			x1, y1 := c*dx+s*dy, -s*dx+c*dy
			if lam := x1*x1/(rx*rx) + y1*y1/(ry*ry); lam > 1+1e-9 {
				return fmt.Errorf("index %d: arc radii too small for the chord (lambda=%v)", i, lam)
			}
		case 32:
			if end != start {
				return fmt.Errorf("index %d: Close goes to %v, the sub-path starts at %v", i, end, start)
			}
			have = false
			// canvas keeps the pen at the start point after a close; a following command must be a MoveTo
			// or an implicit continuation from there: canvas emits an explicit MoveTo
		}
		pos = end
	}
	return nil
}

// ---- check ---------------------------------------------------------------------------------------

func c10Build(c *c10Case, o *core.Obs) (p *canvas.Path, sh *shadow, ok bool) {
	p = &canvas.Path{}
	sh = &shadow{tracked: true}
	for k, op := range c.Ops {
		a := func(i int) float64 { return float64(op.A[i]) }
		failed := o.Guard("builder:"+op.Op, func() {
			switch op.Op {
			case "MoveTo":
				p.MoveTo(a(0), a(1))
				sh.moveTo(Pt{a(0), a(1)})
			case "LineTo":
				p.LineTo(a(0), a(1))
				sh.add(geom.Seg{Kind: geom.Line, P3: Pt{a(0), a(1)}})
			case "QuadTo":
				p.QuadTo(a(0), a(1), a(2), a(3))
				sh.add(geom.Seg{Kind: geom.Quad, C1: Pt{a(0), a(1)}, P3: Pt{a(2), a(3)}})
			case "CubeTo":
				p.CubeTo(a(0), a(1), a(2), a(3), a(4), a(5))
				sh.add(geom.Seg{Kind: geom.Cube, C1: Pt{a(0), a(1)}, C2: Pt{a(2), a(3)}, P3: Pt{a(4), a(5)}})
			case "ArcTo":
				p.ArcTo(a(0), a(1), a(2), op.B[0], op.B[1], a(3), a(4))
				end := Pt{a(3), a(4)}
				rx, ry := math.Abs(a(0)), math.Abs(a(1))
				if end == sh.cur {
					// nothing requested
				} else if rx < 1e-10 || ry < 1e-10 || math.IsInf(rx, 0) || math.IsInf(ry, 0) {
					sh.add(geom.Seg{Kind: geom.Line, P3: end}) // SVG: zero radius is a straight line
				} else {
					sh.add(geom.Seg{Kind: geom.Arc, Rx: rx, Ry: ry, Phi: a(2) * math.Pi / 180, Large: op.B[0], Sweep: op.B[1], P3: end})
				}
			case "Arc":
				p.Arc(a(0), a(1), a(2), a(3), a(4))
				sh.arc(a(0), a(1), a(2), a(3), a(4))
			case "Close":
				p.Close()
				sh.close()
			case "Join":
				p = p.Join(buildShape(op))
				sh.tracked = false
			case "Append":
				p = p.Append(buildShape(op))
				sh.tracked = false
			case "Parse":
				q, err := canvas.ParseSVGPath(op.S)
				if err == nil {
					p = p.Append(q)
				}
				sh.tracked = false
			}
		})
		if failed {
			o.Fail("panic:builder:"+op.Op, "builder call %d %s%v panicked at %s: %s", k, op.Op, op.A, o.PanicSite, o.PanicVal)
			return p, sh, false
		}
		if p == nil {
			o.Fail("nil-path", "builder call %d %s returned a nil path", k, op.Op)
			return p, sh, false
		}
	}
	return p, sh, true
}

// guarded copy with a sentinel-filled capacity tail so that writes through append aliasing are seen
const c10Sentinel = -7.77e77

func tailedPath(d []float64) (*canvas.Path, []float64) {
	buf := make([]float64, len(d)+24)
	copy(buf, d)
	for i := len(d); i < len(buf); i++ {
		buf[i] = c10Sentinel
	}
	return canvas.NewPathFromData(buf[:len(d)]), buf
}

func tailIntact(buf []float64, d []float64) bool {
	if !bitsEqual(buf[:len(d)], d) {
		return false
	}
	for _, v := range buf[len(d):] {
		if v != c10Sentinel {
			return false
		}
	}
	return true
}

func c10Check(ci any, o *core.Obs) {
	c := ci.(*c10Case)
	checkGlobals(o)
	p, sh, ok := c10Build(c, o)
	if !ok {
		return
	}
	o.Decided(1) // the builder did not panic
	if c.Kind == "nonfinite" {
		// nothing more is required of paths built from non-finite arguments
		o.NonTrivial()
		return
	}
	data := dataCopy(p)
	// (1) well-formedness
	o.Decided(1)
	if err := validateData(data); err != nil {
		o.Fail("ill-formed", "after %d builder calls the path data is ill-formed: %v; data %v", len(c.Ops), err, trimData(data))
		return
	}
	if len(data) > 4 {
		o.NonTrivial()
	}
	built, err := geom.Decode(data)
	if err != nil {
		o.Fail("ill-formed", "reference decoder rejects the data: %v", err)
		return
	}
	// (2) the traced geometry is what was requested
	if sh.tracked && len(nonEmptySubs(sh.subs)) > 0 {
		req := nonEmptySubs(sh.subs)
		built = nonEmptySubs(built)
		box := geom.BoxPolys(geom.Flatten(req, 1e-2, false))
		scale := box.Scale()
		tol := 1e-8*scale + 2e-9
		if sh.hasArc {
			tol = 1e-7*scale + 2e-9 // end-point to centre conversion of arcs
		}
		for i := range req {
			for k := range req[i].Segs {
				if kd := req[i].Segs[k].Kind; kd == geom.Quad || kd == geom.Cube {
					// the nearest-point search of the reference is only good to about 1e-5 of the size next
					// to cusps and tight loops of Béziers
					tol = math.Max(tol, 1e-5*scale)
				}
				if sg := req[i].Segs[k]; sg.Kind == geom.Arc {
					// ... and next to the tip of a needle-like arc: where the radius of curvature at the end of
					// the long axis (rmin^2/rmax) is below that resolution, two equivalent spellings of one arc
					// (radii swapped, rotation + 90 degrees) differ by as much in the reference itself
					rmin, rmax := math.Min(math.Abs(sg.Rx), math.Abs(sg.Ry)), math.Max(math.Abs(sg.Rx), math.Abs(sg.Ry))
					if rmax > 0 && rmin*rmin/rmax < 1e-5*scale {
						tol = math.Max(tol, 1e-5*scale)
					}
				}
			}
		}
		h1, at1 := geom.HausdorffSubs(req, built, 8)
		h2, at2 := geom.HausdorffSubs(built, req, 8)
		o.Max("built_vs_requested_rel", math.Max(h1, h2)/scale)
		o.Decided(1)
		if h1 > tol {
			o.Fail("geometry-missing", "requested point %v is %.4g away from the built path %s (history %s)", at1, h1, pstr(p), opsString(c.Ops))
		} else if h2 > tol {
			o.Fail("geometry-extra", "point %v of the built path %s is %.4g away from the requested geometry (history %s)", at2, pstr(p), h2, opsString(c.Ops))
		}
		// closedness of sub-paths as requested
		if len(req) == len(built) {
			for i := range req {
				if req[i].Start.Dist(built[i].Start) > tol {
					break // sub-paths do not correspond one to one (merged or dropped degenerate ones)
				}
				if req[i].Closed != built[i].Closed {
					o.Fail("closedness", "sub-path %d closed=%v, requested %v; %s", i, built[i].Closed, req[i].Closed, pstr(p))
				}
			}
		}
	}
	if o.Failed() {
		return
	}
	// (3) totality and (4) side-effect freedom on the well-formed path
	c10Methods(o, data)
	c10Join(o, data)
	checkGlobals(o)
}

// c10Join joins and appends hand-encoded argument paths to the built path: the argument must stay
// bit-identical (also its spare capacity), the result must be well-formed and trace "the commands of q
// executed on p" (Join: the first sub-path of q continues the last one of p when q starts where p ends
// and p is open, a Close then returns to the start of that sub-path of p; otherwise, and for Append,
// the sub-paths of q follow those of p).
func c10Join(o *core.Obs, data []float64) {
	if len(data) < 4 || len(data) > 4000 {
		return
	}
	for _, v := range data {
		if math.IsNaN(v) || math.IsInf(v, 0) || math.Abs(v) > 1e6 {
			return
		}
	}
	subsP, err := geom.Decode(data)
	if err != nil || len(subsP) == 0 {
		return
	}
	pClosed := data[len(data)-1] == 32
	e := Pt{data[len(data)-3], data[len(data)-2]}
	mv := func(p Pt) []float64 { return []float64{1, p.X, p.Y, 1} }
	ln := func(p Pt) []float64 { return []float64{2, p.X, p.Y, 2} }
	qd := func(c, p Pt) []float64 { return []float64{4, c.X, c.Y, p.X, p.Y, 4} }
	cl := func(p Pt) []float64 { return []float64{32, p.X, p.Y, 32} }
	cat := func(rs ...[]float64) (d []float64) {
		for _, r := range rs {
			d = append(d, r...)
		}
		return d
	}
	at := func(b Pt, dx, dy float64) Pt { return Pt{b.X + dx, b.Y + dy} }
	f := at(e, 1.5, -2.5)
	args := []struct {
		name string
		d    []float64
	}{
		{"closed polygon starting at the end of p, and a second sub-path", cat(mv(e), ln(at(e, 3, 4)), ln(at(e, -2, 5)), cl(e), mv(at(e, 10, 10)), ln(at(e, 12, 10)), ln(at(e, 12, 13)), cl(at(e, 10, 10)))},
		{"closed curve starting at the end of p", cat(mv(e), qd(at(e, 3, 4), at(e, 6, 0)), ln(at(e, 3, -3)), cl(e))},
		{"open polyline starting at the end of p, then a closed sub-path", cat(mv(e), ln(at(e, 3, 4)), qd(at(e, 5, 5), at(e, 7, 2)), mv(at(e, 1, 1)), ln(at(e, 2, 1)), ln(at(e, 2, 3)), cl(at(e, 1, 1)))},
		{"closed polygon starting elsewhere", cat(mv(f), ln(at(f, 3, 4)), ln(at(f, -2, 5)), cl(f))},
	}
	for _, a := range args {
		subsQ, err := geom.Decode(a.d)
		if err != nil {
			o.Fail("harness:c10Join", "argument %q does not decode: %v", a.name, err)
			return
		}
		for _, op := range []string{"Join", "Append"} {
			p, _ := tailedPath(data)
			q, qbuf := tailedPath(a.d)
			var res *canvas.Path
			entry := "Path." + op
			if o.Guard(entry, func() {
				if op == "Join" {
					res = p.Join(q)
				} else {
					res = p.Append(q)
				}
			}) {
				o.Fail("panic:"+entry, "%s panicked at %s: %s; p = %s, q = %s", entry, o.PanicSite, trunc200(o.PanicVal), dstr(data), dstr(a.d))
				o.PanicVal = ""
				continue
			}
			o.Decided(1)
			o.Count("join_calls", 1)
			if !tailIntact(qbuf, a.d) {
				o.Fail("side-effect-arg:"+op, "%s modified its argument (%s): %s became %s; p = %s", entry, a.name, dstr(a.d), dstr(qbuf[:len(a.d)]), dstr(data))
				continue
			}
			if res == nil {
				o.Fail("join:nil", "%s returned nil", entry)
				continue
			}
			rd := append([]float64(nil), res.Data()...)
			if err := validateData(rd); err != nil {
				o.Fail("join:malformed", "%s of %s and %s (%s) is not well-formed: %v; result %s", entry, dstr(data), dstr(a.d), a.name, err, dstr(rd))
				continue
			}
			got, err := geom.Decode(rd)
			if err != nil {
				o.Fail("join:malformed", "%s result does not decode: %v", entry, err)
				continue
			}
			// expected geometry
			var want []geom.Sub
			if op == "Join" && !pClosed && subsQ[0].Start == e {
				want = append(want, subsP[:len(subsP)-1]...)
				last := subsP[len(subsP)-1]
				m := geom.Sub{Start: last.Start, Segs: append([]geom.Seg(nil), last.Segs...)}
				for _, sg := range subsQ[0].Segs {
					if !sg.FromClose {
						m.Segs = append(m.Segs, sg)
					}
				}
				if subsQ[0].Closed {
					if end := m.End(); end != m.Start {
						m.Segs = append(m.Segs, geom.Seg{Kind: geom.Line, P0: end, P3: m.Start, FromClose: true})
					}
					m.Closed = true
				}
				want = append(want, m)
				want = append(want, subsQ[1:]...)
			} else {
				want = append(append(want, subsP...), subsQ...)
			}
			// Join and Append copy records: the result is compared record by record, exactly. The first
			// command of q goes through the builder when it continues p, which may merge it with a
			// collinear last line of p (mergeAt).
			mergeAt := -1
			if op == "Join" && !pClosed && subsQ[0].Start == e {
				mergeAt = len(nonEmptySubs(append([]geom.Sub(nil), subsP[:len(subsP)-1]...)))
			}
			want, got = nonEmptySubs(want), nonEmptySubs(got) // a MoveTo without segments traces nothing
			if msg := c10SameSubs(want, got, mergeAt, len(subsP[len(subsP)-1].Segs)); msg != "" {
				o.Fail("join:geometry", "%s (%s): %s; result %s; p = %s", entry, a.name, msg, dstr(rd), dstr(data))
			}
		}
	}
}

func c10SegEq(a, b geom.Seg) bool {
	return a.Kind == b.Kind && a.P0 == b.P0 && a.P3 == b.P3 && a.C1 == b.C1 && a.C2 == b.C2 && a.Rx == b.Rx && a.Ry == b.Ry && a.Phi == b.Phi && a.Large == b.Large && a.Sweep == b.Sweep && a.FromClose == b.FromClose
}

// c10SameSubs compares decoded sub-paths exactly; in sub-path mergeAt the lines want[j-1], want[j] may
// have become one line when they are collinear and point the same way.
func c10SameSubs(want, got []geom.Sub, mergeAt, j int) string {
	if len(want) != len(got) {
		return fmt.Sprintf("%d sub-paths, expected %d", len(got), len(want))
	}
	for i := range want {
		w, g := want[i], got[i]
		if w.Start != g.Start || w.Closed != g.Closed {
			return fmt.Sprintf("sub-path %d starts at %v closed=%v, expected %v closed=%v", i, g.Start, g.Closed, w.Start, w.Closed)
		}
		ws := w.Segs
		if i == mergeAt && len(g.Segs) == len(ws)-1 && j >= 1 && j < len(ws) && ws[j-1].Kind == geom.Line && ws[j].Kind == geom.Line && !ws[j-1].FromClose && !ws[j].FromClose {
			u, v := ws[j-1].P3.Sub(ws[j-1].P0), ws[j].P3.Sub(ws[j].P0)
			if math.Abs(u.Cross(v)) <= 1e-6*u.Len()*v.Len() && u.Dot(v) > 0 {
				m := ws[j-1]
				m.P3 = ws[j].P3
				ws = append(append(append([]geom.Seg(nil), ws[:j-1]...), m), ws[j+1:]...)
			}
		}
		if len(ws) != len(g.Segs) {
			return fmt.Sprintf("sub-path %d has %d segments, expected %d", i, len(g.Segs), len(ws))
		}
		for k := range ws {
			if !c10SegEq(ws[k], g.Segs[k]) {
				return fmt.Sprintf("segment %d of sub-path %d is %+v, expected %+v", k, i, g.Segs[k], ws[k])
			}
		}
	}
	return ""
}

func trimData(d []float64) []float64 {
	if len(d) > 64 {
		return d[:64]
	}
	return d
}

func opsString(ops []c10Op) string {
	s := ""
	for _, op := range ops {
		s += op.Op
		if len(op.A) > 0 {
			s += fmt.Sprint(op.A)
		}
		if op.S != "" {
			s += "(" + op.S + ")"
		}
		s += " "
		if len(s) > 500 {
			return s + "…"
		}
	}
	return s
}

// c10Methods applies the public queries and derivations. Methods documented as returning a new path
// must leave the receiver (and its spare capacity) and the arguments bit-identical.
func c10Methods(o *core.Obs, data []float64) {
	if len(data) > 4000 {
		o.Count("methods_skipped_large", 1)
		return
	}
	box := geom.EmptyBox()
	if subs, err := geom.Decode(data); err == nil {
		box = geom.BoxPolys(geom.Flatten(subs, 1, false))
	}
	huge := box.Empty() || box.Scale() > 1e6 // 1e9-sized coordinates: derivations are still called, slow ones skipped
	other := canvas.Rectangle(7, 5).Translate(-2, -1)
	otherData := dataCopy(other)
	type m struct {
		name string
		pure bool // documented as returning a new path / value without modifying the receiver
		slow bool
		f    func(p *canvas.Path)
	}
	dash := []float64{1, 0, 2, 3}
	dashCopy := append([]float64(nil), dash...)
	ts := []float64{3, 1, 2}
	tsCopy := append([]float64(nil), ts...)
	methods := []m{
		{"Empty", true, false, func(p *canvas.Path) { p.Empty() }},
		{"Closed", true, false, func(p *canvas.Path) { p.Closed() }},
		{"PointClosed", true, false, func(p *canvas.Path) { p.PointClosed() }},
		{"HasSubpaths", true, false, func(p *canvas.Path) { p.HasSubpaths() }},
		{"Len", true, false, func(p *canvas.Path) { p.Len() }},
		{"Sane", true, false, func(p *canvas.Path) { p.Sane() }},
		{"Copy", true, false, func(p *canvas.Path) { p.Copy() }},
		{"Equals", true, false, func(p *canvas.Path) { p.Equals(p.Copy()) }},
		{"Same", true, false, func(p *canvas.Path) { p.Same(p.Copy()) }},
		{"Pos", true, false, func(p *canvas.Path) { p.Pos(); p.StartPos() }},
		{"Coords", true, false, func(p *canvas.Path) { p.Coords() }},
		{"CoordDirections", true, false, func(p *canvas.Path) { p.CoordDirections() }},
		{"Direction", true, false, func(p *canvas.Path) {
			for s := 0; s < 4; s++ {
				p.Direction(s, 0.5)
				p.Curvature(s, 0.5)
			}
		}},
		{"Segments", true, false, func(p *canvas.Path) { p.Segments() }},
		{"Scanner", true, false, func(p *canvas.Path) {
			for s := p.Scanner(); s.Scan(); {
				s.Cmd()
				s.Values()
				s.Start()
				s.End()
				s.Path()
			}
			for s := p.ReverseScanner(); s.Scan(); {
				s.Cmd()
				s.Values()
				s.Start()
				s.End()
				s.Path()
			}
		}},
		{"ScannerControlPoints", true, false, func(p *canvas.Path) {
			for s := p.Scanner(); s.Scan(); {
				switch s.Cmd() {
				case canvas.QuadToCmd:
					s.CP1()
				case canvas.CubeToCmd:
					s.CP1()
					s.CP2()
				case canvas.ArcToCmd:
					s.Arc()
				}
			}
			for s := p.ReverseScanner(); s.Scan(); {
				switch s.Cmd() {
				case canvas.QuadToCmd:
					s.CP1()
				case canvas.CubeToCmd:
					s.CP1()
					s.CP2()
				case canvas.ArcToCmd:
					s.Arc()
				}
			}
			for _, sg := range p.Segments() {
				switch sg.Cmd {
				case canvas.QuadToCmd:
					sg.CP1()
				case canvas.CubeToCmd:
					sg.CP1()
					sg.CP2()
				case canvas.ArcToCmd:
					sg.Arc()
				}
			}
		}},
		{"CopyTo", true, false, func(p *canvas.Path) {
			for _, q := range []*canvas.Path{{}, canvas.Rectangle(3, 4).Append(canvas.Circle(50)), nil} {
				if r := p.CopyTo(q); !bitsEqual(r.Data(), p.Data()) {
					panic("CopyTo returned other data than the receiver's")
				}
			}
		}},
		{"Gob", true, false, func(p *canvas.Path) {
			b, err := p.GobEncode()
			if err != nil {
				panic(err)
			}
			q := &canvas.Path{}
			if err := q.GobDecode(b); err != nil {
				panic(err)
			}
			if !bitsEqual(q.Data(), p.Data()) {
				panic("GobDecode(GobEncode(p)) differs from p")
			}
		}},
		{"Bounds", true, false, func(p *canvas.Path) { p.Bounds(); p.FastBounds() }},
		{"Length", true, false, func(p *canvas.Path) { p.Length() }},
		{"Flat", true, false, func(p *canvas.Path) { p.Flat() }},
		{"CCW", true, false, func(p *canvas.Path) { p.CCW() }},
		{"Filling", true, true, func(p *canvas.Path) { p.Filling(canvas.NonZero) }},
		{"Windings", true, true, func(p *canvas.Path) {
			p.Windings(0.123, 0.456)
			p.Crossings(0.123, 0.456)
			p.Contains(0.123, 0.456, canvas.EvenOdd)
		}},
		{"RayIntersections", true, true, func(p *canvas.Path) { p.RayIntersections(-100.5, 0.37) }},
		{"Flatten", true, false, func(p *canvas.Path) { p.Flatten(0.1) }},
		{"ReplaceArcs", true, false, func(p *canvas.Path) { p.ReplaceArcs() }},
		{"XMonotone", true, false, func(p *canvas.Path) { p.XMonotone() }},
		{"Split", true, false, func(p *canvas.Path) { p.Split() }},
		{"SplitAt", true, true, func(p *canvas.Path) { p.SplitAt(ts...) }},
		{"Dash", true, true, func(p *canvas.Path) { p.Dash(0.5, dash...) }},
		{"DashArrays", true, true, func(p *canvas.Path) {
			// dash arrays passed as windows into a larger slice filled with a sentinel: leading, trailing
			// and interior zeros, odd lengths (doubled by Dash), repeated patterns, negative offsets
			for _, d := range [][]float64{{0, 1, 2, 4}, {1, 2, 3, 0}, {2, 1, 3}, {3}, {1, 2, 1, 2}, {0, 2, 0}, {1, 0, 2, 3}} {
				all := make([]float64, len(d)+8)
				copy(all, d)
				for i := len(d); i < len(all); i++ {
					all[i] = c10Sentinel
				}
				for _, off := range []float64{0.5, -1.25} {
					func() {
						// totality of Dash is the subject of the entry above; here only the argument counts
						defer func() { recover() }()
						p.Dash(off, all[:len(d)]...)
					}()
					for i := range all {
						want := c10Sentinel
						if i < len(d) {
							want = d[i]
						}
						if all[i] != want {
							panic(fmt.Sprintf("Dash(%g, %v...) changed the caller's dash slice (or wrote beyond it): %v", off, d, all))
						}
					}
				}
			}
		}},
		{"Reverse", true, false, func(p *canvas.Path) { p.Reverse() }},
		{"Markers", true, false, func(p *canvas.Path) { p.Markers(canvas.Circle(1), canvas.Circle(1), canvas.Circle(1), true) }},
		{"String", true, false, func(p *canvas.Path) { _ = p.String() }},
		{"ToSVG", true, false, func(p *canvas.Path) { _ = p.ToSVG() }},
		{"ToPS", true, false, func(p *canvas.Path) { _ = p.ToPS() }},
		{"ToPDF", true, false, func(p *canvas.Path) { _ = p.ToPDF() }},
		{"Stroke", true, true, func(p *canvas.Path) { p.Stroke(1.5, canvas.RoundCap, canvas.MiterJoin, 0.1) }},
		{"Offset", true, true, func(p *canvas.Path) { p.Offset(0.7, 0.1) }},
		{"Settle", true, true, func(p *canvas.Path) { p.Settle(canvas.NonZero) }},
		{"And", true, true, func(p *canvas.Path) { p.And(other) }},
		{"Or", true, true, func(p *canvas.Path) { p.Or(other) }},
		{"Xor", true, true, func(p *canvas.Path) { p.Xor(other) }},
		{"Not", true, true, func(p *canvas.Path) { p.Not(other) }},
		{"DivideBy", true, true, func(p *canvas.Path) { p.DivideBy(other) }},
		{"ArgAnd", true, true, func(p *canvas.Path) { other.And(p) }},
		{"Gridsnap", true, false, func(p *canvas.Path) { p.Copy().Gridsnap(0.5) }},
		{"Simplify", true, true, func(p *canvas.Path) { p.SimplifyVisvalingamWhyatt(0.5) }},
		// Clip/FastClip are not called: they panic "not implemented" on purpose for curved segments
		// Triangulate is not called: on degenerate contours the poly2tri dependency recurses without
		// bound (fatal stack overflow after filling 1 GB, not recoverable); recorded in DESIGN.md.
		// documented as modifying in place: only totality
		{"Transform", false, false, func(p *canvas.Path) { p.Transform(canvas.Identity.Rotate(30).Scale(2, -1)) }},
	}
	for _, mt := range methods {
		if mt.slow && huge {
			o.Count("methods_skipped_huge_coordinates", 1)
			continue
		}
		p, buf := tailedPath(data)
		entry := "Path." + mt.name
		o.Logf("calling %s", entry)
		if o.Guard(entry, func() { mt.f(p) }) {
			o.Fail("panic:"+entry, "%s panicked at %s: %s; on the well-formed path %s", entry, o.PanicSite, trunc200(o.PanicVal), dstr(data))
			o.PanicVal = "" // let later methods report their own panic
			continue
		}
		o.Decided(1)
		o.Count("method_calls", 1)
		if mt.pure {
			if !tailIntact(buf, data) {
				o.Fail("side-effect:"+mt.name, "%s modified its receiver (or wrote into its spare capacity); path %s", entry, dstr(data))
			}
			if !bitsEqual(other.Data(), otherData) {
				o.Fail("side-effect-arg:"+mt.name, "%s modified its path argument", entry)
				other = canvas.NewPathFromData(append([]float64(nil), otherData...))
			}
		}
	}
	if !bitsEqual(dash, dashCopy) {
		o.Fail("side-effect-arg:Dash", "Dash modified the caller's dash array: %v -> %v", dashCopy, dash)
	}
	if !bitsEqual(ts, tsCopy) {
		o.Fail("side-effect-arg:SplitAt", "SplitAt modified the caller's positions: %v -> %v", tsCopy, ts)
	}
}

func trunc200(s string) string {
	if len(s) > 200 {
		return s[:200] + "…"
	}
	return s
}

func c10Describe(ci any) any {
	c := ci.(*c10Case)
	return map[string]any{"kind": c.Kind, "calls": len(c.Ops), "history": opsString(c.Ops)}
}

func init() {
	core.Register(&core.Property{
		ID:                "C10",
		Title:             "Built paths are well-formed; operations on them are total and side-effect free",
		StatesTermination: true,
		Rule: "histories of 1-25 builder calls (MoveTo, LineTo, QuadTo, CubeTo, ArcTo, Arc, Close, Join/Append of 13 shape constructors, ParseSVGPath) with hostile arguments (repeats of the current point, 1e-12..1e-9 perturbations, exactly collinear continuations and reversals, zero/negative/huge radii, angles beyond 360 degrees, 1e9 magnitudes; a second stratum with NaN/Inf/1e308); " +
			"independent validator of Data() (both directions, moves, closes, zero-length, arc parameters), shadow replay of the requested geometry (two-sided exact-distance Hausdorff), 49 public methods under recover with bitwise receiver/argument snapshots incl. a sentinel-filled capacity tail; non-trivial = a non-empty well-formed path (finite) / any history (non-finite); distinct = distinct case hash",
		Strata: []core.Stratum{
			// the counts are kept moderate: over 600k calibration histories one made Rectangle.And(p) loop
			// forever (pinned as F-C10-and-hang); every such case costs the watchdog time and is a
			// genuine, but not enumerable, violation
			{Name: "finite", Quick: 3000, Thorough: 40000, Gen: genC10(false)},
			{Name: "nonfinite", Quick: 1500, Thorough: 20000, Gen: genC10(true), Note: "builder calls must not panic; nothing else is required"},
		},
		NewCase:      func() any { return &c10Case{} },
		Check:        c10Check,
		Describe:     c10Describe,
		CaseTimeoutS: 45,
		Assumptions: []string{
			"the validator encodes the statement's list of well-formedness conditions on the documented Data() layout",
			"requested geometry: zero radii are straight lines, radii are scaled up per SVG F.6.6; tolerance 1e-8*scale + 2e-9 covers the builder's Epsilon-sized normalisations",
			"Transform is documented as in place; Translate/Scale are documented as returning a new path but share Transform's in-place behaviour (finding, not checked randomly)",
		},
	})
}

func nonEmptySubs(subs []geom.Sub) []geom.Sub {
	var out []geom.Sub
	for _, s := range subs {
		if len(s.Segs) > 0 {
			out = append(out, s)
		}
	}
	return out
}
