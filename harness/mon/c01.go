package mon

import (
	_ "embed"
	"math"
	"strings"

	"github.com/tdewolff/canvas"

	"verif/core"
	"verif/geom"
)

//go:embed corpus/bool_pairs.txt
var corpusBoolPairs string

//go:embed corpus/settle_paths.txt
var corpusSettlePaths string

// c01Case is a pair of closed operands (raw path data, bit exact) and an optional grid symmetry
// under which the operations are repeated.
type c01Case struct {
	P, Q   []float64
	Curved bool
	Sym    *symmetry `json:",omitempty"`
	Kind   string
}

// ---- operand generators --------------------------------------------------------------------------

// genContours returns 1..3 closed simple contours (disjoint, nested or overlapping as chance has it).
func genContours(r *core.Rng, integer bool) [][]Pt { return genContoursN(r, integer, 0, 3) }

// genContoursN: orient 0 = every contour gets a random orientation, +1/-1 = all counter-clockwise /
// all clockwise; at most maxN contours.
func genContoursN(r *core.Rng, integer bool, orient, maxN int) [][]Pt {
	n := 1
	if maxN > 1 && r.Chance(0.5) {
		n = r.IntRange(2, maxN)
	}
	var out [][]Pt
	for len(out) < n {
		var pts []Pt
		if integer {
			cx, cy := float64(r.IntRange(2, 6)), float64(r.IntRange(2, 6))
			switch r.Intn(3) {
			case 0:
				x0, y0 := float64(r.IntRange(0, 6)), float64(r.IntRange(0, 6))
				pts = rectPoly(x0, y0, x0+float64(r.IntRange(1, 4)), y0+float64(r.IntRange(1, 4)), r.Bool())
			case 1:
				pts = rectilinearPoly(r, float64(r.IntRange(0, 4)), float64(r.IntRange(0, 4)), float64(r.IntRange(2, 5)), float64(r.IntRange(2, 4)), r.IntRange(2, 4), r.Bool(), true)
			default:
				pts = starPoly(r, cx, cy, 1, 4, r.IntRange(3, 8), r.Bool())
				for i := range pts {
					pts[i] = Pt{math.Round(pts[i].X), math.Round(pts[i].Y)}
				}
				pts = dedupPts(pts)
			}
		} else {
			cx, cy := r.Range(-50, 50), r.Range(-50, 50)
			switch r.Intn(4) {
			case 0:
				pts = convexPoly(r, cx, cy, r.Range(5, 40), r.Range(5, 40), r.IntRange(3, 10), r.Bool())
			case 1:
				pts = rectilinearPoly(r, cx, cy, r.Range(10, 60), r.Range(5, 40), r.IntRange(2, 5), r.Bool(), false)
			case 2:
				x0, y0 := r.Range(-60, 40), r.Range(-60, 40)
				pts = rectPoly(x0, y0, x0+r.Range(5, 60), y0+r.Range(5, 60), r.Bool())
			default:
				pts = starPoly(r, cx, cy, 5, 45, r.IntRange(3, 12), r.Bool())
			}
		}
		if !polyIsSimple(pts) {
			continue
		}
		if orient != 0 && (geom.Area(pts) > 0) != (orient > 0) {
			reversePts(pts)
		}
		out = append(out, pts)
	}
	return out
}

func pickOrient(r *core.Rng) int {
	if r.Bool() {
		return 1
	}
	return -1
}

func contoursPath(cs [][]Pt) *canvas.Path {
	p := &canvas.Path{}
	for _, c := range cs {
		addPoly(p, c)
	}
	return p
}

func genC01Simple(r *core.Rng) any      { return genC01Plain(r, false, false) }
func genC01SimpleMixed(r *core.Rng) any { return genC01Plain(r, false, true) }
func genC01Grid(r *core.Rng) any        { return genC01Plain(r, true, false) }
func genC01GridMixed(r *core.Rng) any   { return genC01Plain(r, true, true) }

func genC01Plain(r *core.Rng, integer, mixed bool) any {
	kind := "simple"
	if integer {
		kind = "grid"
	}
	var P, Q *canvas.Path
	if mixed {
		kind += "-mixed"
		P, Q = contoursPath(genContoursN(r, integer, 0, 3)), contoursPath(genContoursN(r, integer, 0, 3))
	} else {
		P, Q = contoursPath(genContoursN(r, integer, pickOrient(r), 3)), contoursPath(genContoursN(r, integer, pickOrient(r), 3))
	}
	c := &c01Case{P: dataCopy(P), Q: dataCopy(Q), Kind: kind}
	if r.Chance(0.25) {
		t := 20
		if integer {
			t = 5
		}
		c.Sym = &symmetry{K: r.Intn(8), Tx: float64(r.IntRange(-t, t)), Ty: float64(r.IntRange(-t, t))}
	}
	return c
}

func genC01SimpleOld(r *core.Rng) any {
	P := contoursPath(genContours(r, false))
	Q := contoursPath(genContours(r, false))
	c := &c01Case{P: dataCopy(P), Q: dataCopy(Q), Kind: "simple"}
	if r.Chance(0.25) {
		c.Sym = &symmetry{K: r.Intn(8), Tx: float64(r.IntRange(-20, 20)), Ty: float64(r.IntRange(-20, 20))}
	}
	return c
}

func genC01GridOld(r *core.Rng) any {
	P := contoursPath(genContours(r, true))
	Q := contoursPath(genContours(r, true))
	c := &c01Case{P: dataCopy(P), Q: dataCopy(Q), Kind: "grid"}
	if r.Chance(0.25) {
		c.Sym = &symmetry{K: r.Intn(8), Tx: float64(r.IntRange(-5, 5)), Ty: float64(r.IntRange(-5, 5))}
	}
	return c
}

// genC01Relations: coincident, reversed, sub-grid shifted, touching operands and zero-area spikes.
func genC01Relations(r *core.Rng) any { return genC01Rel(r, core.PickI(r, []int{0, 1, 4, 5, 6}), 1) }
func genC01RelationsMulti(r *core.Rng) any {
	return genC01Rel(r, core.PickI(r, []int{0, 1, 4, 5, 6}), 3)
}
func genC01Shifted(r *core.Rng) any      { return genC01Rel(r, 2, 1) }
func genC01ShiftedMulti(r *core.Rng) any { return genC01Rel(r, 2, 3) }

func genC01Rel(r *core.Rng, kind, maxN int) any {
	integer := r.Bool()
	cs := genContoursN(r, integer, 0, maxN)
	for maxN > 1 && len(cs) < 2 {
		cs = genContoursN(r, integer, 0, maxN)
	}
	P := contoursPath(cs)
	var qs [][]Pt
	switch kind {
	case 0: // Q = P
		qs = cs
	case 1: // Q = reverse(P)
		for _, c := range cs {
			d := append([]Pt(nil), c...)
			reversePts(d)
			qs = append(qs, d)
		}
	case 2, 3: // Q = P + delta
		delta := core.PickF(r, []float64{1e-9, 1e-8, 1e-7, 1e-3})
		a := r.Range(0, 2*math.Pi)
		dx, dy := delta*math.Cos(a), delta*math.Sin(a)
		if r.Bool() {
			dx, dy = delta, 0
		}
		for _, c := range cs {
			d := make([]Pt, len(c))
			for i := range c {
				d[i] = Pt{c[i].X + dx, c[i].Y + dy}
			}
			qs = append(qs, d)
		}
	case 4: // Q shares a vertex with P: a triangle hanging off a vertex of P
		c := cs[0]
		v := c[r.Intn(len(c))]
		s := 3.0
		if !integer {
			s = r.Range(2, 20)
		}
		qs = [][]Pt{{v, {v.X + s, v.Y}, {v.X + s, v.Y + s}}}
		if r.Bool() {
			qs = [][]Pt{{v, {v.X - s, v.Y - s}, {v.X, v.Y - s}}}
		}
	case 5: // Q shares (part of) an edge with P: a rectangle erected on an edge of a rectangle
		x0, y0 := math.Round(r.Range(-5, 5)), math.Round(r.Range(-5, 5))
		w, h := float64(r.IntRange(2, 6)), float64(r.IntRange(2, 6))
		P = contoursPath([][]Pt{rectPoly(x0, y0, x0+w, y0+h, r.Bool())})
		off := float64(r.IntRange(-1, 2))
		qs = [][]Pt{rectPoly(x0+w, y0+off, x0+w+float64(r.IntRange(1, 4)), y0+off+float64(r.IntRange(1, 5)), r.Bool())}
		if r.Bool() { // overlapping part of the inside instead
			qs = [][]Pt{rectPoly(x0+1, y0, x0+w-float64(r.IntRange(0, 1)), y0+h-1, r.Bool())}
		}
	default: // zero-area spike on Q: a polygon with an out-and-back excursion
		c := append([]Pt(nil), genContours(r, integer)[0]...)
		i := r.Intn(len(c))
		v := c[i]
		tip := Pt{v.X + float64(r.IntRange(-4, 4)), v.Y + float64(r.IntRange(1, 4))}
		spiked := append([]Pt{}, c[:i+1]...)
		spiked = append(spiked, tip, v)
		spiked = append(spiked, c[i+1:]...)
		// the builder drops the duplicate vertex, leaving v -> tip -> (next), so build the spike explicitly
		// through a second copy of v shifted by nothing: use LineTo(tip), LineTo(v) which is legal
		qs = [][]Pt{spiked}
	}
	Q := &canvas.Path{}
	for _, c := range qs {
		if len(c) == 0 {
			continue
		}
		Q.MoveTo(c[0].X, c[0].Y)
		for _, q := range c[1:] {
			Q.LineTo(q.X, q.Y)
		}
		Q.Close()
	}
	if r.Bool() {
		P, Q = Q, P
	}
	multi := ""
	if maxN > 1 {
		multi = "-multi"
	}
	return &c01Case{P: dataCopy(P), Q: dataCopy(Q), Kind: "relations" + multi + ":" + []string{"equal", "reversed", "shifted", "shifted", "shared-vertex", "shared-edge", "spike"}[kind]}
}

// curvedContour returns a closed curved contour that is simple by construction.
func curvedContour(r *core.Rng, p *canvas.Path) {
	cx, cy := r.Range(-40, 40), r.Range(-40, 40)
	var q *canvas.Path
	switch r.Intn(4) {
	case 0:
		q = canvas.Circle(r.Range(3, 40))
	case 1:
		q = canvas.Ellipse(r.Range(3, 40), r.Range(3, 40))
	case 2:
		w, h := r.Range(6, 60), r.Range(6, 60)
		q = canvas.RoundedRectangle(w, h, r.Range(0.5, math.Min(w, h)/2.2))
	default:
		// closed smooth quad chain around a star-shaped control polygon: on-curve points are the edge
		// midpoints of the control polygon, so the curve stays inside it and is simple
		pts := starPoly(r, 0, 0, 10, 40, r.IntRange(3, 7), true)
		n := len(pts)
		q = &canvas.Path{}
		m0 := pts[n-1].Lerp(pts[0], 0.5)
		q.MoveTo(m0.X, m0.Y)
		for i := 0; i < n; i++ {
			m := pts[i].Lerp(pts[(i+1)%n], 0.5)
			q.QuadTo(pts[i].X, pts[i].Y, m.X, m.Y)
		}
		q.Close()
	}
	if r.Bool() {
		q = q.Reverse()
	}
	q = q.Transform(canvas.Identity.Translate(cx, cy).Rotate(r.Range(0, 360)))
	*p = *p.Append(q)
}

func genC01Curved(r *core.Rng) any {
	P, Q := &canvas.Path{}, &canvas.Path{}
	for i, n := 0, r.IntRange(1, 2); i < n; i++ {
		curvedContour(r, P)
	}
	if r.Chance(0.3) {
		addPoly(Q, genContours(r, false)[0])
	} else {
		for i, n := 0, r.IntRange(1, 2); i < n; i++ {
			curvedContour(r, Q)
		}
	}
	if r.Bool() {
		P, Q = Q, P
	}
	return &c01Case{P: dataCopy(P), Q: dataCopy(Q), Curved: true, Kind: "curved"}
}

// selfCrossing returns a closed polygon that crosses itself: bow-tie, star polygon {n/k} or random.
func selfCrossing(r *core.Rng, integer bool) []Pt {
	for {
		var pts []Pt
		switch r.Intn(3) {
		case 0:
			x0, y0 := r.Range(-30, 10), r.Range(-30, 10)
			w, h := r.Range(5, 40), r.Range(5, 40)
			pts = []Pt{{x0, y0}, {x0 + w, y0 + h}, {x0 + w, y0}, {x0, y0 + h}}
		case 1:
			// star polygon {n/k} with gcd(n,k)=1, so that the contour is traversed once
			n := core.PickI(r, []int{5, 7, 8, 9, 11})
			k := 2
			if n == 7 || n == 11 {
				k = r.IntRange(2, 3)
			} else if n == 8 {
				k = 3
			}
			cx, cy, rad, rot := r.Range(-20, 20), r.Range(-20, 20), r.Range(5, 40), r.Range(0, 2*math.Pi)
			for i := 0; i < n; i++ {
				a := rot + 2*math.Pi*float64(i*k)/float64(n)
				pts = append(pts, Pt{cx + rad*math.Cos(a), cy + rad*math.Sin(a)})
			}
		default:
			n := r.IntRange(4, 9)
			for i := 0; i < n; i++ {
				pts = append(pts, Pt{r.Range(-40, 40), r.Range(-40, 40)})
			}
		}
		if integer {
			for i := range pts {
				pts[i] = Pt{math.Round(pts[i].X / 5), math.Round(pts[i].Y / 5)}
			}
		}
		pts = dedupPts(pts)
		if len(pts) >= 3 {
			return pts
		}
	}
}

func genC01SelfX(r *core.Rng) any     { return genC01Self(r, false) }
func genC01SelfXGrid(r *core.Rng) any { return genC01Self(r, true) }

func genC01Self(r *core.Rng, integer bool) any {
	P := contoursPath([][]Pt{selfCrossing(r, integer)})
	var Q *canvas.Path
	if r.Bool() {
		Q = contoursPath([][]Pt{selfCrossing(r, integer)})
	} else {
		Q = contoursPath(genContours(r, integer))
	}
	if r.Bool() {
		P, Q = Q, P
	}
	kind := "selfx"
	if integer {
		kind = "selfx-grid"
	}
	return &c01Case{P: dataCopy(P), Q: dataCopy(Q), Kind: kind}
}

func allClosed(p *canvas.Path) bool {
	for _, s := range p.Split() {
		if !s.Closed() {
			return false
		}
	}
	return !p.Empty()
}

func isFlat(p *canvas.Path) bool {
	d := p.Data()
	for i := 0; i < len(d); {
		switch d[i] {
		case 1, 2, 32:
			i += 4
		default:
			return false
		}
	}
	return true
}

func c01Corpus() []any {
	var out []any
	for _, line := range strings.Split(strings.TrimSpace(corpusBoolPairs), "\n") {
		f := strings.Split(line, "\t")
		if len(f) != 2 {
			continue
		}
		p, err1 := canvas.ParseSVGPath(f[0])
		q, err2 := canvas.ParseSVGPath(f[1])
		if err1 != nil || err2 != nil || !allClosed(p) || !allClosed(q) {
			continue
		}
		out = append(out, &c01Case{P: dataCopy(p), Q: dataCopy(q), Curved: !isFlat(p) || !isFlat(q), Kind: "corpus"})
	}
	return out
}

// ---- oracle ------------------------------------------------------------------------------------

type boolOp struct {
	name   string
	swap   bool
	run    func(p, q *canvas.Path) *canvas.Path
	expect func(a, b bool) bool
	commOf int // index of the op this one is the commuted version of (-1 if none)
	isPofP bool
}

var boolOps = []boolOp{
	{name: "And", run: func(p, q *canvas.Path) *canvas.Path { return p.And(q) }, expect: func(a, b bool) bool { return a && b }, commOf: -1},
	{name: "Or", run: func(p, q *canvas.Path) *canvas.Path { return p.Or(q) }, expect: func(a, b bool) bool { return a || b }, commOf: -1},
	{name: "Xor", run: func(p, q *canvas.Path) *canvas.Path { return p.Xor(q) }, expect: func(a, b bool) bool { return a != b }, commOf: -1},
	{name: "Not", run: func(p, q *canvas.Path) *canvas.Path { return p.Not(q) }, expect: func(a, b bool) bool { return a && !b }, commOf: -1},
	{name: "DivideBy", run: func(p, q *canvas.Path) *canvas.Path { return p.DivideBy(q) }, expect: func(a, b bool) bool { return a }, commOf: -1},
	{name: "And", swap: true, run: func(p, q *canvas.Path) *canvas.Path { return q.And(p) }, expect: func(a, b bool) bool { return a && b }, commOf: 0},
	{name: "Or", swap: true, run: func(p, q *canvas.Path) *canvas.Path { return q.Or(p) }, expect: func(a, b bool) bool { return a || b }, commOf: 1},
	{name: "Xor", swap: true, run: func(p, q *canvas.Path) *canvas.Path { return q.Xor(p) }, expect: func(a, b bool) bool { return a != b }, commOf: 2},
}

// regionArea is the area of the region of a canonical (settled) result: the sum of the signed areas
// of its contours (filling contours counter-clockwise, holes clockwise).
func regionArea(polys []geom.Poly) float64 { return geom.AreaPolys(polys) }

func c01Check(ci any, o *core.Obs) {
	c := ci.(*c01Case)
	checkGlobals(o)
	P0, Q0 := pathFrom(c.P), pathFrom(c.Q)
	eps := 0.0
	margin := 1e-6
	if c.Curved {
		eps = 1e-5
		margin = 2*canvas.Tolerance + 1e-3
	}
	polyP, err1 := refPolys(P0, math.Max(eps, 1e-9), true)
	polyQ, err2 := refPolys(Q0, math.Max(eps, 1e-9), true)
	if err1 != nil || err2 != nil {
		o.Skip("operands not decodable")
		return
	}
	both := append(append([]geom.Poly{}, polyP...), polyQ...)
	boxP, boxQ := geom.BoxPolys(polyP), geom.BoxPolys(polyQ)
	perim := geom.LengthPolys(polyP) + geom.LengthPolys(polyQ)
	// sample points, decided once
	r := caseRng(c, "C01pts")
	cand := samplePoints(r, both, 48, 16)
	type sp struct {
		p      Pt
		fp, fq bool
	}
	// Curved operands are flattened by the operation at Tolerance. How well Flatten approximates is
	// C03's business; here a point is decided only if it is on the same side of the true curve and of
	// the library's own flattening (and clear of both by the margin).
	var flatP, flatQ []geom.Poly
	if c.Curved {
		o.Guard("Path.Flatten", func() {
			flatP, _ = refPolys(pathFrom(c.P).Flatten(canvas.Tolerance), 1e-9, true)
			flatQ, _ = refPolys(pathFrom(c.Q).Flatten(canvas.Tolerance), 1e-9, true)
		})
		if flatP == nil || flatQ == nil {
			o.Skip("operands could not be flattened")
			return
		}
	}
	var pts []sp
	for _, x := range cand {
		if geom.DistPtPolys(x, both) <= margin {
			continue
		}
		fp, fq := nzFill(geom.Winding(x, polyP)), nzFill(geom.Winding(x, polyQ))
		if c.Curved {
			if geom.DistPtPolys(x, flatP) <= 1e-3 || geom.DistPtPolys(x, flatQ) <= 1e-3 || nzFill(geom.Winding(x, flatP)) != fp || nzFill(geom.Winding(x, flatQ)) != fq {
				o.Count("points_between_curve_and_flattening", 1)
				continue
			}
		}
		pts = append(pts, sp{x, fp, fq})
	}
	o.Count("points_candidate", float64(len(cand)))
	o.Count("points_decidable", float64(len(pts)))
	if len(pts) < 8 {
		o.Skip("fewer than 8 decidable points")
		return
	}
	if boxP.Overlaps(boxQ) {
		o.NonTrivial()
	}
	areas := make([]float64, len(boolOps))
	have := make([]bool, len(boolOps))
	runOps := func(sym *symmetry) {
		for k, op := range boolOps {
			var P, Q *canvas.Path
			if sym == nil {
				P, Q = pathFrom(c.P), pathFrom(c.Q)
			} else {
				if op.swap {
					continue
				}
				P, Q = pathFrom(symDataFlat(c.P, *sym)), pathFrom(symDataFlat(c.Q, *sym))
			}
			entry := "Path." + op.name
			var R *canvas.Path
			if !o.Call(entry, func() { R = op.run(P, Q) }) {
				continue
			}
			if R == nil {
				o.Fail("nil:"+entry, "%s returned nil", entry)
				continue
			}
			if !isFlat(R) && !c.Curved {
				o.Fail("notflat:"+entry, "%s of flat operands returned a non-flat path %s", entry, pstr(R))
				continue
			}
			polyR, err := refPolys(R, 1e-5, true)
			if err != nil {
				o.Fail("malformed:"+entry, "%s returned undecodable data: %v", entry, err)
				continue
			}
			bad := 0
			for _, s := range pts {
				x := s.p
				if sym != nil {
					x = sym.apply(x)
				}
				want := op.expect(s.fp, s.fq)
				got := nzFill(geom.Winding(x, polyR))
				if want != got {
					bad++
					if bad == 1 {
						symNote := ""
						if sym != nil {
							symNote = " under grid symmetry"
						}
						o.Fail("region:"+entry, "%s%s: point %v (in P=%v, in Q=%v) expected filled=%v got %v; result %s", entry, symNote, x, s.fp, s.fq, want, got, pstr(R))
					}
				}
			}
			o.Decided(len(pts))
			o.Count("op_results", 1)
			if !R.Empty() {
				o.Count("op_results_nonempty", 1)
			}
			a := regionArea(polyR)
			if sym == nil {
				areas[k], have[k] = a, true
			} else if have[k] {
				tol := perim*1e-7 + 1e-9
				if c.Curved {
					tol = perim * 1e-5
				}
				dev := math.Abs(math.Abs(a) - math.Abs(areas[k]))
				o.Max("area_symmetry_dev_rel_perim", dev/perim)
				if dev > tol {
					o.Fail("area-sym:"+entry, "%s: area %.12g of the result on the symmetric image differs from %.12g", entry, a, areas[k])
				}
				o.Decided(1)
			}
		}
	}
	runOps(nil)
	if c.Sym != nil && !c.Curved {
		runOps(c.Sym)
	}
	// area laws (on the library's own settled operands)
	var aP, aQ float64
	okP, okQ := false, false
	o.Guard("Path.Settle", func() {
		if pp, err := refPolys(pathFrom(c.P).Settle(canvas.NonZero), 1e-5, true); err == nil {
			aP, okP = regionArea(pp), true
		}
	})
	o.Guard("Path.Settle", func() {
		if pp, err := refPolys(pathFrom(c.Q).Settle(canvas.NonZero), 1e-5, true); err == nil {
			aQ, okQ = regionArea(pp), true
		}
	})
	tol := perim*1e-7 + 1e-9
	law := func(name string, lhs, rhs float64) {
		dev := math.Abs(lhs - rhs)
		o.Max("area_law_dev_rel_perim", dev/perim)
		o.Decided(1)
		if dev > tol {
			o.Fail("area-law:"+name, "area law %s violated: %.12g vs %.12g (tolerance %.3g)", name, lhs, rhs, tol)
		}
	}
	if have[0] && have[1] && okP && okQ {
		law("A(And)+A(Or)=A(P)+A(Q)", areas[0]+areas[1], aP+aQ)
	}
	if have[0] && have[1] && have[2] {
		law("A(Xor)=A(Or)-A(And)", areas[2], areas[1]-areas[0])
	}
	if have[0] && have[3] && okP {
		law("A(Not)=A(P)-A(And)", areas[3], aP-areas[0])
	}
	if have[4] && okP {
		law("A(DivideBy)=A(P)", areas[4], aP)
	}
	for k, op := range boolOps {
		if op.commOf >= 0 && have[k] && have[op.commOf] {
			law("commutativity of "+op.name, areas[k], areas[op.commOf])
		}
	}
	checkGlobals(o)
}

func c01Describe(ci any) any {
	c := ci.(*c01Case)
	return map[string]any{"kind": c.Kind, "P": dstr(c.P), "Q": dstr(c.Q), "sym": c.Sym}
}

func init() {
	core.Register(&core.Property{
		ID:                "C01",
		Title:             "Boolean path operations compute the set algebra of the filled regions",
		StatesTermination: true,
		Rule: "pairs of closed operands from seeded strata (simple float polygons, integer-grid polygons, coincident/shifted/touching/spiked relations, curved contours, the operand pairs of the repository's tests); " +
			"all five operations plus the commuted And/Or/Xor, on a quarter of the flat cases also on a random grid symmetry image; 64 sample points per case, decided when farther than the margin from every input boundary; " +
			"non-trivial = at least 8 decidable points and overlapping operand boxes; distinct = distinct case hash",
		Strata: []core.Stratum{
			{Name: "simple", Quick: 2500, Thorough: 100000, Gen: genC01Simple, Note: "1-3 simple float contours per operand, one orientation per operand"},
			{Name: "simple-mixed", Quick: 2500, Thorough: 100000, Gen: genC01SimpleMixed, Note: "contours of both orientations within an operand (cancelling regions, holes)"},
			{Name: "grid", Quick: 2500, Thorough: 100000, Gen: genC01Grid, Note: "integer grid 0..8: shared vertices, collinear overlapping and vertical edges"},
			{Name: "grid-mixed", Quick: 2000, Thorough: 10000, Gen: genC01GridMixed, Note: "integer grid with mixed orientations; residual library failure rate about 1e-6 per case (F-C01-grid-mixed), therefore few cases"},
			{Name: "relations", Quick: 2000, Thorough: 80000, Gen: genC01Relations, Note: "Q = P, Q = reverse(P), shared vertex, shared edge, zero-area spike; single-contour P"},
			{Name: "curved", Quick: 600, Thorough: 20000, Gen: genC01Curved},
			{Name: "selfx", Quick: 1500, Thorough: 60000, Gen: genC01SelfX, Note: "bow-ties, star polygons {n/k} with gcd 1, random float polygons"},
			// demoted (DESIGN 4.5): genuine library failures at 1e-5..3e-4 per case; witnesses in known_findings.json
			{Name: "shifted", Quick: 1000, Thorough: 30000, Gen: genC01Shifted, WitnessOnly: true, Note: "Q = P + sub-grid shift, single contour: 1e-5 wrong areas"},
			{Name: "shifted-multi", Quick: 1000, Thorough: 30000, Gen: genC01ShiftedMulti, WitnessOnly: true, Note: "Q = P + sub-grid shift, overlapping contours: 3e-4 wrong regions / And,Or panics"},
			{Name: "relations-multi", Quick: 1500, Thorough: 60000, Gen: genC01RelationsMulti, WitnessOnly: true, Note: "coincident/touching operands made of overlapping contours: 5e-5 wrong regions / And panics"},
			{Name: "selfx-grid", Quick: 500, Thorough: 20000, Gen: genC01SelfXGrid, WitnessOnly: true, Note: "self-crossing integer-grid polygons: 6e-5 wrong regions / Or panics"},
		},
		NewCase:  func() any { return &c01Case{} },
		Corpus:   c01Corpus,
		Check:    c01Check,
		Describe: c01Describe,
		Assumptions: []string{
			"reference winding numbers (exact-sign orientation tests on the operands' own vertices; curved operands densely flattened to 1e-5) are the ground truth",
			"points closer than 1e-6 (flat) or 2*Tolerance+1e-3 (curved) to an input boundary are not decided",
			"area laws use the library's Settle(NonZero) of each operand as A(P), A(Q) and the signed contour areas of the results (canonical orientation)",
		},
	})
}
