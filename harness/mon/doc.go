// Package mon holds one runtime monitor per property (c01.go … c20.go).
package mon
