package mon

import (
	"math"
	"sort"

	"github.com/tdewolff/canvas"

	"verif/core"
	"verif/geom"
)

type c09Case struct {
	P     []float64
	Fracs []float64 // split positions as fractions of Length()
	Vtx   []int     // further split positions: Length() of the path up to the end of segment Vtx[i] (mod the number of segments)
	Kind  string
}

func genC09(kind string) func(r *core.Rng) any {
	return func(r *core.Rng) any {
		var p *canvas.Path
		switch kind {
		case "lines":
			p = genPath(r, pathOpts{Kinds: kLine, MaxSegs: 6, MaxSubs: 1, Closed: 2})
		case "lines-multi":
			p = genPath(r, pathOpts{Kinds: kLine, MaxSegs: 4, MaxSubs: 3, Closed: 2})
		case "mild-beziers":
			p = genPath(r, pathOpts{Kinds: kQuad | kCube | kLine, MaxSegs: 4, MaxSubs: 1, Closed: 2, MildCurve: true})
		case "wild-beziers":
			p = genPath(r, pathOpts{Kinds: kQuad | kCube, MaxSegs: 3, MaxSubs: 1, Closed: 2})
		case "circular-arcs":
			p = genPath(r, pathOpts{Kinds: kArc | kLine, MaxSegs: 3, MaxSubs: 1, Closed: 2, CircArcs: true})
		case "mild-elliptic-arcs":
			p = genPath(r, pathOpts{Kinds: kArc, MaxSegs: 3, MaxSubs: 1, Closed: 2, MaxRatio: 1.5})
		case "elliptic-arcs":
			p = genPath(r, pathOpts{Kinds: kArc, MaxSegs: 3, MaxSubs: 1, Closed: 2, MaxRatio: 20})
		case "mixed-multi":
			p = genPath(r, pathOpts{Kinds: kAll, MaxSegs: 4, MaxSubs: 3, Closed: 2, MildCurve: true, CircArcs: true})
		case "grid": // integer coordinates and radii, circular arcs and lines: exact-value shortcuts
			p = genPath(r, pathOpts{Kinds: kLine | kArc, MaxSegs: 4, MaxSubs: 1, Closed: 2, Integer: true, CircArcs: true})
		default: // mixed
			p = genPath(r, pathOpts{Kinds: kAll, MaxSegs: 5, MaxSubs: 1, Closed: 2, MildCurve: true, CircArcs: true})
		}
		// a set of positions (no repeats); 0 and Length itself appear occasionally
		n := r.IntRange(0, 5)
		var fr []float64
		seen := map[float64]bool{}
		for len(fr) < n {
			f := r.Range(0.01, 0.99)
			if r.Chance(0.1) {
				f = core.PickF(r, []float64{0, 1, 0.5})
			}
			if !seen[f] {
				seen[f] = true
				fr = append(fr, f)
			}
		}
		// cuts at vertices, the way a caller finds them: the length of the leading part of the path
		var vtx []int
		if r.Chance(0.3) {
			for i, m := 0, r.IntRange(1, 2); i < m; i++ {
				vtx = append(vtx, r.Intn(64))
			}
		}
		return &c09Case{P: dataCopy(p), Fracs: fr, Vtx: vtx, Kind: kind}
	}
}

// c09VertexLengths returns Length() of every proper leading part of a single sub-path (the part up
// to the end of its k-th segment, the last segment excluded).
func c09VertexLengths(d []float64) []float64 {
	var out []float64
	for i := 0; i < len(d); {
		n := 4
		switch d[i] {
		case canvas.QuadToCmd:
			n = 6
		case canvas.CubeToCmd, canvas.ArcToCmd:
			n = 8
		}
		i += n
		if d[i-1] != canvas.MoveToCmd && i < len(d) {
			out = append(out, canvas.NewPathFromData(append([]float64{}, d[:i]...)).Length())
		}
	}
	return out
}

func c09Corpus() []any {
	var out []any
	add := func(s string, fr ...float64) {
		if p, err := canvas.ParseSVGPath(s); err == nil {
			out = append(out, &c09Case{P: dataCopy(p), Fracs: fr, Kind: "corpus"})
		}
	}
	add("M0 0L10 0M20 5L30 5", 0.25, 0.75) // multi sub-path split (was broken: p.d instead of ps.d)
	add("M0 0L10 0L10 10zM20 0L30 0", 0.1, 0.5, 0.9)
	add("M0 0A10 10 0 1 1 0 0.001", 0.3, 0.6)
	add("M0 0A10 10 0 0 1 20 0A10 10 0 0 1 0 0z", 0.25, 0.5, 0.75)
	add("M0 0Q5 10 10 0", 0.5)
	add("M0 0C0 10 10 10 10 0", 0.2, 0.4, 0.6, 0.8)
	return out
}

// refLength: length of the exact curve (polyline with chord error below eps converges from below;
// eps is chosen so that the relative length error is below 1e-7).
func refLength(subs []geom.Sub, scale float64) float64 {
	return geom.LengthPolys(geom.Flatten(subs, 1e-8*scale, false))
}

func c09Check(ci any, o *core.Obs) {
	c := ci.(*c09Case)
	P := pathFrom(c.P)
	src, err := refSubs(P)
	if err != nil || len(src) == 0 {
		o.Skip("source not decodable")
		return
	}
	scale := geom.BoxPolys(geom.Flatten(src, 1e-2, false)).Scale()
	Lref := refLength(src, scale)
	if Lref <= 0 {
		o.Skip("zero length")
		return
	}
	o.NonTrivial()

	// ---- Length ------------------------------------------------------------------------------------
	var L float64
	if !o.Call("Path.Length", func() { L = pathFrom(c.P).Length() }) {
		return
	}
	rel := math.Abs(L-Lref) / Lref
	o.Max("length_rel_err:"+c.Kind, rel)
	o.Decided(1)
	if rel > c09LengthRel {
		o.Fail("length", "Length() = %.9g, reference arc length %.9g (relative error %.3g > %.3g); path %s", L, Lref, rel, c09LengthRel, pstr(P))
	}

	// ---- SplitAt -----------------------------------------------------------------------------------
	pos := make([]float64, len(c.Fracs))
	for i, f := range c.Fracs {
		pos[i] = f * L
	}
	if len(c.Vtx) > 0 && len(src) == 1 {
		if vl := c09VertexLengths(c.P); len(vl) > 0 {
			for _, v := range c.Vtx {
				x, dup := vl[v%len(vl)], false
				for _, y := range pos { // the positions are a set
					dup = dup || x == y
				}
				if !dup {
					pos = append(pos, x)
					o.Count("splitat_vertex_cuts", 1)
				}
			}
		}
	}
	ts := append([]float64{}, pos...)
	sort.Float64s(ts)
	var pieces []*canvas.Path
	// the positions are passed in the order they were generated in (arbitrary; SplitAt sorts a copy),
	// in a quarter of the cases sorted
	tsArg := append([]float64{}, pos...)
	if rs := caseRng(c, "C09order"); rs.Chance(0.25) {
		sort.Float64s(tsArg)
	}
	if o.Call("Path.SplitAt", func() { pieces = pathFrom(c.P).SplitAt(tsArg...) }) {
		// distinct interior cut positions
		var cuts []float64
		for _, t := range ts {
			if t > 0 && t < L && (len(cuts) == 0 || t != cuts[len(cuts)-1]) {
				cuts = append(cuts, t)
			}
		}
		var all []geom.Sub
		var pieceLens []float64
		bad := false
		for k, q := range pieces {
			qs, err := refSubs(q)
			if err != nil {
				o.Fail("splitat:malformed", "SplitAt piece %d undecodable: %v", k, err)
				bad = true
				break
			}
			pieceLens = append(pieceLens, refLength(qs, scale))
			all = append(all, qs...)
		}
		if !bad {
			// geometry: the pieces together trace the input, nothing more and nothing less
			h1, at1 := geom.HausdorffSubs(all, src, 16)
			h2, at2 := geom.HausdorffSubs(src, all, 32)
			o.Max("splitat_hausdorff_rel", math.Max(h1, h2)/scale)
			o.Decided(1)
			if h1 > c09GeomRel*scale {
				o.Fail("splitat:extra-geometry", "SplitAt(%v): piece point %v is %.4g away from the input path; input %s", ts, at1, h1, pstr(P))
			} else if h2 > c09GeomRel*scale {
				o.Fail("splitat:missing-geometry", "SplitAt(%v): input point %v is %.4g away from all pieces; input %s", ts, at2, h2, pstr(P))
			}
			sum := 0.0
			for _, l := range pieceLens {
				sum += l
			}
			o.Decided(1)
			// two cuts closer together than the precision of the arc-length inversion (0.1% per segment)
			// can be placed in the wrong order on a curve, the piece between them then runs backwards:
			// the total may exceed the input by up to twice their distance
			slack := 0.0
			for k := 1; k < len(cuts); k++ {
				if d := cuts[k] - cuts[k-1]; d < 2e-3*L {
					slack += 2 * d / L * Lref
				}
			}
			if slack > 0 {
				o.Count("splitat_sum_slack_close_cuts", 1)
			}
			if math.Abs(sum-Lref) > 1e-6*Lref+slack {
				o.Fail("splitat:length-sum", "SplitAt(%v): pieces have total reference length %.9g, input %.9g; input %s", ts, sum, Lref, pstr(P))
			}
			// number of pieces and cut positions (single sub-path inputs: n cuts give n+1 pieces)
			endCut := false
			for _, t := range ts {
				if t < 0 || t >= L {
					endCut = true // a cut at the far end may or may not leave a (tiny) piece: count not defined;
					// a cut at exactly 0 makes no piece (the positions are sorted and a leading 0 is dropped)
				}
			}
			// two cuts closer together than twice the precision of the arc-length inversion (a 0.1%
			// bisection per segment) may land on one point: the number of pieces is then not defined
			for k := 1; k < len(cuts); k++ {
				if cuts[k]-cuts[k-1] < 2e-3*L {
					endCut = true
					o.Count("splitat_count_undecided_close_cuts", 1)
					break
				}
			}
			if len(src) == 1 && !o.Failed() && !endCut {
				o.Decided(1)
				// repeated positions and positions at the ends legitimately give zero-length pieces;
				// the pieces of positive length are what the distinct interior cuts determine
				var lens []float64
				for _, l := range pieceLens {
					if l > 1e-9*Lref {
						lens = append(lens, l)
					}
				}
				if len(lens) != len(cuts)+1 {
					o.Fail("splitat:count", "SplitAt(%v) of a path of length %.6g returned %d pieces of positive length, expected %d; input %s", ts, L, len(lens), len(cuts)+1, pstr(P))
				} else {
					cum := 0.0
					for k := range cuts {
						cum += lens[k]
						// positions are requested in the library's own length measure; map to true arc length
						want := cuts[k] / L * Lref
						e := math.Abs(cum-want) / Lref
						o.Max("splitat_cut_err_rel_total:"+c.Kind, e)
						o.Decided(1)
						if e > c09CutRel {
							o.Fail("splitat:position", "SplitAt(%v): cut %d lies at arc length %.6g, requested %.6g (error %.3g of the path length); input %s", ts, k, cum, want, e, pstr(P))
							break
						}
					}
				}
			}
		}
	}

	// ---- Reverse -----------------------------------------------------------------------------------
	var R, RR *canvas.Path
	if o.Call("Path.Reverse", func() { R = pathFrom(c.P).Reverse(); RR = R.Reverse() }) {
		rs, err := refSubs(R)
		if err != nil {
			o.Fail("reverse:malformed", "Reverse returned undecodable data: %v", err)
			return
		}
		// involution
		d0, d2 := P.Data(), RR.Data()
		o.Decided(1)
		same := len(d0) == len(d2)
		for i := 0; same && i < len(d0); i++ {
			if math.Abs(d0[i]-d2[i]) > 1e-9*scale {
				same = false
			}
		}
		if !same {
			o.Fail("reverse:involution", "Reverse().Reverse() = %s differs from %s", pstr(RR), pstr(P))
		}
		// same point set, opposite direction: segment m of a reversed sub-path is segment n-1-m of
		// the original traversed backwards, with the same parametrisation (Béziers and arcs alike)
		worst := 0.0
		if len(rs) == len(src) {
			for i := range src {
				a, b := &src[i], &rs[len(src)-1-i]
				if len(a.Segs) != len(b.Segs) {
					o.Fail("reverse:segments", "sub-path %d has %d segments, reversed %d", i, len(a.Segs), len(b.Segs))
					continue
				}
				for m := range a.Segs {
					sa, sb := &a.Segs[m], &b.Segs[len(a.Segs)-1-m]
					for k := 0; k <= 8; k++ {
						u := float64(k) / 8
						worst = math.Max(worst, sa.At(u).Dist(sb.At(1-u)))
					}
				}
			}
		}
		o.Max("reverse_dev_rel", worst/scale)
		o.Decided(1)
		if worst > 1e-9*scale {
			o.Fail("reverse:geometry", "Reverse() moved the path by %.4g; %s -> %s", worst, pstr(P), pstr(R))
		}
		if lr := refLength(rs, scale); math.Abs(lr-Lref) > 1e-9*Lref {
			o.Fail("reverse:length", "Reverse() changed the reference length %.12g -> %.12g", Lref, lr)
		}
		if len(rs) != len(src) {
			o.Fail("reverse:subpaths", "Reverse() changed the number of sub-paths %d -> %d", len(src), len(rs))
		} else {
			for i := range src {
				j := len(src) - 1 - i
				if src[i].Closed != rs[j].Closed {
					o.Fail("reverse:closed", "sub-path %d closed=%v became closed=%v", i, src[i].Closed, rs[j].Closed)
				}
				// direction: the reversed sub-path starts where the original ends
				if !src[i].Closed && (rs[j].Start.Dist(src[i].End()) > 1e-12*scale || rs[j].End().Dist(src[i].Start) > 1e-12*scale) {
					o.Fail("reverse:direction", "sub-path %d is not traversed backwards", i)
				}
			}
		}
		// winding numbers negated
		polyS := geom.Flatten(src, 1e-6*scale, true)
		polyR := geom.Flatten(rs, 1e-6*scale, true)
		r := caseRng(c, "C09pts")
		for _, x := range samplePoints(r, polyS, 12, 4) {
			if geom.DistPtPolys(x, polyS) < 1e-4*scale {
				continue
			}
			ws, wr := geom.Winding(x, polyS), geom.Winding(x, polyR)
			o.Decided(1)
			if ws != -wr {
				o.Fail("reverse:winding", "winding number around %v is %d, after Reverse %d", x, ws, wr)
				break
			}
		}
	}
}

// Thresholds.
const (
	// c09LengthRel: the statement says "within about one percent".
	c09LengthRel = 0.02
	// c09GeomRel: pieces are exact sub-curves (de Casteljau / arc re-parametrisation): rounding plus the
	// arc centre conversion; observed < 3e-9.
	c09GeomRel = 1e-7
	// c09CutRel: allowed error of a cut position as a fraction of the total path length. The code
	// inverts arc length with a Chebyshev fit and a 0.1% bisection per segment; the same 'about one
	// percent' as for Length is granted (observed up to 0.7% on mildly elliptic arcs, 0.13% on mild Béziers).
	c09CutRel = 0.01
)

func c09Describe(ci any) any {
	c := ci.(*c09Case)
	return map[string]any{"kind": c.Kind, "P": dstr(c.P), "split_fractions": c.Fracs, "vertex_cuts": c.Vtx}
}

func init() {
	core.Register(&core.Property{
		ID:    "C09",
		Title: "Length, SplitAt and Reverse are consistent views of the same curve",
		Rule: "random paths by curve class (lines, mild Béziers, circular arcs, mildly elliptic arcs, mixed; multi-sub-path variants; wild Béziers and eccentric arcs measured separately) x 0-5 split positions as fractions of Length() (incl. 0, 1, duplicates); " +
			"Length vs reference arc length (2%), SplitAt pieces vs input (two-sided exact-distance Hausdorff, length sum, piece count, cut positions), Reverse (involution, same points and length, closedness, direction, negated winding numbers); every case non-trivial; distinct = distinct case hash",
		Strata: []core.Stratum{
			{Name: "lines", Quick: 1000, Thorough: 20000, Gen: genC09("lines")},
			{Name: "lines-multi", Quick: 1000, Thorough: 20000, Gen: genC09("lines-multi")},
			{Name: "mild-beziers", Quick: 1500, Thorough: 40000, Gen: genC09("mild-beziers")},
			{Name: "circular-arcs", Quick: 1500, Thorough: 40000, Gen: genC09("circular-arcs")},
			{Name: "mild-elliptic-arcs", Quick: 1000, Thorough: 30000, Gen: genC09("mild-elliptic-arcs")},
			{Name: "mixed", Quick: 1500, Thorough: 40000, Gen: genC09("mixed")},
			{Name: "mixed-multi", Quick: 1000, Thorough: 30000, Gen: genC09("mixed-multi")},
			{Name: "grid", Quick: 1000, Thorough: 30000, Gen: genC09("grid")},
			// demoted (DESIGN 4.5)
			{Name: "wild-beziers", Quick: 1000, Thorough: 30000, Gen: genC09("wild-beziers"), WitnessOnly: true, Note: "hairpins/cusps/loops: Length off by up to 5%, cut positions off by up to 2.5% of the path length (8% of cases), pieces overlapping"},
			{Name: "elliptic-arcs", Quick: 1000, Thorough: 30000, Gen: genC09("elliptic-arcs"), WitnessOnly: true, Note: "radii ratio up to 20: Length off by up to 13% (32% of cases beyond 2%), cut positions off by up to 4%"},
		},
		NewCase:  func() any { return &c09Case{} },
		Corpus:   c09Corpus,
		Check:    c09Check,
		Describe: c09Describe,
		Assumptions: []string{
			"reference arc length = length of a polyline with chord error below 1e-8*scale (relative length error < 1e-7)",
			"'about one percent' is read as 2%; cut positions are compared after mapping the library's length measure onto true arc length",
		},
	})
}
