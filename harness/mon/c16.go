package mon

import (
	"fmt"
	"math"
	"sort"
	"strings"
	"unicode"

	"github.com/tdewolff/canvas"

	"verif/core"
)

// C16: text layout places every character once, inside the box, on ordered lines.
//
// The laid-out Text is observed through WalkLines (span text, X, Width, line y), Overflows, Bounds
// and Heights and decided by a model that knows nothing about shaping or line breaking: a lock-step
// reading of input and output characters, geometric invariants of the lines, and the alignment
// rules with natural widths measured by FontFace.TextWidth.

type c16Case struct {
	Parts   []string // text per face (RichText with alternating faces)
	Sizes   []float64
	Fonts   []int
	Width   float64
	Height  float64
	HAlign  int // 0 left 1 right 2 center 3 justify
	VAlign  int // 0 top 1 center 2 bottom
	Indent  float64
	Stretch float64
	Kind    string
}

var c16Words = []string{"a", "in", "the", "olden", "times", "when", "wishing", "helped", "beautiful", "youngest", "astonished", "whenever", "forest", "fountain", "plaything", "I", "x", "Typography", "AVATAR", "office", "Zwölf", "naïve", "kůň"}

func c16Word(r *core.Rng) string {
	w := core.PickS(r, c16Words)
	if r.Chance(0.25) && len(w) > 4 {
		// soft hyphen inside the word
		rs := []rune(w)
		k := r.IntRange(2, len(rs)-2)
		w = string(rs[:k]) + "­" + string(rs[k:])
	}
	return w
}

// genC16Line: NewTextLine with every paragraph separator the library recognises.
func genC16Line(r *core.Rng) any {
	c := &c16Case{Kind: "textline", HAlign: r.Intn(3), Fonts: []int{r.Intn(len(c13FontFiles))}, Sizes: []float64{core.PickF(r, []float64{12, 8, 24, r.Range(5, 40)})}}
	var sb strings.Builder
	for k, n := 0, r.IntRange(1, 8); k < n; k++ {
		switch r.Intn(6) {
		case 0, 1, 2:
			sb.WriteString(c16Word(r))
			if r.Chance(0.5) {
				sb.WriteString(" ")
			}
		case 3:
			sb.WriteString(core.PickS(r, []string{"שלום", "世界", "αβγ", "x y", " "}))
		default:
			sb.WriteString(core.PickS(r, []string{"\n", "\n", "\r\n", "\r", "\u2028", "\u2029", "\u0085", "\v", "\f", "\n\n"}))
		}
	}
	c.Parts = []string{sb.String()}
	return c
}

func genC16(kind string) func(r *core.Rng) any {
	return func(r *core.Rng) any {
		c := &c16Case{Kind: kind, HAlign: r.Intn(4), VAlign: r.Intn(3)}
		if kind == "justify" {
			c.HAlign = 3
		}
		if kind == "align-spaces" {
			c.HAlign = 1 + r.Intn(2)
		}
		if kind == "newline-space" {
			c.HAlign = 1 + r.Intn(3)
		}
		// right-aligned and centred lines that break at more than one space (or end in spaces before an
		// explicit newline) are misplaced by the width of the dropped spaces: finding
		// F-C16-align-dropped-spaces, stratum align-spaces only
		single := (c.HAlign == 1 || c.HAlign == 2) && kind != "align-spaces"
		nparts := core.PickI(r, []int{1, 1, 1, 2, 3})
		for p := 0; p < nparts; p++ {
			var sb strings.Builder
			nw := r.IntRange(1, 14)
			if kind == "justify" {
				nw = r.IntRange(6, 30)
			}
			for w := 0; w < nw; w++ {
				sb.WriteString(c16Word(r))
				if w == nw-1 && p == nparts-1 {
					break
				}
				switch {
				case kind == "newline-space" && r.Chance(0.25):
					// an explicit break followed by white space: the next line starts after it
					sb.WriteString(core.PickS(r, []string{"\n", "\n", "\r\n"}) + core.PickS(r, []string{" ", "  ", "\t", " \t "}))
				case kind == "newline-space":
					sb.WriteString(" ")
				case kind == "justify":
					sb.WriteString(" ")
				case r.Chance(0.08):
					sb.WriteString("\n")
				case r.Chance(0.05) && !single || kind == "align-spaces" && r.Chance(0.3):
					sb.WriteString("  ")
				case r.Chance(0.04):
					sb.WriteString(" ")
				case r.Chance(0.03) && !single:
					sb.WriteString("　")
				case r.Chance(0.04):
					sb.WriteString(", ")
				case r.Chance(0.03):
					sb.WriteString(". ")
				case r.Chance(0.02):
					sb.WriteString("​")
				default:
					sb.WriteString(" ")
				}
			}
			if kind == "hostile" && r.Chance(0.3) && !single {
				sb.WriteString(core.PickS(r, []string{" ", "\n", "  \n ", "­", "世界", " שלום עולם ", "\t", "\r\n"}))
			}
			c.Parts = append(c.Parts, sb.String())
			c.Sizes = append(c.Sizes, core.PickF(r, []float64{12, 12, 8, 18, r.Range(5, 30)}))
			c.Fonts = append(c.Fonts, core.PickI(r, []int{0, 0, 1}))
		}
		c.Width = core.PickF(r, []float64{0, 40, 60, 80, 120, r.Range(5, 200)})
		if kind == "justify" {
			c.Width = r.Range(40, 140)
		}
		if r.Chance(0.3) {
			c.Height = r.Range(5, 120)
		}
		if r.Chance(0.3) {
			c.Indent = r.Range(1, 15)
		}
		if r.Chance(0.3) {
			c.Stretch = core.PickF(r, []float64{0.2, 0.5, 1, -0.1})
		}
		return c
	}
}

var c16HAligns = []canvas.TextAlign{canvas.Left, canvas.Right, canvas.Center, canvas.Justify}
var c16VAligns = []canvas.TextAlign{canvas.Top, canvas.Center, canvas.Bottom}

type c16Span struct {
	x, w, y float64
	text    string
	face    *canvas.FontFace
	rtl     bool
	last    rune // character of the last glyph
	// from the glyphs: laid-out advances of the non-space glyphs, number of plain spaces and the
	// natural advance of one space, all in mm
	inkAdv   float64
	spaces   int
	spaceNat float64
	spaceAdv float64
}

func isDroppable(r rune) bool {
	return unicode.IsSpace(r) || r == '­' || r == '​' || r == '　' || r == ' '
}

// c16CheckLine: NewTextLine(face, s, halign). Every maximal run of s between paragraph separators
// (LF, VT, FF, CR, CR LF as one, NEL, LS, PS) is one line; empty runs leave an empty line's height. The
// spans of a line tile the run's text, do not overlap, and are placed by the alignment around x = 0.
func c16CheckLine(c *c16Case, o *core.Obs) {
	c13LoadFonts()
	fam := c13Fonts[c.Fonts[0]]
	if fam == nil {
		o.Skip("font not available")
		return
	}
	face := fam.Face(c.Sizes[0], canvas.Black, canvas.FontRegular, canvas.FontNormal)
	input := c.Parts[0]
	var t *canvas.Text
	if !o.Call("NewTextLine", func() { t = canvas.NewTextLine(face, input, c16HAligns[c.HAlign]) }) {
		return
	}
	// expected runs
	type run struct {
		text string
		row  int
	}
	var runs []run
	row := 0
	rs := []rune(input)
	cur := ""
	isSep := func(r rune) bool { return (r >= 0x0A && r <= 0x0D) || r == 0x85 || r == 0x2028 || r == 0x2029 }
	for i := 0; i < len(rs); i++ {
		if isSep(rs[i]) {
			if cur != "" {
				runs = append(runs, run{cur, row})
			}
			cur = ""
			row++
			if rs[i] == '\r' && i+1 < len(rs) && rs[i+1] == '\n' {
				i++
			}
			continue
		}
		cur += string(rs[i])
	}
	if cur != "" {
		runs = append(runs, run{cur, row})
	}
	type lspan struct {
		x, w float64
		text string
	}
	var lines [][]lspan
	var ys []float64
	t.WalkLines(func(y float64, spans []canvas.TextSpan) {
		var ln []lspan
		for _, sp := range spans {
			if sp.IsText() {
				ln = append(ln, lspan{sp.X, sp.Width, sp.Text})
			}
		}
		lines = append(lines, ln)
		ys = append(ys, y)
	})
	if len(runs) > 0 {
		o.NonTrivial()
	}
	desc := func() string {
		var sb strings.Builder
		for i, ln := range lines {
			fmt.Fprintf(&sb, " | y=%.4g:", ys[i])
			for _, sp := range ln {
				fmt.Fprintf(&sb, " [%.4g+%.4g %q]", sp.x, sp.w, sp.text)
			}
		}
		return fmt.Sprintf("NewTextLine(%q, %s) font %s size %.4g ->%s", input, []string{"Left", "Right", "Center"}[c.HAlign], c13FontFiles[c.Fonts[0]], c.Sizes[0], sb.String())
	}
	o.Decided(1)
	if len(lines) != len(runs) {
		o.Fail("line-count", "%d lines for %d non-empty runs between paragraph separators; %s", len(lines), len(runs), desc())
		return
	}
	m := face.Metrics()
	lh := m.Ascent + m.Descent + m.LineGap
	for k, ln := range lines {
		// the spans tile the run (logical order may differ from visual order)
		rest := runs[k].text
		used := make([]bool, len(ln))
		for progress := true; progress && rest != ""; {
			progress = false
			for i, sp := range ln {
				if !used[i] && sp.text != "" && strings.HasPrefix(rest, sp.text) {
					used[i], rest, progress = true, rest[len(sp.text):], true
					break
				}
			}
		}
		all := rest == ""
		for i := range ln {
			if !used[i] && ln[i].text != "" {
				all = false
			}
		}
		o.Decided(1)
		if !all {
			o.Fail("characters", "line %d does not consist of the characters of run %q; %s", k, runs[k].text, desc())
			return
		}
		// rows: a run after n separators lies n line heights below the first row
		o.Decided(1)
		if math.Abs(math.Abs(ys[k])-float64(runs[k].row)*lh) > 1e-6*(1+lh*float64(runs[k].row)) {
			o.Fail("row", "line %d (run %q after %d separators) has y=%.6g, expected %d line heights of %.6g; %s", k, runs[k].text, runs[k].row, ys[k], runs[k].row, lh, desc())
			return
		}
		// no overlap, alignment
		total, lo, hi := 0.0, math.Inf(1), math.Inf(-1)
		for i, a := range ln {
			total += a.w
			lo, hi = math.Min(lo, a.x), math.Max(hi, a.x+a.w)
			for j := i + 1; j < len(ln); j++ {
				b := ln[j]
				if ov := math.Min(a.x+a.w, b.x+b.w) - math.Max(a.x, b.x); ov > 1e-6+1e-3*math.Min(a.w, b.w) {
					o.Decided(1)
					o.Fail("overlap", "spans %q and %q of line %d overlap by %.4g mm; %s", a.text, b.text, k, ov, desc())
					return
				}
			}
		}
		o.Decided(1)
		tol := 1e-6 + 1e-6*total
		switch c.HAlign {
		case 0:
			if math.Abs(lo) > tol || math.Abs(hi-total) > tol {
				o.Fail("align-left", "line %d spans [%.6g,%.6g], expected [0,%.6g]; %s", k, lo, hi, total, desc())
				return
			}
		case 1:
			if math.Abs(hi) > tol || math.Abs(lo+total) > tol {
				o.Fail("align-right", "line %d spans [%.6g,%.6g], expected [%.6g,0]; %s", k, lo, hi, -total, desc())
				return
			}
		default:
			if math.Abs(lo+total/2) > tol || math.Abs(hi-total/2) > tol {
				o.Fail("align-centre", "line %d spans [%.6g,%.6g], expected [%.6g,%.6g]; %s", k, lo, hi, -total/2, total/2, desc())
				return
			}
		}
	}
}

func c16Check(ci any, o *core.Obs) {
	c := ci.(*c16Case)
	checkGlobals(o)
	if c.Kind == "textline" {
		c16CheckLine(c, o)
		return
	}
	c13LoadFonts()
	var faces []*canvas.FontFace
	for i := range c.Parts {
		fam := c13Fonts[c.Fonts[i]]
		if fam == nil {
			o.Skip("font not available")
			return
		}
		faces = append(faces, fam.Face(c.Sizes[i], canvas.Black, canvas.FontRegular, canvas.FontNormal))
	}
	input := strings.Join(c.Parts, "")
	var t *canvas.Text
	if !o.Call("RichText.ToText", func() {
		rt := canvas.NewRichText(faces[0])
		for i, s := range c.Parts {
			rt.WriteFace(faces[i], s)
		}
		t = rt.ToText(c.Width, c.Height, c16HAligns[c.HAlign], c16VAligns[c.VAlign], c.Indent, c.Stretch)
	}) {
		return
	}
	o.NonTrivial()
	var lines [][]c16Span
	var ys []float64
	t.WalkLines(func(y float64, spans []canvas.TextSpan) {
		var ln []c16Span
		for _, s := range spans {
			if !s.IsText() {
				continue
			}
			sp := c16Span{x: s.X, w: s.Width, y: y, text: s.Text, face: s.Face, rtl: s.Level%2 == 1}
			if n := len(s.Glyphs); n > 0 {
				sp.last = s.Glyphs[n-1].Text
			}
			sp.spaceNat = s.Face.MmPerEm * float64(s.Face.Font.SFNT.GlyphAdvance(s.Face.Font.SFNT.GlyphIndex(' ')))
			for _, g := range s.Glyphs {
				if g.Text == ' ' {
					sp.spaces++
					sp.spaceAdv += s.Face.MmPerEm * float64(g.XAdvance)
				} else {
					sp.inkAdv += s.Face.MmPerEm * float64(g.XAdvance)
				}
			}
			ln = append(ln, sp)
		}
		lines = append(lines, ln)
		ys = append(ys, y)
	})
	o.Count("lines_laid_out", float64(len(lines)))
	fail := func(tag, format string, a ...any) {
		o.Fail(tag, format+"; %s", append(a, c16Str(c, lines))...)
	}
	bidi := false
	for _, r := range input {
		if unicode.Is(unicode.Hebrew, r) || unicode.Is(unicode.Arabic, r) {
			bidi = true
		}
	}
	// (1) every character once and in order: lock-step reading of input and output
	o.Decided(1)
	if c.Height > 0 {
		// with a box height, lines that do not fit are dropped by design and Text.Text holds the text that
		// was laid out: a prefix of the input
		if !strings.HasPrefix(input, t.Text) {
			fail("content", "Text.Text %q is not a prefix of the input", t.Text)
			return
		}
		input = t.Text
	}
	in := []rune(input)
	pos := 0
	newlinesSeen := 0
	for li, ln := range lines {
		// logical order within the line: spans are stored left to right; for left-to-right text that is
		// the logical order
		var out []rune
		for _, s := range ln {
			out = append(out, []rune(s.text)...)
		}
		if bidi {
			continue
		}
		// at a line start, whitespace that ended the previous line may be dropped
		for k, r := range out {
			// skip input characters that may be absent: soft hyphens and zero-width spaces anywhere,
			// whitespace only while the output is at a line boundary (k == 0) or also whitespace
			for pos < len(in) && in[pos] != r {
				switch {
				case in[pos] == '­' || in[pos] == '​':
					pos++
				case isDroppable(in[pos]) && (k == 0 || li > 0 && k == 0):
					if in[pos] == '\n' {
						newlinesSeen++
					}
					pos++
				default:
					fail("content", "line %d character %d: the output has %q where the input continues with %q (input position %d)", li, k, string(r), string(in[pos]), pos)
					return
				}
			}
			if pos >= len(in) {
				fail("content", "line %d character %d: the output has %q beyond the end of the input", li, k, string(r))
				return
			}
			pos++
		}
		// line-ending whitespace may be dropped: it is skipped at the start of the next line (k == 0)
		// trailing: after the last line only droppable characters may remain
		if li == len(lines)-1 {
			for pos < len(in) {
				if !isDroppable(in[pos]) {
					fail("content", "the input character %q at position %d does not appear in the output", string(in[pos]), pos)
					return
				}
				pos++
			}
		}
	}
	// (6) explicit newlines start a new line
	if !bidi {
		// (characters after the last break that leave no trace — soft hyphens, zero-width spaces — do not
		// make a line of their own: with a box height such a line may be the one that was dropped)
		nl := strings.Count(strings.ReplaceAll(strings.TrimRight(input, "\r\n \t\u00ad\u200b"), "\r\n", "\n"), "\n")
		if len(lines) < nl+1 && strings.TrimSpace(input) != "" {
			fail("newline", "the input has %d explicit line breaks but only %d lines were laid out", nl, len(lines))
			return
		}
	}
	if len(lines) == 0 {
		return
	}
	tol := 1e-6 * (1 + math.Abs(c.Width))
	// (2) lines are stacked monotonically and do not overlap
	o.Decided(1)
	for j := 1; j < len(lines); j++ {
		if !(ys[j] < ys[j-1]) {
			fail("stacking", "line %d has y=%.6g, not below line %d at y=%.6g", j, ys[j], j-1, ys[j-1])
			return
		}
		if len(lines[j]) == 0 || len(lines[j-1]) == 0 || c.Stretch < 0 {
			continue
		}
		desc, asc := 0.0, 0.0
		for _, s := range lines[j-1] {
			desc = math.Max(desc, s.face.Metrics().Descent)
		}
		for _, s := range lines[j] {
			asc = math.Max(asc, s.face.Metrics().Ascent)
		}
		if ys[j-1]-ys[j] < (desc+asc)*(1-1e-9)-tol {
			fail("stacking", "lines %d and %d are %.6g apart, less than descent %.6g + ascent %.6g", j-1, j, ys[j-1]-ys[j], desc, asc)
			return
		}
	}
	// (3) spans on a line do not overlap, (4) and stay inside the box unless Overflows
	o.Decided(1)
	for j, ln := range lines {
		ss := append([]c16Span(nil), ln...)
		sort.Slice(ss, func(a, b int) bool { return ss[a].x < ss[b].x })
		for k := 1; k < len(ss); k++ {
			if ss[k-1].x+ss[k-1].w > ss[k].x+tol+1e-9*ss[k].x {
				fail("overlap", "line %d: span %q [%.6g,%.6g] overlaps span %q starting at %.6g", j, ss[k-1].text, ss[k-1].x, ss[k-1].x+ss[k-1].w, ss[k].text, ss[k].x)
				return
			}
		}
		if len(ss) == 0 {
			continue
		}
		for _, s := range ss {
			if s.w < -tol || math.IsNaN(s.w) || math.IsNaN(s.x) {
				fail("span-width", "line %d: span %q has X %.6g Width %.6g", j, s.text, s.x, s.w)
				return
			}
		}
		end := ss[len(ss)-1].x + ss[len(ss)-1].w
		// advances are integers in font units: one unit per glyph of rounding
		unit := 0.0
		for _, s := range ss {
			unit += float64(len([]rune(s.text))) * s.face.Size / 1000
		}
		if c.Width > 0 && !t.Overflows && (end > c.Width+unit+1e-6*(1+c.Width) || ss[0].x < -unit-1e-6*(1+c.Width)) {
			fail("beyond-box", "line %d spans [%.6g,%.6g] in a box of width %.6g and Overflows is false", j, ss[0].x, end, c.Width)
			return
		}
	}
	// (5) alignment
	if c.Width > 0 && !t.Overflows && !bidi {
		o.Decided(1)
		paraStart := true
		in := []rune(input)
		_ = in
		for j, ln := range lines {
			if len(ln) == 0 {
				paraStart = true
				continue
			}
			ss := append([]c16Span(nil), ln...)
			sort.Slice(ss, func(a, b int) bool { return ss[a].x < ss[b].x })
			start, end := ss[0].x, ss[len(ss)-1].x+ss[len(ss)-1].w
			lineText := ""
			natural := 0.0
			for _, s := range ss {
				lineText += s.text
				natural += s.face.TextWidth(s.text)
			}
			if strings.HasSuffix(lineText, "­") {
				// a soft hyphen taken as a break is shown as a hyphen
				o.Count("lines_ending_in_a_soft_hyphen", 1)
				if ss[len(ss)-1].last != '-' {
					fail("hyphen", "line %d ends at a soft hyphen but its last glyph shows %q", j, string(ss[len(ss)-1].last))
					return
				}
				lastSp := ss[len(ss)-1]
				natural += lastSp.face.TextWidth(strings.TrimSuffix(lastSp.text, "­")+"-") - lastSp.face.TextWidth(lastSp.text)
			}
			trimmed := strings.TrimRight(lineText, " ")
			trailing := 0.0
			if len(trimmed) != len(lineText) {
				trailing = ss[len(ss)-1].face.TextWidth(lineText[len(trimmed):])
			}
			atol := 1e-4 * (1 + c.Width)
			ind := 0.0
			if j == 0 {
				ind = c.Indent
			}
			lastOfPara := j == len(lines)-1 || len(lines[j+1]) == 0
			switch c.HAlign {
			case 0:
				if j == 0 && math.Abs(start-ind) > atol {
					fail("align-left", "the first line starts at %.6g, the indent is %.6g", start, c.Indent)
					return
				}
				if j > 0 && !paraStart && math.Abs(start) > atol {
					fail("align-left", "line %d starts at %.6g", j, start)
					return
				}
			case 1:
				if math.Abs(end-trailing-c.Width) > atol && math.Abs(end-c.Width) > atol {
					fail("align-right", "line %d ends at %.6g (trailing space %.6g), the box is %.6g wide", j, end, trailing, c.Width)
					return
				}
			case 2:
				mid := (start + end - trailing) / 2
				if math.Abs(mid-(c.Width+ind)/2) > atol && math.Abs(mid-c.Width/2) > atol && math.Abs((start+end)/2-c.Width/2) > atol {
					fail("align-center", "line %d spans [%.6g,%.6g] (trailing space %.6g), its middle %.6g is not the middle of the box %.6g", j, start, end, trailing, mid, c.Width/2)
					return
				}
			case 3:
				// justified: a line other than the last of its paragraph ends at the width when the needed
				// adjustment is within the tolerance; decided for lines of letters and plain spaces only
				plain := true
				spaces := 0
				for _, s := range ss {
					for _, r := range s.text {
						if r == ' ' {
							spaces++
						} else if !unicode.IsLetter(r) && r != '-' && r != '­' {
							plain = false
						}
					}
				}
				paraEnds := lastOfPara || strings.Contains(lineText, "\n")
				if !plain || paraEnds || spaces == 0 || len(c.Parts) != 1 || strings.Contains(input, "\n") {
					break
				}
				// natural width from the glyphs themselves: only spaces are adjusted
				nat, spaceW := 0.0, 0.0
				nsp := 0
				for _, s := range ss {
					nat += s.inkAdv + float64(s.spaces)*s.spaceNat
					spaceW += float64(s.spaces) * s.spaceNat
					nsp += s.spaces
				}
				trailingSpaces := len(lineText) - len(trimmed)
				nat -= float64(trailingSpaces) * ss[len(ss)-1].spaceNat
				spaceW -= float64(trailingSpaces) * ss[len(ss)-1].spaceNat
				natural = nat + float64(trailingSpaces)*ss[len(ss)-1].spaceNat
				if spaceW <= 0 {
					break
				}
				gap := c.Width - ind - nat
				ratio := 0.0
				if gap >= 0 {
					ratio = gap / (spaceW * 0.5)
				} else {
					ratio = gap / (spaceW / 3)
				}
				unitTol := atol
				for _, s := range ss {
					unitTol += float64(len([]rune(s.text))) * s.face.Size / 1000 // advances are whole font units
				}
				reaches := math.Abs(end-trailing-c.Width) <= unitTol || math.Abs(end-c.Width) <= unitTol
				unstretched := math.Abs((end-start)-natural) <= 1e-3*(1+natural)
				o.Count("justified_lines_judged", 1)
				switch {
				case ratio > -1+1e-6 && ratio < 2-1e-6:
					if !reaches {
						fail("justify", "line %d (%q) ends at %.6g in a box of %.6g although the adjustment ratio %.4g is within [-1,2] (natural width %.6g, %d spaces)", j, lineText, end, c.Width, ratio, nat, spaces)
						return
					}
				case ratio > 2+1e-6:
					if !reaches && !unstretched {
						fail("justify-loose", "line %d (%q) needs ratio %.4g > 2: it neither ends at the width (%.6g of %.6g) nor is left unstretched (width %.6g, natural %.6g)", j, lineText, ratio, end, c.Width, end-start, natural)
						return
					}
				}
			}
			paraStart = strings.HasSuffix(lineText, "\n")
		}
	}
	// (7) Bounds encloses all spans
	o.Decided(1)
	b := t.Bounds()
	for j, ln := range lines {
		for _, s := range ln {
			if s.w <= 0 || strings.TrimSpace(s.text) == "" {
				continue
			}
			if s.x < b.X0-1e-6 || s.x+s.w > b.X1+1e-6*(1+b.X1) || ys[j] > b.Y1+1e-6 || ys[j] < b.Y0-1e-6 {
				fail("bounds", "Bounds %v does not enclose span %q of line %d at x [%.6g,%.6g], baseline y %.6g", b, s.text, j, s.x, s.x+s.w, ys[j])
				return
			}
		}
	}
	// (8) Heights: the top of the first line and the bottom of the last one enclose every span from its
	// ascent to its descent, and Bounds lies within them
	top, bottom := t.Heights()
	o.Decided(1)
	for j, ln := range lines {
		for _, s := range ln {
			if s.face == nil || strings.TrimSpace(s.text) == "" {
				continue
			}
			m := s.face.Metrics()
			if ys[j]+m.Ascent > top+1e-6*(1+math.Abs(top)) || ys[j]-m.Descent < -bottom-1e-6*(1+math.Abs(bottom)) {
				fail("heights", "Heights() = (top %.6g, bottom %.6g) does not enclose span %q of line %d: baseline y %.6g, ascent %.6g, descent %.6g", top, bottom, s.text, j, ys[j], m.Ascent, m.Descent)
				return
			}
		}
	}
}

func c16Str(c *c16Case, lines [][]c16Span) string {
	s := fmt.Sprintf("parts %q sizes %v fonts %v width %.6g height %.6g halign %d valign %d indent %.4g stretch %.3g; lines:", c.Parts, c.Sizes, c.Fonts, c.Width, c.Height, c.HAlign, c.VAlign, c.Indent, c.Stretch)
	for j, ln := range lines {
		if j > 8 {
			s += " …"
			break
		}
		s += fmt.Sprintf(" [%d y=%.4g:", j, func() float64 {
			if len(ln) > 0 {
				return ln[0].y
			}
			return 0
		}())
		for _, sp := range ln {
			s += fmt.Sprintf(" %q@%.4g+%.4g", sp.text, sp.x, sp.w)
		}
		s += "]"
	}
	return s
}

func c16Describe(ci any) any { return map[string]any{"text": c16Str(ci.(*c16Case), nil)} }

func init() {
	core.Register(&core.Property{
		ID:    "C16",
		Title: "Text layout places every character once, inside the box, on ordered lines",
		Rule: "rich texts of 1-3 faces (DejaVu Serif, EB Garamond; 5-30 pt) made of words with soft hyphens, single and double spaces, no-break and ideographic spaces, zero-width spaces, punctuation, explicit newlines (hostile stratum: trailing whitespace, tabs, CRLF, CJK, Hebrew), box widths 0-200 mm, four horizontal and three vertical alignments, indents, line stretches; " +
			"the result is read through WalkLines/Overflows/Bounds: lock-step reading of input and output characters (only soft hyphens/zero-width spaces anywhere and whitespace at line boundaries may be absent; a hyphen may appear for a soft hyphen at a line end), explicit newlines vs line count, strictly descending baselines at least descent+ascent apart, non-overlapping spans, containment in the box unless Overflows, alignment rules (left: indent/0; right: ends at the width; centre: centred; justify: lines of letters and spaces that are not the last of a paragraph end at the width when the ratio computed from TextWidth and the documented space stretch 1/2 and shrink 1/3 is within (-1,2), else end there or stay natural), Bounds encloses all spans",
		Strata: []core.Stratum{
			{Name: "mixed", Quick: 1500, Thorough: 40000, Gen: genC16("mixed")},
			{Name: "justify", Quick: 1000, Thorough: 30000, Gen: genC16("justify")},
			{Name: "newline-space", Quick: 800, Thorough: 20000, Gen: genC16("newline-space"), Note: "explicit breaks followed by white space, right-aligned, centred and justified"},
			{Name: "textline", Quick: 800, Thorough: 20000, Gen: genC16Line, Note: "NewTextLine with every paragraph separator (LF, VT, FF, CR, CR LF, NEL, LS, PS), mixed scripts, three alignments"},
			{Name: "hostile", Quick: 500, Thorough: 15000, Gen: genC16("hostile")},
			{Name: "align-spaces", Quick: 300, Thorough: 5000, Gen: genC16("align-spaces"), WitnessOnly: true, Note: "right-aligned and centred text with double spaces between words: the width of the spaces dropped at a line end is still counted, so such lines end short of the right edge / are off-centre by half of it"},
		},
		NewCase:  func() any { return &c16Case{} },
		Check:    c16Check,
		Describe: c16Describe,
		Assumptions: []string{
			"natural widths are measured with FontFace.TextWidth (C18 ties it to the glyph advances); the space stretch/shrink factors are the documented package defaults (asserted unchanged)",
			"texts with right-to-left characters are judged for geometry only (their logical order differs from the visual order of the spans)",
		},
	})
}
