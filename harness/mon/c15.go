package mon

import (
	"fmt"
	"image"
	"image/color"
	"math"
	"os"
	"path/filepath"
	"sort"
	"strings"
	"sync"

	"github.com/tdewolff/canvas"

	"verif/core"
	"verif/geom"
)

// C15: Context and Canvas apply views, coordinate systems and state as documented.
//
// A case is a history of Context calls. It is replayed (a) on a Context that wraps a recording
// Renderer and (b) on a Context that wraps a canvas.Canvas which is then replayed to the recorder.
// An independent model (own affine algebra, own state stack, own z-ordered display list) predicts
// every call the recorder must receive and the observable state after every step.

// ---- reference affine algebra --------------------------------------------------------------------

// aff maps (x,y) to (a x + b y + c, d x + e y + f).
type aff [6]float64

var affI = aff{1, 0, 0, 0, 1, 0}

func (m aff) mul(q aff) aff { // m after q
	return aff{
		m[0]*q[0] + m[1]*q[3], m[0]*q[1] + m[1]*q[4], m[0]*q[2] + m[1]*q[5] + m[2],
		m[3]*q[0] + m[4]*q[3], m[3]*q[1] + m[4]*q[4], m[3]*q[2] + m[4]*q[5] + m[5],
	}
}
func (m aff) dot(p Pt) Pt              { return Pt{X: m[0]*p.X + m[1]*p.Y + m[2], Y: m[3]*p.X + m[4]*p.Y + m[5]} }
func affT(x, y float64) aff            { return aff{1, 0, x, 0, 1, y} }
func affS(sx, sy float64) aff          { return aff{sx, 0, 0, 0, sy, 0} }
func affSh(sx, sy float64) aff         { return aff{1, sx, 0, sy, 1, 0} }
func affAbout(m aff, x, y float64) aff { return affT(x, y).mul(m).mul(affT(-x, -y)) }
func affR(deg float64) aff {
	s, c := math.Sincos(deg * math.Pi / 180)
	return aff{c, -s, 0, s, c, 0}
}
func affOf(m canvas.Matrix) aff {
	return aff{m[0][0], m[0][1], m[0][2], m[1][0], m[1][1], m[1][2]}
}
func (m aff) lib() canvas.Matrix {
	return canvas.Matrix{{m[0], m[1], m[2]}, {m[3], m[4], m[5]}}
}
func (m aff) det() float64 { return m[0]*m[4] - m[1]*m[3] }

// affClose compares two matrices by their action on the box [-scale,scale]^2.
func affClose(a, b aff, scale float64) (float64, bool) {
	worst := 0.0
	mag := 1.0
	for _, p := range []Pt{{X: 0, Y: 0}, {X: scale, Y: 0}, {X: 0, Y: scale}, {X: -scale, Y: -scale}} {
		pa, pb := a.dot(p), b.dot(p)
		worst = math.Max(worst, math.Hypot(pa.X-pb.X, pa.Y-pb.Y))
		mag = math.Max(mag, math.Max(math.Hypot(pa.X, pa.Y), math.Hypot(pb.X, pb.Y)))
	}
	return worst, worst <= 1e-9*mag
}

// ---- case ----------------------------------------------------------------------------------------

type c15Op struct {
	Op string
	F  []float64 `json:",omitempty"`
	I  []int     `json:",omitempty"`
}

type c15Case struct {
	W, H float64
	Ops  []c15Op
	// after the history: view for RenderViewTo, matrix for Transform, clip rectangle, fit margin
	ViewTo    []float64
	Transform []float64
	Clip      []float64
	Margin    float64
	Kind      string
}

var c15Cappers = []canvas.Capper{canvas.ButtCap, canvas.RoundCap, canvas.SquareCap}
var c15Joiners = []canvas.Joiner{canvas.MiterJoin, canvas.BevelJoin, canvas.RoundJoin, canvas.ArcsJoin}

func c15Matrix(r *core.Rng) []float64 {
	m := affI
	for k := r.IntRange(1, 3); k > 0; k-- {
		switch r.Intn(5) {
		case 0:
			m = m.mul(affT(r.Range(-40, 40), r.Range(-40, 40)))
		case 1:
			m = m.mul(affR(core.PickF(r, []float64{90, 180, -90, 45, r.Range(-360, 360)})))
		case 2:
			m = m.mul(affS(core.PickF(r, []float64{1, 2, 0.5, -1, r.Range(0.2, 3)}), core.PickF(r, []float64{1, 2, 0.5, -1, r.Range(0.2, 3)})))
		case 3:
			m = m.mul(affSh(r.Range(-1, 1), r.Range(-1, 1)))
		case 4:
			m = m.mul(aff{-1, 0, 0, 0, 1, 0})
		}
	}
	return m[:]
}

func genC15(kind string) func(r *core.Rng) any {
	return func(r *core.Rng) any {
		c := &c15Case{W: core.PickF(r, []float64{100, 210, 50, r.Range(10, 400)}), H: core.PickF(r, []float64{100, 297, 80, r.Range(10, 400)}), Kind: kind}
		add := func(op string, f []float64, i ...int) { c.Ops = append(c.Ops, c15Op{Op: op, F: f, I: i}) }
		pt := func() (float64, float64) {
			if kind == "grid" {
				return float64(r.IntRange(-20, 120)), float64(r.IntRange(-20, 120))
			}
			return r.Range(-20, 120), r.Range(-20, 120)
		}
		depth := 0
		n := r.IntRange(5, 40)
		for i := 0; i < n; i++ {
			switch r.Intn(30) {
			case 0, 1:
				add("Push", nil)
				depth++
			case 2, 3:
				add("Pop", nil) // also on an empty stack: documented no-op
				if depth > 0 {
					depth--
				}
			case 4:
				add("SetCoordSystem", nil, r.Intn(4))
			case 5:
				if r.Bool() {
					add("SetCoordView", c15Matrix(r))
				} else {
					x0, y0 := r.Range(-10, 50), r.Range(-10, 50)
					add("SetCoordRect", []float64{x0, y0, x0 + r.Range(1, 100), y0 + r.Range(1, 100), r.Range(1, 200), r.Range(1, 200)})
				}
			case 6:
				switch r.Intn(3) {
				case 0:
					add("SetView", c15Matrix(r))
				case 1:
					add("ResetView", nil)
				default:
					add("ComposeView", c15Matrix(r))
				}
			case 7:
				x, y := pt()
				add("Translate", []float64{x, y})
			case 8:
				x, y := pt()
				add(core.PickS(r, []string{"ReflectX", "ReflectY", "ReflectXAbout", "ReflectYAbout"}), []float64{x, y})
			case 9:
				x, y := pt()
				add(core.PickS(r, []string{"Rotate", "RotateAbout"}), []float64{core.PickF(r, []float64{90, -90, 180, 30, r.Range(-400, 400)}), x, y})
			case 10:
				x, y := pt()
				add(core.PickS(r, []string{"Scale", "ScaleAbout"}), []float64{core.PickF(r, []float64{2, 0.5, -1, r.Range(0.1, 4)}), core.PickF(r, []float64{2, 0.5, -1, r.Range(0.1, 4)}), x, y})
			case 11:
				x, y := pt()
				add(core.PickS(r, []string{"Shear", "ShearAbout"}), []float64{r.Range(-1.5, 1.5), r.Range(-1.5, 1.5), x, y})
			case 12:
				add(core.PickS(r, []string{"SetFillColor", "SetStrokeColor", "SetFill", "SetStroke"}), nil, r.Intn(256), r.Intn(256), r.Intn(256), core.PickI(r, []int{255, 255, 128, 0}))
			case 13:
				add(core.PickS(r, []string{"SetFillNone", "SetStrokeNone", "SetFillGradient", "SetStrokeGradient"}), []float64{r.Range(0, 50), r.Range(0, 50), r.Range(50, 100), r.Range(0, 100)})
			case 14:
				add("SetStrokeWidth", []float64{core.PickF(r, []float64{0, 0.5, 1, 2, r.Range(0.1, 5)})})
			case 15:
				add(core.PickS(r, []string{"SetStrokeCapper", "SetStrokeJoiner"}), nil, r.Intn(3))
			case 16:
				d := []float64{r.Range(0, 3)}
				if r.Chance(0.2) {
					d = d[:1] // no dashes
				} else {
					base := r.Range(0.1, 0.5)
					for k := 2 * r.IntRange(1, 2); k > 0; k-- {
						base += r.Range(0.05, 0.4) // strictly increasing entries: positive and never a repeated pattern
						d = append(d, base)
					}
				}
				add("SetDashes", d)
			case 17:
				add("SetFillRule", nil, r.Intn(2))
			case 18:
				add("ResetStyle", nil)
			case 19:
				add("SetZIndex", nil, r.IntRange(-3, 3))
			case 20, 21, 22:
				// build and paint the current path
				x, y := pt()
				add("MoveTo", []float64{x, y})
				for k := r.IntRange(1, 4); k > 0; k-- {
					x, y := pt()
					switch r.Intn(4) {
					case 0:
						add("LineTo", []float64{x, y})
					case 1:
						cx, cy := pt()
						add("QuadTo", []float64{cx, cy, x, y})
					case 2:
						cx, cy := pt()
						dx, dy := pt()
						add("CubeTo", []float64{cx, cy, dx, dy, x, y})
					default:
						add("ArcTo", []float64{r.Range(5, 60), r.Range(5, 60), r.Range(0, 180), x, y}, r.Intn(2), r.Intn(2))
					}
				}
				if r.Bool() {
					add("Close", nil)
				}
				add(core.PickS(r, []string{"Fill", "Stroke", "FillStroke"}), nil)
			case 23, 24, 25, 26:
				x, y := pt()
				p := genPath(r, pathOpts{Kinds: kAll, MinSegs: 2, MaxSegs: 5, MaxSubs: 2, Closed: 2, MildCurve: true, CircArcs: r.Bool()})
				if p.Length() < 20 {
					p = canvas.Rectangle(r.Range(10, 40), r.Range(10, 40))
				}
				if r.Chance(0.15) {
					// a straight horizontal or vertical line: its bounds have no area, only its stroke does
					p = &canvas.Path{}
					x0, y0, l := r.Range(-30, 30), r.Range(-30, 30), r.Range(20, 120)
					p.MoveTo(x0, y0)
					if r.Bool() {
						p.LineTo(x0+l, y0)
					} else {
						p.LineTo(x0, y0+l)
					}
				}
				add("DrawPath", append([]float64{x, y}, dataCopy(p)...))
			case 27:
				x, y := pt()
				add("DrawText", []float64{x, y})
			case 28:
				x, y := pt()
				if r.Bool() {
					add("DrawImage", []float64{x, y, core.PickF(r, []float64{1, 2, 0.5, r.Range(0.2, 10)})}, r.IntRange(1, 6), r.IntRange(1, 6))
					break
				}
				// FitImage: for ImageCover the rectangle has the aspect ratio of the image cropped by a whole
				// number of pixels on both sides of one axis, so that the crop does not depend on rounding
				w, h := r.IntRange(2, 12), r.IntRange(2, 12)
				fit := r.Intn(3)
				W, H := r.Range(3, 60), r.Range(3, 60)
				if fit == 2 {
					cw, ch := w, h
					if r.Bool() {
						cw = w - 2*r.Intn((w+1)/2)
					} else {
						ch = h - 2*r.Intn((h+1)/2)
					}
					sc := r.Range(0.5, 6)
					W, H = sc*float64(cw), sc*float64(ch)
				}
				add("FitImage", []float64{x, y, W, H}, w, h, fit)
			default:
				add("MutateLast", nil) // the caller changes the path object it drew last
			}
		}
		c.ViewTo = c15Matrix(r)
		c.Transform = c15Matrix(r)
		x0, y0 := r.Range(-20, 60), r.Range(-20, 60)
		c.Clip = []float64{x0, y0, x0 + r.Range(5, 150), y0 + r.Range(5, 150)}
		c.Margin = core.PickF(r, []float64{0, 1, 5, r.Range(0, 20)})
		// clip rectangles that start exactly on an axis (one offset zero, or both)
		if r.Chance(0.3) {
			switch r.Intn(3) {
			case 0:
				c.Clip[2], c.Clip[0] = c.Clip[2]-c.Clip[0], 0
			case 1:
				c.Clip[3], c.Clip[1] = c.Clip[3]-c.Clip[1], 0
			default:
				c.Clip[2], c.Clip[0] = c.Clip[2]-c.Clip[0], 0
				c.Clip[3], c.Clip[1] = c.Clip[3]-c.Clip[1], 0
			}
		}
		return c
	}
}

// ---- model ---------------------------------------------------------------------------------------

type c15Paint struct {
	None     bool
	Col      color.RGBA
	Gradient canvas.Gradient
}

type c15Style struct {
	Fill, Stroke c15Paint
	Width        float64
	Cap, Join    int
	DashOffset   float64
	Dashes       []float64
	Rule         int
}

type c15State struct {
	Style c15Style
	View  aff
	Coord aff
	Sys   int
}

type c15Draw struct {
	Kind  string // path | text | image
	Data  []float64
	Style c15Style
	M     aff
	Z     int
	Seq   int
	ImgW  int
	ImgH  int
}

func c15Default() c15Style {
	return c15Style{Fill: c15Paint{Col: color.RGBA{0, 0, 0, 255}}, Stroke: c15Paint{None: true}, Width: 1, Cap: 0, Join: 0, Rule: 0}
}

func (s c15Style) hasFill() bool {
	return !s.Fill.None && (s.Fill.Gradient != nil || s.Fill.Col.A != 0)
}
func (s c15Style) hasStroke() bool {
	return !s.Stroke.None && (s.Stroke.Gradient != nil || s.Stroke.Col.A != 0) && s.Width > 0
}

func premul(i []int) color.RGBA {
	// the setters take a color.Color; the histories pass non-premultiplied NRGBA values
	c := color.NRGBA{uint8(i[0]), uint8(i[1]), uint8(i[2]), uint8(i[3])}
	r, g, b, a := c.RGBA()
	return color.RGBA{uint8(r >> 8), uint8(g >> 8), uint8(b >> 8), uint8(a >> 8)}
}

func sysView(sys int, w, h float64) aff {
	switch sys {
	case 1: // CartesianII: origin bottom-right, x to the left
		return aff{-1, 0, w, 0, 1, 0}
	case 2: // III: origin top-right
		return aff{-1, 0, w, 0, -1, h}
	case 3: // IV: origin top-left, y down
		return aff{1, 0, 0, 0, -1, h}
	}
	return affI
}

// ---- recorder ------------------------------------------------------------------------------------

type c15Call struct {
	Kind  string
	Data  []float64
	Style canvas.Style
	M     canvas.Matrix
	Text  *canvas.Text
	Img   image.Image
}

type c15Recorder struct {
	w, h  float64
	calls []c15Call
}

func (r *c15Recorder) Size() (float64, float64) { return r.w, r.h }
func (r *c15Recorder) RenderPath(p *canvas.Path, s canvas.Style, m canvas.Matrix) {
	s.Dashes = append([]float64(nil), s.Dashes...)
	r.calls = append(r.calls, c15Call{Kind: "path", Data: dataCopy(p), Style: s, M: m})
}
func (r *c15Recorder) RenderText(t *canvas.Text, m canvas.Matrix) {
	r.calls = append(r.calls, c15Call{Kind: "text", Text: t, M: m})
}
func (r *c15Recorder) RenderImage(img image.Image, m canvas.Matrix) {
	r.calls = append(r.calls, c15Call{Kind: "image", Img: img, M: m})
}

var c15FontOnce sync.Once
var c15Face *canvas.FontFace

func c15Text() *canvas.Text {
	c15FontOnce.Do(func() {
		b, err := os.ReadFile(filepath.Join(repoDir(), "resources", "DejaVuSerif.ttf"))
		if err != nil {
			return
		}
		fam := canvas.NewFontFamily("dejavu")
		if fam.LoadFont(b, 0, canvas.FontRegular) == nil {
			c15Face = fam.Face(12, canvas.Black, canvas.FontRegular, canvas.FontNormal)
		}
	})
	if c15Face == nil {
		return nil
	}
	return canvas.NewTextLine(c15Face, "Ab", canvas.Left)
}

// ---- check ---------------------------------------------------------------------------------------

func c15PaintMatches(got canvas.Paint, want c15Paint) bool {
	if want.None {
		return !got.Has()
	}
	if want.Gradient != nil {
		return got.Gradient == want.Gradient && got.Pattern == nil
	}
	return got.Gradient == nil && got.Pattern == nil && got.Color == want.Col
}

func c15StyleDiff(got canvas.Style, want c15Style, forDraw bool) string {
	var d []string
	if !c15PaintMatches(got.Fill, want.Fill) {
		d = append(d, fmt.Sprintf("fill %+v, expected %+v", got.Fill, want.Fill))
	}
	if !c15PaintMatches(got.Stroke, want.Stroke) && !(forDraw && !want.hasStroke() && !got.HasStroke()) {
		d = append(d, fmt.Sprintf("stroke %+v, expected %+v", got.Stroke, want.Stroke))
	}
	if got.StrokeWidth != want.Width {
		d = append(d, fmt.Sprintf("stroke width %v, expected %v", got.StrokeWidth, want.Width))
	}
	if got.StrokeCapper != c15Cappers[want.Cap] {
		d = append(d, fmt.Sprintf("capper %v, expected %v", got.StrokeCapper, c15Cappers[want.Cap]))
	}
	if got.StrokeJoiner != c15Joiners[want.Join] {
		d = append(d, fmt.Sprintf("joiner %v, expected %v", got.StrokeJoiner, c15Joiners[want.Join]))
	}
	if got.DashOffset != want.DashOffset || !bitsEqual(got.Dashes, want.Dashes) {
		d = append(d, fmt.Sprintf("dashes %v offset %v, expected %v offset %v", got.Dashes, got.DashOffset, want.Dashes, want.DashOffset))
	}
	if int(got.FillRule) != want.Rule {
		d = append(d, fmt.Sprintf("fill rule %v, expected %v", got.FillRule, want.Rule))
	}
	return strings.Join(d, "; ")
}

// c15Run replays the history on a Context over r, checking the observable state after every call,
// and returns the display list the model predicts.
func c15Run(c *c15Case, r canvas.Renderer, rec *c15Recorder, o *core.Obs, label string) ([]c15Draw, bool) {
	ctx := canvas.NewContext(r)
	st := c15State{Style: c15Default(), View: affI, Coord: affI}
	var stack []c15State
	var draws []c15Draw
	shadow := &canvas.Path{}
	var lastDrawn *canvas.Path
	z, seq := 0, 0
	_, isCanvas := r.(*canvas.Canvas)
	gradients := map[int]canvas.Gradient{}
	okAll := true
	for i, op := range c.Ops {
		f := op.F
		before := 0
		if rec != nil {
			before = len(rec.calls)
		}
		var expect []c15Draw
		drawM := func(x, y float64) aff {
			q := st.Coord.dot(Pt{X: x, Y: y})
			return sysView(st.Sys, c.W, c.H).mul(st.View).mul(affT(q.X, q.Y))
		}
		paintPath := func(p *canvas.Path, x, y float64, sty c15Style) {
			if !sty.hasFill() && !sty.hasStroke() {
				return
			}
			expect = append(expect, c15Draw{Kind: "path", Data: dataCopy(p), Style: sty, M: drawM(x, y), Z: z})
		}
		panicked := o.Guard("Context."+op.Op, func() {
			switch op.Op {
			case "Push":
				ctx.Push()
				s := st
				s.Style.Dashes = append([]float64(nil), st.Style.Dashes...)
				stack = append(stack, s)
			case "Pop":
				ctx.Pop()
				if len(stack) > 0 {
					st = stack[len(stack)-1]
					stack = stack[:len(stack)-1]
				}
			case "SetCoordSystem":
				ctx.SetCoordSystem(canvas.CoordSystem(op.I[0]))
				st.Sys = op.I[0]
			case "SetCoordView":
				var m aff
				copy(m[:], f)
				ctx.SetCoordView(m.lib())
				st.Coord = m
			case "SetCoordRect":
				ctx.SetCoordRect(canvas.Rect{X0: f[0], Y0: f[1], X1: f[2], Y1: f[3]}, f[4], f[5])
				// coordinates (0,0)-(width,height) map onto the rectangle
				st.Coord = affT(f[0], f[1]).mul(affS((f[2]-f[0])/f[4], (f[3]-f[1])/f[5]))
			case "SetView":
				var m aff
				copy(m[:], f)
				ctx.SetView(m.lib())
				st.View = m
			case "ResetView":
				ctx.ResetView()
				st.View = affI
			case "ComposeView":
				var m aff
				copy(m[:], f)
				ctx.ComposeView(m.lib())
				st.View = st.View.mul(m)
			case "Translate":
				ctx.Translate(f[0], f[1])
				st.View = st.View.mul(affT(f[0], f[1]))
			case "ReflectX":
				ctx.ReflectX()
				st.View = st.View.mul(affS(-1, 1))
			case "ReflectY":
				ctx.ReflectY()
				st.View = st.View.mul(affS(1, -1))
			case "ReflectXAbout":
				ctx.ReflectXAbout(f[0])
				st.View = st.View.mul(affAbout(affS(-1, 1), f[0], 0))
			case "ReflectYAbout":
				ctx.ReflectYAbout(f[1])
				st.View = st.View.mul(affAbout(affS(1, -1), 0, f[1]))
			case "Rotate":
				ctx.Rotate(f[0])
				st.View = st.View.mul(affR(f[0]))
			case "RotateAbout":
				ctx.RotateAbout(f[0], f[1], f[2])
				st.View = st.View.mul(affAbout(affR(f[0]), f[1], f[2]))
			case "Scale":
				ctx.Scale(f[0], f[1])
				st.View = st.View.mul(affS(f[0], f[1]))
			case "ScaleAbout":
				ctx.ScaleAbout(f[0], f[1], f[2], f[3])
				st.View = st.View.mul(affAbout(affS(f[0], f[1]), f[2], f[3]))
			case "Shear":
				ctx.Shear(f[0], f[1])
				st.View = st.View.mul(affSh(f[0], f[1]))
			case "ShearAbout":
				ctx.ShearAbout(f[0], f[1], f[2], f[3])
				st.View = st.View.mul(affAbout(affSh(f[0], f[1]), f[2], f[3]))
			case "SetFillColor":
				ctx.SetFillColor(color.NRGBA{uint8(op.I[0]), uint8(op.I[1]), uint8(op.I[2]), uint8(op.I[3])})
				st.Style.Fill = c15Paint{Col: premul(op.I)}
			case "SetStrokeColor":
				ctx.SetStrokeColor(color.NRGBA{uint8(op.I[0]), uint8(op.I[1]), uint8(op.I[2]), uint8(op.I[3])})
				st.Style.Stroke = c15Paint{Col: premul(op.I)}
			case "SetFill":
				ctx.SetFill(color.NRGBA{uint8(op.I[0]), uint8(op.I[1]), uint8(op.I[2]), uint8(op.I[3])})
				st.Style.Fill = c15Paint{Col: premul(op.I)}
			case "SetStroke":
				ctx.SetStroke(color.NRGBA{uint8(op.I[0]), uint8(op.I[1]), uint8(op.I[2]), uint8(op.I[3])})
				st.Style.Stroke = c15Paint{Col: premul(op.I)}
			case "SetFillNone":
				ctx.SetFill(nil)
				st.Style.Fill = c15Paint{None: true}
			case "SetStrokeNone":
				ctx.SetStroke(nil)
				st.Style.Stroke = c15Paint{None: true}
			case "SetFillGradient", "SetStrokeGradient":
				g := canvas.NewLinearGradient(canvas.Point{X: f[0], Y: f[1]}, canvas.Point{X: f[2], Y: f[3]})
				g.Add(0, canvas.Red)
				g.Add(1, canvas.Blue)
				gradients[i] = g
				if op.Op == "SetFillGradient" {
					ctx.SetFillGradient(g)
					st.Style.Fill = c15Paint{Gradient: g}
				} else {
					ctx.SetStrokeGradient(g)
					st.Style.Stroke = c15Paint{Gradient: g}
				}
			case "SetStrokeWidth":
				ctx.SetStrokeWidth(f[0])
				st.Style.Width = f[0]
			case "SetStrokeCapper":
				ctx.SetStrokeCapper(c15Cappers[op.I[0]])
				st.Style.Cap = op.I[0]
			case "SetStrokeJoiner":
				ctx.SetStrokeJoiner(c15Joiners[op.I[0]])
				st.Style.Join = op.I[0]
			case "SetDashes":
				ctx.SetDashes(f[0], append([]float64(nil), f[1:]...)...)
				st.Style.DashOffset = f[0]
				st.Style.Dashes = append([]float64(nil), f[1:]...)
			case "SetFillRule":
				ctx.SetFillRule(canvas.FillRule(op.I[0]))
				st.Style.Rule = op.I[0]
			case "ResetStyle":
				ctx.ResetStyle()
				st.Style = c15Default()
			case "SetZIndex":
				ctx.SetZIndex(op.I[0])
				if isCanvas {
					z = op.I[0]
				}
			case "MoveTo":
				ctx.MoveTo(f[0], f[1])
				shadow.MoveTo(f[0], f[1])
			case "LineTo":
				ctx.LineTo(f[0], f[1])
				shadow.LineTo(f[0], f[1])
			case "QuadTo":
				ctx.QuadTo(f[0], f[1], f[2], f[3])
				shadow.QuadTo(f[0], f[1], f[2], f[3])
			case "CubeTo":
				ctx.CubeTo(f[0], f[1], f[2], f[3], f[4], f[5])
				shadow.CubeTo(f[0], f[1], f[2], f[3], f[4], f[5])
			case "ArcTo":
				ctx.ArcTo(f[0], f[1], f[2], op.I[0] == 1, op.I[1] == 1, f[3], f[4])
				shadow.ArcTo(f[0], f[1], f[2], op.I[0] == 1, op.I[1] == 1, f[3], f[4])
			case "Close":
				ctx.Close()
				shadow.Close()
			case "Fill", "Stroke", "FillStroke":
				sty := st.Style
				sty.Dashes = append([]float64(nil), sty.Dashes...)
				if op.Op == "Fill" {
					sty.Stroke = c15Paint{None: true}
				} else if op.Op == "Stroke" {
					sty.Fill = c15Paint{None: true}
				}
				// dashes are dropped when the first dash covers the whole path; the histories use dashes
				// shorter than 2.5 (in units of the stroke width) and the check below skips paths shorter than that
				paintPath(shadow, 0, 0, sty)
				switch op.Op {
				case "Fill":
					ctx.Fill()
				case "Stroke":
					ctx.Stroke()
				default:
					ctx.FillStroke()
				}
				shadow = &canvas.Path{}
			case "DrawPath":
				p := pathFrom(f[2:])
				sty := st.Style
				sty.Dashes = append([]float64(nil), sty.Dashes...)
				paintPath(p, f[0], f[1], sty)
				ctx.DrawPath(f[0], f[1], p)
				lastDrawn = p
			case "MutateLast":
				if lastDrawn != nil {
					lastDrawn.LineTo(1234, 5678)
					lastDrawn.Close()
				}
			case "DrawText":
				t := c15Text()
				if t == nil {
					return
				}
				m := drawM(f[0], f[1])
				// upright in flipped systems: the reflections of the coordinate system are undone locally
				if st.Sys == 2 || st.Sys == 3 {
					m = m.mul(affS(1, -1))
				}
				if st.Sys == 1 || st.Sys == 2 {
					m = m.mul(affS(-1, 1))
				}
				expect = append(expect, c15Draw{Kind: "text", M: m, Z: z})
				ctx.DrawText(f[0], f[1], t)
			case "DrawImage":
				img := image.NewRGBA(image.Rect(0, 0, op.I[0], op.I[1]))
				m := drawM(f[0], f[1]).mul(affS(1/f[2], 1/f[2]))
				if st.Sys == 2 || st.Sys == 3 {
					m = m.mul(affAbout(affS(1, -1), 0, float64(op.I[1])/2))
				}
				if st.Sys == 1 || st.Sys == 2 {
					m = m.mul(affAbout(affS(-1, 1), float64(op.I[0])/2, 0))
				}
				expect = append(expect, c15Draw{Kind: "image", M: m, Z: z, ImgW: op.I[0], ImgH: op.I[1]})
				ctx.DrawImage(f[0], f[1], img, canvas.DPMM(f[2]))
			case "FitImage":
				// the image (cropped for ImageCover) fills / is contained in / covers the rectangle
				// (x,y)-(x+W,y+H) of the context, upright in flipped systems like DrawImage
				w, h := float64(op.I[0]), float64(op.I[1])
				img := image.NewRGBA(image.Rect(0, 0, op.I[0], op.I[1]))
				x, y, W, H := f[0], f[1], f[2], f[3]
				xres, yres := w/W, h/H
				cw, ch := w, h
				switch op.I[2] {
				case 1: // contain: one resolution, centred
					if xres < yres {
						x += (W - w/yres) / 2
						xres = yres
					} else {
						y += (H - h/xres) / 2
						yres = xres
					}
				case 2: // cover: crop the axis that sticks out, the same number of pixels on both sides
					if xres < yres {
						ch = h - 2*math.Round((h-H*xres)/2)
						yres = ch / H
					} else {
						cw = w - 2*math.Round((w-W*yres)/2)
						xres = cw / W
					}
				}
				m := drawM(x, y).mul(affS(1/xres, 1/yres))
				if st.Sys == 2 || st.Sys == 3 {
					m = m.mul(affAbout(affS(1, -1), 0, ch/2))
				}
				if st.Sys == 1 || st.Sys == 2 {
					m = m.mul(affAbout(affS(-1, 1), cw/2, 0))
				}
				expect = append(expect, c15Draw{Kind: "image", M: m, Z: z, ImgW: int(cw), ImgH: int(ch)})
				fit := []canvas.ImageFit{canvas.ImageFill, canvas.ImageContain, canvas.ImageCover}[op.I[2]]
				ctx.FitImage(img, canvas.Rect{X0: f[0], Y0: f[1], X1: f[0] + W, Y1: f[1] + H}, fit)
			}
		})
		if panicked {
			o.Fail("panic", "%s: step %d %s%v panicked at %s: %s", label, i, op.Op, op.F, o.PanicSite, o.PanicVal)
			return draws, false
		}
		o.Decided(1)
		// observable state after the call
		if d, ok := affClose(affOf(ctx.View()), st.View, 100); !ok {
			o.Fail("view", "%s: after step %d (%s%v) View() differs from the composition of the calls by %.3g: %v, expected %v", label, i, op.Op, op.F, d, ctx.View(), st.View)
			okAll = false
		}
		if d, ok := affClose(affOf(ctx.CoordView()), st.Coord, 100); !ok {
			o.Fail("coordview", "%s: after step %d (%s%v) CoordView() differs by %.3g: %v, expected %v", label, i, op.Op, op.F, d, ctx.CoordView(), st.Coord)
			okAll = false
		}
		if d, ok := affClose(affOf(ctx.CoordSystemView()), sysView(st.Sys, c.W, c.H), 100); !ok {
			o.Fail("coordsystem", "%s: after step %d (%s%v) CoordSystemView() differs by %.3g: %v, expected system %d on %gx%g", label, i, op.Op, op.F, d, ctx.CoordSystemView(), st.Sys, c.W, c.H)
			okAll = false
		}
		if d := c15StyleDiff(ctx.Style, st.Style, false); d != "" {
			o.Fail("style-state", "%s: after step %d (%s%v, stack depth %d) the style is not what the calls set: %s", label, i, op.Op, op.F, len(stack), d)
			okAll = false
		}
		if x, y := ctx.Pos(); x != shadow.Pos().X || y != shadow.Pos().Y {
			o.Fail("pos", "%s: after step %d (%s) Pos() = (%g,%g), the path built so far ends at %v", label, i, op.Op, x, y, shadow.Pos())
			okAll = false
		}
		for k := range expect {
			expect[k].Seq = seq
			seq++
		}
		draws = append(draws, expect...)
		// calls received by the recorder for this step (direct mode)
		if rec != nil {
			got := rec.calls[before:]
			if !c15Compare(o, label, fmt.Sprintf("step %d (%s)", i, op.Op), got, expect) {
				okAll = false
			}
		}
		if !okAll {
			return draws, false
		}
	}
	return draws, true
}

// c15Compare checks the calls a renderer received against the predicted draws, in order.
func c15Compare(o *core.Obs, label, where string, got []c15Call, want []c15Draw) bool {
	if len(got) != len(want) {
		o.Fail("draw-count", "%s: %s: the renderer received %d calls, expected %d", label, where, len(got), len(want))
		return false
	}
	for k := range want {
		g, w := got[k], want[k]
		o.Decided(1)
		if g.Kind != w.Kind {
			o.Fail("draw-order", "%s: %s: call %d is a %s, expected a %s (z-index %d, drawn %d-th)", label, where, k, g.Kind, w.Kind, w.Z, w.Seq)
			return false
		}
		scale := 100.0
		if w.Kind == "path" {
			if !bitsEqual(g.Data, w.Data) {
				o.Fail("draw-path", "%s: %s: call %d carries path %s, expected %s (z-index %d, drawn %d-th)", label, where, k, dstr(g.Data), dstr(w.Data), w.Z, w.Seq)
				return false
			}
			// dashes are in units of the stroke width (since 1186c65 DrawPath compares them so): a path shorter
			// than three widths may lie within the first dash or gap of the histories' patterns
			short := pathFrom(w.Data).Length() < 3*math.Max(1, w.Style.Width)
			sty := w.Style
			if short {
				sty.Dashes, g.Style.Dashes = nil, nil // dash simplification for short paths is C05's subject
				g.Style.DashOffset = sty.DashOffset   // (the offset goes with the dashes)
			}
			if len(sty.Dashes) == 0 {
				g.Style.Dashes = nil
			}
			if d := c15StyleDiff(g.Style, sty, true); d != "" {
				o.Fail("draw-style", "%s: %s: call %d (path %s) has a style other than the one current when it was drawn: %s", label, where, k, dstr(w.Data), d)
				return false
			}
		}
		if w.Kind == "image" && g.Img != nil && w.ImgW > 0 {
			if b := g.Img.Bounds(); b.Dx() != w.ImgW || b.Dy() != w.ImgH {
				o.Fail("draw-image-size", "%s: %s: call %d carries an image of %dx%d pixels, expected %dx%d", label, where, k, b.Dx(), b.Dy(), w.ImgW, w.ImgH)
				return false
			}
		}
		if d, ok := affClose(affOf(g.M), w.M, scale); !ok {
			o.Fail("draw-matrix-"+w.Kind, "%s: %s: call %d (%s) is placed by %v, expected %v = CoordSystemView x View x Translate(CoordView(x,y)) (differs by %.3g over a 100 unit box)", label, where, k, w.Kind, g.M, w.M, d)
			return false
		}
	}
	return true
}

// c15MultiPath: DrawPath(x, y, p1, p2) draws each path with the style current at the call: what is decided
// for p1 (its stroke is left out when the whole of p1 lies in a gap of the dash pattern) must not reach
// p2. The long path is drawn once after a short one and once alone; the renderer must receive it with
// the same style both times.
func c15MultiPath(c *c15Case, o *core.Obs) {
	r := caseRng(c, "C15multi")
	dash, gap := r.Range(2, 8), r.Range(3, 9)
	short := &canvas.Path{}
	short.MoveTo(0, 0)
	short.LineTo(r.Range(0.5, 0.9)*gap, 0) // shorter than the gap the pattern starts in
	long := canvas.Rectangle(r.Range(30, 60), r.Range(20, 40))
	draw := func(both bool) (canvas.Style, bool) {
		rec := &c15Recorder{w: c.W, h: c.H}
		ctx := canvas.NewContext(rec)
		ctx.SetFillColor(canvas.Transparent)
		ctx.SetStrokeColor(canvas.Black)
		ctx.SetStrokeWidth(1)
		ctx.SetDashes(dash, dash, gap) // offset = first dash: the pattern starts at the beginning of a gap
		if both {
			ctx.DrawPath(5, 5, short, long)
		} else {
			ctx.DrawPath(5, 5, long)
		}
		for _, cl := range rec.calls {
			if cl.Kind == "path" && bitsEqual(cl.Data, long.Data()) {
				return cl.Style, true
			}
		}
		return canvas.Style{}, false
	}
	var alone, after canvas.Style
	var ok1, ok2 bool
	if o.Guard("Context.DrawPath", func() { alone, ok1 = draw(false); after, ok2 = draw(true) }) {
		o.Fail("panic", "DrawPath with two paths panicked at %s: %s", o.PanicSite, o.PanicVal)
		return
	}
	o.Decided(1)
	if !ok1 || !ok2 {
		o.Fail("multi-path", "DrawPath(short, long) with dashes %g,%g offset %g: the long path reached the renderer alone=%v, after the short one=%v", dash, gap, dash, ok1, ok2)
		return
	}
	if alone.HasStroke() != after.HasStroke() || !bitsEqual(alone.Dashes, after.Dashes) || alone.DashOffset != after.DashOffset {
		o.Fail("multi-path", "DrawPath(short, long) with dashes %g,%g offset %g: the long path is drawn with stroke=%v dashes %v after the short path (length %.3g, inside the first gap), with stroke=%v dashes %v alone", dash, gap, dash, after.HasStroke(), after.Dashes, short.Length(), alone.HasStroke(), alone.Dashes)
	}
}

func c15Check(ci any, o *core.Obs) {
	c := ci.(*c15Case)
	checkGlobals(o)
	c15MultiPath(c, o)
	if o.Failed() {
		return
	}
	// (a) Context over the recording renderer
	rec := &c15Recorder{w: c.W, h: c.H}
	if _, ok := c15Run(c, rec, rec, o, "direct"); !ok {
		return
	}
	// (b) Context over a Canvas, then replay
	cv := canvas.New(c.W, c.H)
	draws, ok := c15Run(c, cv, nil, o, "canvas")
	if !ok {
		return
	}
	o.NonTrivial()
	o.Count("context_calls", float64(2*len(c.Ops)))
	o.Count("draws_recorded", float64(len(draws)))
	sort.SliceStable(draws, func(i, j int) bool { return draws[i].Z < draws[j].Z })
	zs := map[int]bool{}
	for _, d := range draws {
		zs[d.Z] = true
	}
	o.Max("z_indices_in_one_canvas", float64(len(zs)))
	replay := func(label string, view *aff, pre aff) bool {
		rec := &c15Recorder{w: cv.W, h: cv.H}
		ok := o.Call("Canvas.RenderTo", func() {
			if view == nil {
				cv.RenderTo(rec)
			} else {
				cv.RenderViewTo(rec, view.lib())
			}
		})
		if !ok {
			return false
		}
		want := make([]c15Draw, len(draws))
		for i, d := range draws {
			d.M = pre.mul(d.M)
			if view != nil {
				d.M = view.mul(d.M)
			}
			want[i] = d
		}
		return c15Compare(o, label, "replay", rec.calls, want)
	}
	if !replay("RenderTo", nil, affI) || !replay("RenderTo again", nil, affI) {
		return
	}
	var v aff
	copy(v[:], c.ViewTo)
	if !replay("RenderViewTo", &v, affI) {
		return
	}
	if cv.Empty() != (len(draws) == 0) {
		o.Fail("empty", "Canvas.Empty() = %v with %d recorded draws", cv.Empty(), len(draws))
	}
	// Transform
	var tm aff
	copy(tm[:], c.Transform)
	if !o.Call("Canvas.Transform", func() { cv.Transform(tm.lib()) }) {
		return
	}
	if !replay("after Transform", nil, tm) {
		return
	}
	// Clip
	clip := canvas.Rect{X0: c.Clip[0], Y0: c.Clip[1], X1: c.Clip[2], Y1: c.Clip[3]}
	if !o.Call("Canvas.Clip", func() { cv.Clip(clip) }) {
		return
	}
	pre := affT(-c.Clip[0], -c.Clip[1]).mul(tm)
	if math.Abs(cv.W-(c.Clip[2]-c.Clip[0])) > 1e-9 || math.Abs(cv.H-(c.Clip[3]-c.Clip[1])) > 1e-9 {
		o.Fail("clip-size", "after Clip(%v) the canvas measures %gx%g", clip, cv.W, cv.H)
		return
	}
	if !replay("after Clip", nil, pre) {
		return
	}
	// Fit: all content moves by one translation and lies within the canvas with the margin
	if !o.Call("Canvas.Fit", func() { cv.Fit(c.Margin) }) {
		return
	}
	rec2 := &c15Recorder{w: cv.W, h: cv.H}
	cv.RenderTo(rec2)
	if len(rec2.calls) != len(draws) {
		o.Fail("fit-count", "after Fit the canvas replays %d calls, %d were recorded", len(rec2.calls), len(draws))
		return
	}
	if len(draws) == 0 {
		return
	}
	var shift *Pt
	outside := ""
	minX, minY, maxX, maxY := math.Inf(1), math.Inf(1), math.Inf(-1), math.Inf(-1)
	pathsOnly, anyStroke := true, false
	for k, d := range draws {
		before := pre.mul(d.M)
		after := affOf(rec2.calls[k].M)
		// same linear part, one common translation
		lin := aff{after[0], after[1], 0, after[3], after[4], 0}
		if dd, ok := affClose(lin, aff{before[0], before[1], 0, before[3], before[4], 0}, 100); !ok {
			o.Fail("fit-linear", "Fit changed the linear part of draw %d by %.3g", k, dd)
			return
		}
		s := Pt{X: after[2] - before[2], Y: after[5] - before[5]}
		if shift == nil {
			shift = &s
		} else if math.Hypot(s.X-shift.X, s.Y-shift.Y) > 1e-7*(1+math.Hypot(s.X, s.Y)) {
			o.Fail("fit-consistent", "Fit moved draw %d by (%g,%g) and draw 0 by (%g,%g)", k, s.X, s.Y, shift.X, shift.Y)
			return
		}
		if d.Kind != "path" {
			pathsOnly = false
			continue
		}
		subs, err := geom.Decode(d.Data)
		if err != nil {
			continue
		}
		if d.Style.hasStroke() {
			anyStroke = true
		} else {
			// a fill of a path without area (all points on one horizontal or vertical line) paints nothing
			box := geom.SampleSubs(subs, 8)
			x0, y0, x1, y1 := math.Inf(1), math.Inf(1), math.Inf(-1), math.Inf(-1)
			for _, p := range box {
				x0, y0, x1, y1 = math.Min(x0, p.X), math.Min(y0, p.Y), math.Max(x1, p.X), math.Max(y1, p.Y)
			}
			if x1-x0 < 1e-9 || y1-y0 < 1e-9 {
				continue
			}
		}
		for _, p := range geom.SampleSubs(subs, 64) {
			q := after.dot(p)
			minX, minY, maxX, maxY = math.Min(minX, q.X), math.Min(minY, q.Y), math.Max(maxX, q.X), math.Max(maxY, q.Y)
			if outside == "" && (q.X < c.Margin-1e-6*(1+cv.W) || q.Y < c.Margin-1e-6*(1+cv.H) || q.X > cv.W-c.Margin+1e-6*(1+cv.W) || q.Y > cv.H-c.Margin+1e-6*(1+cv.H)) {
				outside = fmt.Sprintf("draw %d (path %s, fill %v stroke %v, matrix %v) has the point (%.6g,%.6g)", k, dstr(d.Data), d.Style.hasFill(), d.Style.hasStroke(), after, q.X, q.Y)
			}
		}
	}
	o.Decided(1)
	if !math.IsInf(minX, 0) {
		tol := 1e-6 * (1 + math.Abs(maxX-minX) + math.Abs(maxY-minY))
		if minX < c.Margin-tol || minY < c.Margin-tol || maxX > cv.W-c.Margin+tol || maxY > cv.H-c.Margin+tol {
			o.Fail("fit-contain", "after Fit(%g) the path content spans [%.6g,%.6g]x[%.6g,%.6g] on a canvas of %.6gx%.6g: %s", c.Margin, minX, maxX, minY, maxY, cv.W, cv.H, outside)
			return
		}
		o.Count("fit_containment_checked", 1)
		_ = pathsOnly
		_ = anyStroke
	}
}

func c15Describe(ci any) any {
	c := ci.(*c15Case)
	var ops []string
	for _, op := range c.Ops {
		s := op.Op
		if len(op.F) > 0 && len(op.F) <= 7 {
			s += fmt.Sprint(op.F)
		} else if len(op.F) > 7 {
			s += fmt.Sprintf("[%g %g %s]", op.F[0], op.F[1], dstr(op.F[2:]))
		}
		if len(op.I) > 0 {
			s += fmt.Sprint(op.I)
		}
		ops = append(ops, s)
	}
	return map[string]any{"size": []float64{c.W, c.H}, "history": strings.Join(ops, " ")}
}

func init() {
	core.Register(&core.Property{
		ID:    "C15",
		Title: "Context and Canvas apply views, coordinate systems and state as documented",
		Rule: "histories of 5-40 Context calls (Push/Pop incl. on an empty stack, four coordinate systems, SetCoordView/SetCoordRect, SetView/ResetView/ComposeView, Translate/Reflect*/Rotate*/Scale*/Shear* and their About forms, colour/none/gradient paints, width, capper, joiner, dashes, fill rule, ResetStyle, z-index, current-path building with Fill/Stroke/FillStroke, DrawPath, DrawText, DrawImage, mutation of a drawn path by the caller) are replayed on a Context over a recording Renderer and over a Canvas; " +
			"an independent model (own affine algebra, state stack, z-ordered display list) predicts the observable state after every call and every call the renderer receives (path data bit-exact, style, matrix within 1e-9 relative); the Canvas is replayed twice, through RenderViewTo, after Transform, after Clip and after Fit (one common translation, containment of sampled path points with the margin); every history is non-trivial; distinct = distinct case hash",
		Strata: []core.Stratum{
			{Name: "random", Quick: 4000, Thorough: 120000, Gen: genC15("random")},
			{Name: "grid", Quick: 2000, Thorough: 60000, Gen: genC15("grid")},
		},
		NewCase:  func() any { return &c15Case{} },
		Check:    c15Check,
		Describe: c15Describe,
		Assumptions: []string{
			"the model is written from the documentation of Context/Canvas (canvas.go doc comments, README coordinate systems); Path building itself is C10's subject and mirrored with the library's builder",
			"Fit containment is checked for path geometry (stroke widths, text and image extents are covered by the library's own bounds, C08/C16)",
		},
	})
}
