// Package refpdf is a minimal, independent reader of PDF files (ISO 32000-1) used as the oracle of
// the PDF monitors: file structure (header, body, cross-reference table, trailer), objects, streams
// and their filters, the page tree, and content streams. It shares no code with the library.
// Everything that is not well-formed is reported as a Problem; nothing is repaired.
package refpdf

import (
	"bytes"
	"compress/zlib"
	"encoding/ascii85"
	"fmt"
	"image/jpeg"
	"io"
	"math"
	"sort"
	"strconv"
	"strings"
	"unicode/utf16"
)

type Name string
type Ref struct{ Num, Gen int }
type Dict map[Name]any
type Array []any
type String []byte // the bytes the string denotes (escapes resolved, hex decoded)
type Int int64
type Real float64
type Keyword string // operators in content streams, obj/endobj/stream/... in files
type Null struct{}

type Stream struct {
	Dict   Dict
	Raw    []byte
	Offset int // file offset of the first data byte
}

type XrefEntry struct {
	Offset, Gen int
	InUse       bool
}

type Problem struct {
	Tag string
	Msg string
}

func (p Problem) String() string { return p.Tag + ": " + p.Msg }

type File struct {
	Data     []byte
	Version  string
	Xref     map[int]XrefEntry
	Trailer  Dict
	Objects  map[int]any // object number -> value (in-use entries that parsed)
	Offsets  map[int]int // object number -> offset found by the linear scan of the body
	Problems []Problem
}

func (f *File) problem(tag, format string, a ...any) {
	if len(f.Problems) < 50 {
		f.Problems = append(f.Problems, Problem{tag, fmt.Sprintf(format, a...)})
	}
}

// ---- lexer ---------------------------------------------------------------------------------------

type lexer struct {
	d   []byte
	pos int
	err string
}

func isWhite(c byte) bool { return c == 0 || c == 9 || c == 10 || c == 12 || c == 13 || c == 32 }
func isDelim(c byte) bool {
	switch c {
	case '(', ')', '<', '>', '[', ']', '{', '}', '/', '%':
		return true
	}
	return false
}

func (l *lexer) skipWhite() {
	for l.pos < len(l.d) {
		c := l.d[l.pos]
		if isWhite(c) {
			l.pos++
		} else if c == '%' {
			for l.pos < len(l.d) && l.d[l.pos] != 10 && l.d[l.pos] != 13 {
				l.pos++
			}
		} else {
			return
		}
	}
}

// next returns the next object-level token: Name, String, Int, Real, Keyword, or the delimiters
// "[", "]", "<<", ">>" as Keyword. ok=false at the end of the data or on a lexical error.
func (l *lexer) next() (any, bool) {
	l.skipWhite()
	if l.pos >= len(l.d) {
		return nil, false
	}
	c := l.d[l.pos]
	switch {
	case c == '/':
		l.pos++
		var nm []byte
		for l.pos < len(l.d) && !isWhite(l.d[l.pos]) && !isDelim(l.d[l.pos]) {
			if l.d[l.pos] == '#' && l.pos+2 < len(l.d) {
				v, err := strconv.ParseUint(string(l.d[l.pos+1:l.pos+3]), 16, 8)
				if err != nil {
					l.err = "bad #xx escape in a name"
					return nil, false
				}
				nm = append(nm, byte(v))
				l.pos += 3
				continue
			}
			nm = append(nm, l.d[l.pos])
			l.pos++
		}
		return Name(nm), true
	case c == '(':
		return l.literalString()
	case c == '<':
		if l.pos+1 < len(l.d) && l.d[l.pos+1] == '<' {
			l.pos += 2
			return Keyword("<<"), true
		}
		l.pos++
		var hex []byte
		for l.pos < len(l.d) && l.d[l.pos] != '>' {
			ch := l.d[l.pos]
			if !isWhite(ch) {
				if !strings.ContainsRune("0123456789abcdefABCDEF", rune(ch)) {
					l.err = fmt.Sprintf("character %q in a hexadecimal string", ch)
					return nil, false
				}
				hex = append(hex, ch)
			}
			l.pos++
		}
		if l.pos >= len(l.d) {
			l.err = "unterminated hexadecimal string"
			return nil, false
		}
		l.pos++
		if len(hex)%2 == 1 {
			hex = append(hex, '0')
		}
		out := make([]byte, len(hex)/2)
		for i := range out {
			v, _ := strconv.ParseUint(string(hex[2*i:2*i+2]), 16, 8)
			out[i] = byte(v)
		}
		return String(out), true
	case c == '>':
		if l.pos+1 < len(l.d) && l.d[l.pos+1] == '>' {
			l.pos += 2
			return Keyword(">>"), true
		}
		l.err = "stray '>'"
		return nil, false
	case c == '[' || c == ']':
		l.pos++
		return Keyword(string(c)), true
	case c == '{' || c == '}' || c == ')':
		l.err = fmt.Sprintf("stray %q", c)
		return nil, false
	}
	start := l.pos
	for l.pos < len(l.d) && !isWhite(l.d[l.pos]) && !isDelim(l.d[l.pos]) {
		l.pos++
	}
	tok := string(l.d[start:l.pos])
	if tok == "" {
		l.err = "empty token"
		return nil, false
	}
	if c == '+' || c == '-' || c == '.' || (c >= '0' && c <= '9') {
		if !strings.ContainsAny(tok, ".") {
			if v, err := strconv.ParseInt(tok, 10, 64); err == nil {
				return Int(v), true
			}
		}
		// PDF reals: digits with one optional point, no exponent
		okReal := true
		dots := 0
		for i, ch := range tok {
			switch {
			case ch >= '0' && ch <= '9':
			case ch == '.':
				dots++
			case (ch == '+' || ch == '-') && i == 0:
			default:
				okReal = false
			}
		}
		if okReal && dots <= 1 {
			if v, err := strconv.ParseFloat(tok, 64); err == nil {
				return Real(v), true
			}
		}
		l.err = fmt.Sprintf("malformed number %q", tok)
		return nil, false
	}
	return Keyword(tok), true
}

func (l *lexer) literalString() (any, bool) {
	l.pos++ // (
	depth := 1
	var out []byte
	for l.pos < len(l.d) {
		c := l.d[l.pos]
		switch c {
		case '\\':
			l.pos++
			if l.pos >= len(l.d) {
				l.err = "unterminated string"
				return nil, false
			}
			e := l.d[l.pos]
			switch e {
			case 'n':
				out = append(out, 10)
			case 'r':
				out = append(out, 13)
			case 't':
				out = append(out, 9)
			case 'b':
				out = append(out, 8)
			case 'f':
				out = append(out, 12)
			case '(', ')', '\\':
				out = append(out, e)
			case 13:
				if l.pos+1 < len(l.d) && l.d[l.pos+1] == 10 {
					l.pos++
				}
			case 10:
			default:
				if e >= '0' && e <= '7' {
					v := 0
					n := 0
					for n < 3 && l.pos < len(l.d) && l.d[l.pos] >= '0' && l.d[l.pos] <= '7' {
						v = v*8 + int(l.d[l.pos]-'0')
						l.pos++
						n++
					}
					out = append(out, byte(v))
					continue
				}
				out = append(out, e) // the backslash is ignored
			}
			l.pos++
		case '(':
			depth++
			out = append(out, c)
			l.pos++
		case ')':
			depth--
			l.pos++
			if depth == 0 {
				return String(out), true
			}
			out = append(out, c)
		case 13:
			// an unescaped end-of-line marker inside a string denotes a single LINE FEED
			out = append(out, 10)
			l.pos++
			if l.pos < len(l.d) && l.d[l.pos] == 10 {
				l.pos++
			}
		default:
			out = append(out, c)
			l.pos++
		}
	}
	l.err = "unterminated string"
	return nil, false
}

// object parses one object (with "n g R" look-ahead for references).
func (l *lexer) object() (any, bool) {
	t, ok := l.next()
	if !ok {
		return nil, false
	}
	switch v := t.(type) {
	case Keyword:
		switch v {
		case "[":
			var arr Array
			for {
				l.skipWhite()
				if l.pos < len(l.d) && l.d[l.pos] == ']' {
					l.pos++
					return arr, true
				}
				e, ok := l.object()
				if !ok {
					if l.err == "" {
						l.err = "unterminated array"
					}
					return nil, false
				}
				arr = append(arr, e)
			}
		case "<<":
			d := Dict{}
			for {
				l.skipWhite()
				if l.pos+1 < len(l.d) && l.d[l.pos] == '>' && l.d[l.pos+1] == '>' {
					l.pos += 2
					return d, true
				}
				k, ok := l.next()
				if !ok {
					if l.err == "" {
						l.err = "unterminated dictionary"
					}
					return nil, false
				}
				key, isName := k.(Name)
				if !isName {
					l.err = fmt.Sprintf("dictionary key %v is not a name", k)
					return nil, false
				}
				val, ok := l.object()
				if !ok {
					if l.err == "" {
						l.err = "dictionary value missing"
					}
					return nil, false
				}
				if _, dup := d[key]; dup {
					l.err = fmt.Sprintf("duplicate dictionary key /%s", key)
					return nil, false
				}
				d[key] = val
			}
		case "true":
			return true, true
		case "false":
			return false, true
		case "null":
			return Null{}, true
		}
		return v, true
	case Int:
		// reference?
		save := l.pos
		if t2, ok := l.next(); ok {
			if g, isInt := t2.(Int); isInt && g >= 0 {
				if t3, ok := l.next(); ok {
					if k, isK := t3.(Keyword); isK && k == "R" {
						return Ref{int(v), int(g)}, true
					}
				}
			}
		}
		l.pos = save
		l.err = ""
		return v, true
	}
	return t, true
}

// ---- file ----------------------------------------------------------------------------------------

func eolLen(d []byte, p int) int {
	if p < len(d) && d[p] == 13 {
		if p+1 < len(d) && d[p+1] == 10 {
			return 2
		}
		return 1
	}
	if p < len(d) && d[p] == 10 {
		return 1
	}
	return 0
}

// Parse reads a PDF file.
func Parse(data []byte) *File {
	f := &File{Data: data, Xref: map[int]XrefEntry{}, Objects: map[int]any{}, Offsets: map[int]int{}}
	if !bytes.HasPrefix(data, []byte("%PDF-1.")) || len(data) < 9 {
		f.problem("header", "file does not start with %%PDF-1.x")
		return f
	}
	f.Version = string(data[5:8])
	// trailer end: startxref <offset> %%EOF
	tail := data
	k := bytes.LastIndex(tail, []byte("startxref"))
	if k < 0 {
		f.problem("trailer", "no startxref")
		return f
	}
	l := &lexer{d: data, pos: k + len("startxref")}
	t, ok := l.next()
	xoff, isInt := t.(Int)
	if !ok || !isInt {
		f.problem("trailer", "startxref is not followed by an integer")
		return f
	}
	rest := bytes.TrimSpace(data[l.pos:])
	if !bytes.Equal(rest, []byte("%%EOF")) {
		f.problem("trailer", "the file does not end with %%%%EOF after startxref (found %q)", firstBytes(rest, 30))
	}
	if int(xoff) < 0 || int(xoff)+4 > len(data) || string(data[xoff:xoff+4]) != "xref" {
		f.problem("xref", "startxref %d does not point at the keyword xref", xoff)
		return f
	}
	// cross-reference table
	p := int(xoff) + 4
	p += eolLen(data, p)
	maxNum := -1
	entries := 0
	for {
		l := &lexer{d: data, pos: p}
		t1, ok1 := l.next()
		if kw, isK := t1.(Keyword); ok1 && isK && kw == "trailer" {
			p = l.pos
			break
		}
		first, okA := t1.(Int)
		t2, ok2 := l.next()
		count, okB := t2.(Int)
		if !ok1 || !ok2 || !okA || !okB {
			f.problem("xref", "malformed cross-reference subsection header at offset %d", p)
			return f
		}
		p = l.pos
		n := eolLen(data, p)
		if n == 0 {
			// a single space before the EOL is tolerated by the specification's grammar? No: "first count EOL"
			for p < len(data) && data[p] == ' ' {
				p++
			}
			n = eolLen(data, p)
		}
		p += n
		for i := 0; i < int(count); i++ {
			if p+20 > len(data) {
				f.problem("xref", "cross-reference table is truncated")
				return f
			}
			e := data[p : p+20]
			okFmt := e[10] == ' ' && e[16] == ' ' && (e[17] == 'n' || e[17] == 'f') &&
				((e[18] == ' ' && (e[19] == 10 || e[19] == 13)) || (e[18] == 13 && e[19] == 10))
			off, err1 := strconv.Atoi(string(e[0:10]))
			gen, err2 := strconv.Atoi(string(e[11:16]))
			if !okFmt || err1 != nil || err2 != nil {
				f.problem("xref", "cross-reference entry %d is not in the 20-byte format: %q", int(first)+i, e)
				return f
			}
			num := int(first) + i
			if _, dup := f.Xref[num]; dup {
				f.problem("xref", "object %d is listed twice", num)
			}
			f.Xref[num] = XrefEntry{Offset: off, Gen: gen, InUse: e[17] == 'n'}
			if num > maxNum {
				maxNum = num
			}
			entries++
			p += 20
		}
	}
	if e, ok := f.Xref[0]; !ok || e.InUse || e.Gen != 65535 {
		f.problem("xref", "object 0 is not the head of the free list (65535 f)")
	}
	// trailer dictionary
	l = &lexer{d: data, pos: p}
	tv, ok := l.object()
	td, isDict := tv.(Dict)
	if !ok || !isDict {
		f.problem("trailer", "trailer dictionary does not parse: %s", l.err)
		return f
	}
	f.Trailer = td
	if sz, ok := td["Size"].(Int); !ok || int(sz) != maxNum+1 {
		f.problem("trailer", "Size is %v, the cross-reference table has objects 0..%d", td["Size"], maxNum)
	}
	if _, ok := td["Prev"]; ok {
		f.problem("unsupported", "incremental updates (Prev) are not read")
	}
	// linear scan of the body: header, objects back to back, then xref
	f.scanBody(int(xoff))
	// objects at the offsets of the table
	nums := make([]int, 0, len(f.Xref))
	for n := range f.Xref {
		nums = append(nums, n)
	}
	sort.Ints(nums)
	for _, num := range nums {
		e := f.Xref[num]
		if !e.InUse {
			continue
		}
		if off, ok := f.Offsets[num]; !ok {
			f.problem("xref-offset", "object %d is listed at offset %d but the body contains no '%d %d obj'", num, e.Offset, num, e.Gen)
		} else if off != e.Offset {
			f.problem("xref-offset", "object %d is listed at offset %d but '%d %d obj' starts at offset %d", num, e.Offset, num, e.Gen, off)
		}
	}
	for num, off := range f.Offsets {
		if e, ok := f.Xref[num]; !ok || !e.InUse {
			f.problem("xref-missing", "object %d at offset %d is not listed as in use in the cross-reference table", num, off)
		}
	}
	return f
}

func firstBytes(b []byte, n int) []byte {
	if len(b) > n {
		return b[:n]
	}
	return b
}

// scanBody parses the objects from the header to the cross-reference table.
func (f *File) scanBody(end int) {
	d := f.Data
	l := &lexer{d: d[:end], pos: 0}
	for {
		l.skipWhite()
		if l.pos >= end {
			return
		}
		start := l.pos
		t1, ok1 := l.next()
		t2, ok2 := l.next()
		t3, ok3 := l.next()
		num, a := t1.(Int)
		gen, b := t2.(Int)
		kw, c := t3.(Keyword)
		if !(ok1 && ok2 && ok3 && a && b && c && kw == "obj") {
			f.problem("body", "offset %d: expected 'n g obj', found %q (%s)", start, firstBytes(d[start:], 30), l.err)
			return
		}
		if _, dup := f.Offsets[int(num)]; dup {
			f.problem("body", "object %d is defined twice", num)
		}
		f.Offsets[int(num)] = start
		_ = gen
		val, ok := l.object()
		if !ok {
			f.problem("object", "object %d does not parse: %s", num, l.err)
			return
		}
		save := l.pos
		t, ok := l.next()
		if k, isK := t.(Keyword); ok && isK && k == "stream" {
			dict, isDict := val.(Dict)
			if !isDict {
				f.problem("stream", "object %d: stream without a dictionary", num)
				return
			}
			p := l.pos
			n := eolLen(d, p)
			if n == 0 || (n == 1 && d[p] == 13) {
				f.problem("stream", "object %d: the keyword stream is not followed by LF or CRLF", num)
				return
			}
			p += n
			st := &Stream{Dict: dict, Offset: p}
			length := -1
			indirect := false
			switch lv := dict["Length"].(type) {
			case Int:
				length = int(lv)
			case Ref:
				indirect = true // compared after the scan (CheckReferences)
			}
			// after Length bytes and at most one end-of-line marker the keyword endstream must follow
			fits := func(n int) bool {
				if n < 0 || p+n > end {
					return false
				}
				q := p + n + eolLen(d, p+n)
				return q+9 <= end && string(d[q:q+9]) == "endstream"
			}
			actual, e := 0, 0
			if length >= 0 && fits(length) {
				actual = length
				e = length + eolLen(d, p+length)
			} else {
				// recover: the data extends to the next endstream
				e = bytes.Index(d[p:end], []byte("endstream"))
				if e < 0 {
					f.problem("stream", "object %d: no endstream", num)
					return
				}
				actual = e - trailingEOL(d[p:p+e])
				if !indirect {
					f.problem("stream-length", "object %d: Length is %v, but %d bytes lie between stream and endstream", num, dict["Length"], actual)
				}
			}
			st.Raw = d[p : p+actual]
			l.pos = p + e + len("endstream")
			val = st
			t, ok = l.next()
		} else {
			l.pos = save
			t, ok = l.next()
		}
		if k, isK := t.(Keyword); !ok || !isK || k != "endobj" {
			f.problem("object", "object %d is not closed by endobj (found %v)", num, t)
			return
		}
		f.Objects[int(num)] = val
	}
}

func trailingEOL(b []byte) int {
	if len(b) >= 2 && b[len(b)-2] == 13 && b[len(b)-1] == 10 {
		return 2
	}
	if len(b) >= 1 && (b[len(b)-1] == 10 || b[len(b)-1] == 13) {
		return 1
	}
	return 0
}

// Resolve follows references (one level at a time) until a direct object is reached.
func (f *File) Resolve(v any) any {
	for i := 0; i < 32; i++ {
		r, ok := v.(Ref)
		if !ok {
			return v
		}
		o, ok := f.Objects[r.Num]
		if !ok {
			return nil
		}
		v = o
	}
	return nil
}

// CheckReferences verifies that every indirect reference anywhere resolves to an in-use object of
// the same generation, and that indirect stream lengths match.
func (f *File) CheckReferences() {
	var walk func(v any, where string)
	walk = func(v any, where string) {
		switch x := v.(type) {
		case Ref:
			e, ok := f.Xref[x.Num]
			if !ok || !e.InUse || e.Gen != x.Gen {
				f.problem("reference", "%s: reference %d %d R does not resolve to an object in use", where, x.Num, x.Gen)
			} else if _, ok := f.Objects[x.Num]; !ok {
				f.problem("reference", "%s: reference %d %d R points at an object that is not in the body", where, x.Num, x.Gen)
			}
		case Dict:
			for k, e := range x {
				walk(e, where+"/"+string(k))
			}
		case Array:
			for i, e := range x {
				walk(e, fmt.Sprintf("%s[%d]", where, i))
			}
		case Keyword:
			f.problem("object-syntax", "%s: bare word %q where an object is expected", where, string(x))
		case Real:
			if math.IsNaN(float64(x)) || math.IsInf(float64(x), 0) {
				f.problem("object-syntax", "%s: non-finite number", where)
			}
		case *Stream:
			walk(x.Dict, where)
			if r, ok := x.Dict["Length"].(Ref); ok {
				if n, ok := f.Resolve(r).(Int); !ok || int(n) != len(x.Raw) {
					f.problem("stream-length", "%s: indirect Length %v, the stream has %d bytes", where, f.Resolve(r), len(x.Raw))
				}
			}
		}
	}
	for num, o := range f.Objects {
		walk(o, fmt.Sprintf("object %d", num))
	}
	walk(f.Trailer, "trailer")
}

// Decode applies the filters of a stream.
func (f *File) Decode(s *Stream) ([]byte, error) {
	var filters []Name
	switch v := f.Resolve(s.Dict["Filter"]).(type) {
	case Name:
		filters = []Name{v}
	case Array:
		for _, e := range v {
			if n, ok := f.Resolve(e).(Name); ok {
				filters = append(filters, n)
			} else {
				return nil, fmt.Errorf("Filter array entry %v is not a name", e)
			}
		}
	case nil:
	default:
		return nil, fmt.Errorf("Filter %v is neither a name nor an array", v)
	}
	data := s.Raw
	for _, flt := range filters {
		switch flt {
		case "FlateDecode":
			zr, err := zlib.NewReader(bytes.NewReader(data))
			if err != nil {
				return nil, fmt.Errorf("FlateDecode: %v", err)
			}
			out, err := io.ReadAll(zr)
			if err != nil {
				return nil, fmt.Errorf("FlateDecode: %v", err)
			}
			data = out
		case "ASCII85Decode":
			src := bytes.TrimSpace(data)
			if !bytes.HasSuffix(src, []byte("~>")) {
				return nil, fmt.Errorf("ASCII85Decode: no ~> end marker")
			}
			src = src[:len(src)-2]
			out, err := io.ReadAll(ascii85.NewDecoder(bytes.NewReader(src)))
			if err != nil {
				return nil, fmt.Errorf("ASCII85Decode: %v", err)
			}
			data = out
		case "DCTDecode":
			if _, err := jpeg.DecodeConfig(bytes.NewReader(data)); err != nil {
				return nil, fmt.Errorf("DCTDecode: %v", err)
			}
			return data, nil // image data stays encoded
		default:
			return nil, fmt.Errorf("filter /%s is not supported by this reader", flt)
		}
	}
	return data, nil
}

// CheckStreams decodes every stream.
func (f *File) CheckStreams() {
	for num, o := range f.Objects {
		if s, ok := o.(*Stream); ok {
			if _, err := f.Decode(s); err != nil {
				f.problem("stream-filter", "object %d: %v", num, err)
			}
		}
	}
}

// Page is a leaf of the page tree with its inherited attributes.
type Page struct {
	Num       int
	Dict      Dict
	Resources Dict
	MediaBox  [4]float64
	Content   []byte
}

func Num(v any) (float64, bool) {
	switch x := v.(type) {
	case Int:
		return float64(x), true
	case Real:
		return float64(x), true
	}
	return 0, false
}

// Pages walks the page tree from the catalog.
func (f *File) Pages() []*Page {
	root, ok := f.Resolve(f.Trailer["Root"]).(Dict)
	if !ok {
		f.problem("catalog", "trailer Root does not resolve to a dictionary")
		return nil
	}
	if root["Type"] != Name("Catalog") {
		f.problem("catalog", "Root has Type %v", root["Type"])
	}
	pr, ok := root["Pages"].(Ref)
	if !ok {
		f.problem("catalog", "catalog Pages is not an indirect reference")
		return nil
	}
	var out []*Page
	seen := map[int]bool{}
	var walk func(r Ref, parent *Ref, inhRes Dict, inhBox any) int
	walk = func(r Ref, parent *Ref, inhRes Dict, inhBox any) int {
		if seen[r.Num] {
			f.problem("pagetree", "node %d occurs twice in the page tree", r.Num)
			return 0
		}
		seen[r.Num] = true
		d, ok := f.Resolve(r).(Dict)
		if !ok {
			f.problem("pagetree", "page tree node %d is not a dictionary", r.Num)
			return 0
		}
		if parent != nil {
			if p, ok := d["Parent"].(Ref); !ok || p != *parent {
				f.problem("pagetree", "node %d has Parent %v, it hangs under %d", r.Num, d["Parent"], parent.Num)
			}
		} else if _, has := d["Parent"]; has {
			f.problem("pagetree", "the root of the page tree has a Parent")
		}
		if res, ok := f.Resolve(d["Resources"]).(Dict); ok {
			inhRes = res
		}
		if box, ok := d["MediaBox"]; ok {
			inhBox = box
		}
		switch d["Type"] {
		case Name("Pages"):
			kids, ok := f.Resolve(d["Kids"]).(Array)
			if !ok {
				f.problem("pagetree", "node %d has no Kids array", r.Num)
				return 0
			}
			n := 0
			for _, k := range kids {
				kr, ok := k.(Ref)
				if !ok {
					f.problem("pagetree", "node %d: kid %v is not an indirect reference", r.Num, k)
					continue
				}
				n += walk(kr, &r, inhRes, inhBox)
			}
			if c, ok := d["Count"].(Int); !ok || int(c) != n {
				f.problem("pagetree", "node %d has Count %v, it has %d leaf pages below it", r.Num, d["Count"], n)
			}
			return n
		case Name("Page"):
			pg := &Page{Num: r.Num, Dict: d, Resources: inhRes}
			box, ok := f.Resolve(inhBox).(Array)
			if !ok || len(box) != 4 {
				f.problem("page", "page %d has no MediaBox of four numbers", r.Num)
			} else {
				for i := range box {
					v, ok := Num(f.Resolve(box[i]))
					if !ok || math.IsNaN(v) {
						f.problem("page", "page %d: MediaBox entry %v is not a number", r.Num, box[i])
					}
					pg.MediaBox[i] = v
				}
			}
			if inhRes == nil {
				f.problem("page", "page %d has no Resources", r.Num)
			}
			switch c := f.Resolve(d["Contents"]).(type) {
			case *Stream:
				b, err := f.Decode(c)
				if err == nil {
					pg.Content = b
				}
			case Array:
				for _, e := range c {
					if s, ok := f.Resolve(e).(*Stream); ok {
						b, err := f.Decode(s)
						if err == nil {
							pg.Content = append(append(pg.Content, b...), '\n')
						}
					} else {
						f.problem("page", "page %d: Contents entry %v is not a stream", r.Num, e)
					}
				}
			case nil:
			default:
				f.problem("page", "page %d: Contents is neither a stream nor an array", r.Num)
			}
			out = append(out, pg)
			return 1
		}
		f.problem("pagetree", "node %d has Type %v", r.Num, d["Type"])
		return 0
	}
	walk(pr, nil, nil, nil)
	return out
}

// ---- content streams -----------------------------------------------------------------------------

// Op is one operator with its operands.
type Op struct {
	Name     string
	Operands []any
}

// ParseContent tokenises a content stream into operators.
func ParseContent(b []byte) ([]Op, error) {
	l := &lexer{d: b}
	var ops []Op
	var operands []any
	for {
		l.skipWhite()
		if l.pos >= len(b) {
			break
		}
		t, ok := l.object()
		if !ok {
			return ops, fmt.Errorf("offset %d: %s", l.pos, l.err)
		}
		if kw, isK := t.(Keyword); isK {
			if kw == "BI" {
				// inline image: skip to EI
				e := bytes.Index(b[l.pos:], []byte("EI"))
				if e < 0 {
					return ops, fmt.Errorf("inline image without EI")
				}
				l.pos += e + 2
				ops = append(ops, Op{Name: "BI"})
				operands = nil
				continue
			}
			ops = append(ops, Op{Name: string(kw), Operands: operands})
			operands = nil
			continue
		}
		operands = append(operands, t)
	}
	if len(operands) > 0 {
		return ops, fmt.Errorf("%d operands without an operator at the end", len(operands))
	}
	return ops, nil
}

// operand counts of the operators of ISO 32000-1 Annex A (-1: variable)
var operatorArity = map[string]int{
	"b": 0, "B": 0, "b*": 0, "B*": 0, "BDC": 2, "BMC": 1, "BT": 0, "BX": 0, "c": 6, "cm": 6, "CS": 1, "cs": 1,
	"d": 2, "d0": 2, "d1": 6, "Do": 1, "DP": 2, "EMC": 0, "ET": 0, "EX": 0, "f": 0, "F": 0, "f*": 0, "G": 1, "g": 1,
	"gs": 1, "h": 0, "i": 1, "j": 1, "J": 1, "K": 4, "k": 4, "l": 2, "m": 2, "M": 1, "MP": 1, "n": 0, "q": 0, "Q": 0,
	"re": 4, "RG": 3, "rg": 3, "ri": 1, "s": 0, "S": 0, "SC": -1, "sc": -1, "SCN": -1, "scn": -1, "sh": 1, "T*": 0,
	"Tc": 1, "Td": 2, "TD": 2, "Tf": 2, "Tj": 1, "TJ": 1, "TL": 1, "Tm": 6, "Tr": 1, "Ts": 1, "Tw": 1, "Tz": 1,
	"v": 4, "w": 1, "W": 0, "W*": 0, "y": 4, "'": 1, "\"": 3, "BI": 0,
}

// CheckContent verifies operators, operand counts, q/Q and BT/ET balance and that every resource
// name used is defined in the page's resources.
func (f *File) CheckContent(pg *Page) []Op {
	ops, err := ParseContent(pg.Content)
	if err != nil {
		f.problem("content-syntax", "page %d: %v", pg.Num, err)
		return ops
	}
	depth, inText := 0, false
	res := func(cat Name) Dict {
		if pg.Resources == nil {
			return nil
		}
		d, _ := f.Resolve(pg.Resources[cat]).(Dict)
		return d
	}
	need := func(cat Name, nm any, op string) {
		n, ok := nm.(Name)
		if !ok {
			f.problem("content-operand", "page %d: operand of %s is %v, expected a name", pg.Num, op, nm)
			return
		}
		if d := res(cat); d == nil || d[n] == nil {
			f.problem("resource", "page %d: %s uses /%s, which is not defined in the page's %s resources", pg.Num, op, n, cat)
		}
	}
	for i, op := range ops {
		ar, known := operatorArity[op.Name]
		if !known {
			f.problem("content-operator", "page %d: unknown operator %q (operation %d)", pg.Num, op.Name, i)
			continue
		}
		if ar >= 0 && len(op.Operands) != ar {
			f.problem("content-operand", "page %d: operator %s has %d operands, expected %d (operation %d)", pg.Num, op.Name, len(op.Operands), ar, i)
			continue
		}
		for _, o := range op.Operands {
			if r, ok := o.(Real); ok && (math.IsNaN(float64(r)) || math.IsInf(float64(r), 0)) {
				f.problem("content-operand", "page %d: non-finite operand of %s", pg.Num, op.Name)
			}
			if k, ok := o.(Keyword); ok {
				f.problem("content-operand", "page %d: operand %q of %s is not an object (NaN/Inf or a misspelt operator?)", pg.Num, string(k), op.Name)
			}
		}
		switch op.Name {
		case "q":
			depth++
		case "Q":
			depth--
			if depth < 0 {
				f.problem("balance", "page %d: Q without a matching q (operation %d)", pg.Num, i)
				depth = 0
			}
		case "BT":
			if inText {
				f.problem("balance", "page %d: BT inside a text object (operation %d)", pg.Num, i)
			}
			inText = true
		case "ET":
			if !inText {
				f.problem("balance", "page %d: ET without BT (operation %d)", pg.Num, i)
			}
			inText = false
		case "Tj", "TJ", "'", "\"", "Td", "TD", "Tm", "T*":
			if !inText {
				f.problem("balance", "page %d: text operator %s outside a text object (operation %d)", pg.Num, op.Name, i)
			}
		case "Tf":
			need("Font", op.Operands[0], "Tf")
		case "Do":
			need("XObject", op.Operands[0], "Do")
		case "gs":
			need("ExtGState", op.Operands[0], "gs")
		case "sh":
			need("Shading", op.Operands[0], "sh")
		case "cs", "CS":
			if n, ok := op.Operands[0].(Name); ok {
				switch n {
				case "DeviceGray", "DeviceRGB", "DeviceCMYK", "Pattern":
				default:
					need("ColorSpace", n, op.Name)
				}
			}
		case "scn", "SCN":
			if len(op.Operands) > 0 {
				if n, ok := op.Operands[len(op.Operands)-1].(Name); ok {
					need("Pattern", n, op.Name)
				}
			}
		}
	}
	if depth != 0 {
		f.problem("balance", "page %d: %d q without Q at the end of the page", pg.Num, depth)
	}
	if inText {
		f.problem("balance", "page %d: text object not closed at the end of the page", pg.Num)
	}
	return ops
}

// TextString decodes a PDF text string: UTF-16BE with byte order mark, otherwise the bytes are
// returned as they are (PDFDocEncoding agrees with ASCII on the printable range).
func TextString(s String) string {
	if len(s) >= 2 && s[0] == 0xFE && s[1] == 0xFF {
		u := make([]uint16, 0, len(s)/2)
		for i := 2; i+1 < len(s); i += 2 {
			u = append(u, uint16(s[i])<<8|uint16(s[i+1]))
		}
		return string(utf16.Decode(u))
	}
	return string(s)
}
