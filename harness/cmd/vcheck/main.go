// vcheck runs one property monitor (driver and worker in one binary).
package main

import (
	"verif/core"
	_ "verif/mon"
)

func main() { core.Main() }
