// Package geom is the reference geometry of the monitors. It is written from the definitions
// (de Casteljau, SVG implementation notes F.6.5 for arcs, winding number by signed half-open ray
// crossings, shoelace area, Hausdorff distance on dense samples) and shares no code with canvas.
package geom

import (
	"fmt"
	"math"
	"math/big"
)

type Pt struct{ X, Y float64 }

func (a Pt) Add(b Pt) Pt        { return Pt{a.X + b.X, a.Y + b.Y} }
func (a Pt) Sub(b Pt) Pt        { return Pt{a.X - b.X, a.Y - b.Y} }
func (a Pt) Mul(f float64) Pt   { return Pt{a.X * f, a.Y * f} }
func (a Pt) Dot(b Pt) float64   { return a.X*b.X + a.Y*b.Y }
func (a Pt) Cross(b Pt) float64 { return a.X*b.Y - a.Y*b.X }
func (a Pt) Len() float64       { return math.Hypot(a.X, a.Y) }
func (a Pt) Dist(b Pt) float64  { return math.Hypot(a.X-b.X, a.Y-b.Y) }
func (a Pt) Lerp(b Pt, t float64) Pt {
	return Pt{a.X + (b.X-a.X)*t, a.Y + (b.Y-a.Y)*t}
}
func (a Pt) Finite() bool {
	return !math.IsNaN(a.X) && !math.IsInf(a.X, 0) && !math.IsNaN(a.Y) && !math.IsInf(a.Y, 0)
}
func (a Pt) String() string { return fmt.Sprintf("(%.10g,%.10g)", a.X, a.Y) }

// Segment kinds.
const (
	Line = iota
	Quad
	Cube
	Arc
)

// Seg is one drawing segment from P0 to P3.
type Seg struct {
	Kind   int
	P0, P3 Pt
	C1, C2 Pt // control points (Quad uses C1)
	// Arc in end-point parametrisation (radians), as stored by canvas / written in SVG.
	Rx, Ry, Phi  float64
	Large, Sweep bool
	// centre parametrisation, filled by arcCenter()
	haveC            bool
	cx, cy, th0, dth float64
	rx, ry           float64 // possibly scaled-up radii
	FromClose        bool    // segment is the closing line of a Close command
}

// Sub is a sub-path.
type Sub struct {
	Start  Pt
	Segs   []Seg
	Closed bool
}

// End returns the last point of the sub-path.
func (s *Sub) End() Pt {
	if len(s.Segs) == 0 {
		return s.Start
	}
	return s.Segs[len(s.Segs)-1].P3
}

// Path data command words of canvas (the encoding is part of the public Data() contract).
const (
	cmdMove  = 1.0
	cmdLine  = 2.0
	cmdQuad  = 4.0
	cmdCube  = 8.0
	cmdArc   = 16.0
	cmdClose = 32.0
)

func recLen(cmd float64) int {
	switch cmd {
	case cmdMove, cmdLine, cmdClose:
		return 4
	case cmdQuad:
		return 6
	case cmdCube, cmdArc:
		return 8
	}
	return 0
}

// Decode decodes Path.Data() into sub-paths. It is lenient (it reports but tolerates data the strict
// validator of C10 rejects) so that it can be used on any library output.
func Decode(d []float64) ([]Sub, error) {
	var subs []Sub
	var cur *Sub
	var pos, start Pt
	i := 0
	for i < len(d) {
		cmd := d[i]
		n := recLen(cmd)
		if n == 0 {
			return subs, fmt.Errorf("bad command word %v at %d", cmd, i)
		}
		if i+n > len(d) {
			return subs, fmt.Errorf("truncated record at %d", i)
		}
		if d[i+n-1] != cmd {
			return subs, fmt.Errorf("record at %d: trailing command word %v != %v", i, d[i+n-1], cmd)
		}
		end := Pt{d[i+n-3], d[i+n-2]}
		if cmd == cmdMove {
			subs = append(subs, Sub{Start: end})
			cur = &subs[len(subs)-1]
			pos, start = end, end
			i += n
			continue
		}
		if cur == nil || cur.Closed {
			// implicit MoveTo at the current position (canvas never emits this; be lenient)
			subs = append(subs, Sub{Start: pos})
			cur = &subs[len(subs)-1]
			start = pos
		}
		switch cmd {
		case cmdLine:
			cur.Segs = append(cur.Segs, Seg{Kind: Line, P0: pos, P3: end})
		case cmdQuad:
			cur.Segs = append(cur.Segs, Seg{Kind: Quad, P0: pos, C1: Pt{d[i+1], d[i+2]}, P3: end})
		case cmdCube:
			cur.Segs = append(cur.Segs, Seg{Kind: Cube, P0: pos, C1: Pt{d[i+1], d[i+2]}, C2: Pt{d[i+3], d[i+4]}, P3: end})
		case cmdArc:
			f := d[i+4]
			cur.Segs = append(cur.Segs, Seg{Kind: Arc, P0: pos, Rx: d[i+1], Ry: d[i+2], Phi: d[i+3], Large: f == 1 || f == 3, Sweep: f == 2 || f == 3, P3: end})
		case cmdClose:
			if pos != end {
				cur.Segs = append(cur.Segs, Seg{Kind: Line, P0: pos, P3: end, FromClose: true})
			}
			cur.Closed = true
			_ = start
		}
		pos = end
		i += n
	}
	return subs, nil
}

// arcCenter converts to the centre parametrisation following SVG 1.1 F.6.5/F.6.6.
func (s *Seg) arcCenter() {
	if s.haveC {
		return
	}
	s.haveC = true
	rx, ry := math.Abs(s.Rx), math.Abs(s.Ry)
	cosp, sinp := math.Cos(s.Phi), math.Sin(s.Phi)
	dx2, dy2 := (s.P0.X-s.P3.X)/2, (s.P0.Y-s.P3.Y)/2
	x1p := cosp*dx2 + sinp*dy2
	y1p := -sinp*dx2 + cosp*dy2
	lam := x1p*x1p/(rx*rx) + y1p*y1p/(ry*ry)
	if lam > 1 {
		sq := math.Sqrt(lam)
		rx *= sq
		ry *= sq
	}
	num := rx*rx*ry*ry - rx*rx*y1p*y1p - ry*ry*x1p*x1p
	den := rx*rx*y1p*y1p + ry*ry*x1p*x1p
	co := 0.0
	if den != 0 && num > 0 {
		co = math.Sqrt(num / den)
	}
	if s.Large == s.Sweep {
		co = -co
	}
	cxp := co * rx * y1p / ry
	cyp := -co * ry * x1p / rx
	s.cx = cosp*cxp - sinp*cyp + (s.P0.X+s.P3.X)/2
	s.cy = sinp*cxp + cosp*cyp + (s.P0.Y+s.P3.Y)/2
	ux, uy := (x1p-cxp)/rx, (y1p-cyp)/ry
	vx, vy := (-x1p-cxp)/rx, (-y1p-cyp)/ry
	s.th0 = math.Atan2(uy, ux)
	d := math.Atan2(ux*vy-uy*vx, ux*vx+uy*vy)
	if !s.Sweep && d > 0 {
		d -= 2 * math.Pi
	} else if s.Sweep && d < 0 {
		d += 2 * math.Pi
	}
	// a half turn is ambiguous in atan2's sign: fix by the sweep flag
	s.dth = d
	s.rx, s.ry = rx, ry
}

// ArcCenter exposes the centre parametrisation: centre, start angle, signed extent, effective radii.
func (s *Seg) ArcCenter() (c Pt, th0, dth, rx, ry float64) {
	s.arcCenter()
	return Pt{s.cx, s.cy}, s.th0, s.dth, s.rx, s.ry
}

// At evaluates the segment at parameter t in [0,1].
func (s *Seg) At(t float64) Pt {
	switch s.Kind {
	case Line:
		return s.P0.Lerp(s.P3, t)
	case Quad:
		a := s.P0.Lerp(s.C1, t)
		b := s.C1.Lerp(s.P3, t)
		return a.Lerp(b, t)
	case Cube:
		a := s.P0.Lerp(s.C1, t)
		b := s.C1.Lerp(s.C2, t)
		c := s.C2.Lerp(s.P3, t)
		d := a.Lerp(b, t)
		e := b.Lerp(c, t)
		return d.Lerp(e, t)
	case Arc:
		if t <= 0 {
			return s.P0
		} else if t >= 1 {
			return s.P3
		}
		s.arcCenter()
		th := s.th0 + s.dth*t
		cosp, sinp := math.Cos(s.Phi), math.Sin(s.Phi)
		x, y := s.rx*math.Cos(th), s.ry*math.Sin(th)
		return Pt{s.cx + cosp*x - sinp*y, s.cy + sinp*x + cosp*y}
	}
	return s.P0
}

// Vertex of a flattened polyline with its origin.
type Vertex struct {
	P   Pt
	Seg int     // index of the source segment in the sub-path
	T   float64 // parameter on that segment
}

// Poly is a flattened sub-path; if Closed (or implicitly closed by the caller) the last point
// equals the first.
type Poly struct {
	V      []Vertex
	Closed bool
}

func (p *Poly) Pts() []Pt {
	out := make([]Pt, len(p.V))
	for i, v := range p.V {
		out[i] = v.P
	}
	return out
}

// secondDerivBound bounds |P”(t)| over the segment (parameter t in [0,1]).
func (s *Seg) secondDerivBound() float64 {
	switch s.Kind {
	case Quad:
		return 2 * s.P0.Sub(s.C1.Mul(2)).Add(s.P3).Len()
	case Cube:
		a := s.P0.Sub(s.C1.Mul(2)).Add(s.C2).Len()
		b := s.C1.Sub(s.C2.Mul(2)).Add(s.P3).Len()
		return 6 * math.Max(a, b)
	case Arc:
		s.arcCenter()
		return math.Max(s.rx, s.ry) * s.dth * s.dth
	}
	return 0
}

// FlattenSub approximates a sub-path by a polyline whose deviation from the curve is provably below
// eps: every curved segment is cut into n equal parameter steps with n^2 >= max|P”|/(8 eps) (the
// classical chord error bound h^2/8*max|P”|), at least 8 and at most 2^17 pieces. No adaptive
// flatness test is used: sampled tests miss the tips of hairpin curves.
func FlattenSub(s *Sub, eps float64) Poly {
	poly := Poly{Closed: s.Closed}
	poly.V = append(poly.V, Vertex{s.Start, 0, 0})
	for i := range s.Segs {
		sg := &s.Segs[i]
		if sg.Kind == Line {
			poly.V = append(poly.V, Vertex{sg.P3, i, 1})
			continue
		}
		n := 8
		if b := sg.secondDerivBound(); b > 0 && eps > 0 {
			if m := math.Ceil(math.Sqrt(b / (8 * eps))); m > float64(n) {
				if m > 1<<17 {
					m = 1 << 17
				}
				n = int(m)
			}
		}
		for k := 1; k < n; k++ {
			t := float64(k) / float64(n)
			poly.V = append(poly.V, Vertex{sg.At(t), i, t})
		}
		poly.V = append(poly.V, Vertex{sg.P3, i, 1})
	}
	return poly
}

// Flatten flattens all sub-paths. If closeOpen is set, open sub-paths get a closing edge.
func Flatten(subs []Sub, eps float64, closeOpen bool) []Poly {
	out := make([]Poly, 0, len(subs))
	for i := range subs {
		p := FlattenSub(&subs[i], eps)
		if closeOpen && len(p.V) > 0 && p.V[len(p.V)-1].P != p.V[0].P {
			p.V = append(p.V, Vertex{p.V[0].P, len(subs[i].Segs), 0})
		}
		if closeOpen {
			p.Closed = true
		}
		out = append(out, p)
	}
	return out
}

// DistPtSeg is the distance from p to segment ab.
func DistPtSeg(p, a, b Pt) float64 {
	ab := b.Sub(a)
	l2 := ab.Dot(ab)
	if l2 == 0 {
		return p.Dist(a)
	}
	t := p.Sub(a).Dot(ab) / l2
	if t <= 0 {
		return p.Dist(a)
	} else if t >= 1 {
		return p.Dist(b)
	}
	return p.Dist(a.Add(ab.Mul(t)))
}

// DistPtPolys is the distance from p to the nearest edge of any polyline.
func DistPtPolys(p Pt, polys []Poly) float64 {
	best := math.Inf(1)
	for i := range polys {
		v := polys[i].V
		if len(v) == 1 {
			best = math.Min(best, p.Dist(v[0].P))
		}
		for j := 0; j+1 < len(v); j++ {
			a, b := v[j].P, v[j+1].P
			// cheap reject
			if best < math.Inf(1) {
				if (p.X < math.Min(a.X, b.X)-best) || (p.X > math.Max(a.X, b.X)+best) || (p.Y < math.Min(a.Y, b.Y)-best) || (p.Y > math.Max(a.Y, b.Y)+best) {
					continue
				}
			}
			if d := DistPtSeg(p, a, b); d < best {
				best = d
			}
		}
	}
	return best
}

// Orient returns the sign of the orientation of (a,b,c): +1 counter-clockwise, -1 clockwise,
// 0 collinear; exact (falls back to rational arithmetic when the float result is not certain).
func Orient(a, b, c Pt) int {
	l := (a.X - c.X) * (b.Y - c.Y)
	r := (a.Y - c.Y) * (b.X - c.X)
	det := l - r
	bound := 3.3306690738754716e-16 * (math.Abs(l) + math.Abs(r))
	if det > bound {
		return 1
	} else if det < -bound {
		return -1
	}
	if !a.Finite() || !b.Finite() || !c.Finite() {
		return 0
	}
	ax, ay := new(big.Rat).SetFloat64(a.X), new(big.Rat).SetFloat64(a.Y)
	bx, by := new(big.Rat).SetFloat64(b.X), new(big.Rat).SetFloat64(b.Y)
	cx, cy := new(big.Rat).SetFloat64(c.X), new(big.Rat).SetFloat64(c.Y)
	t1 := new(big.Rat).Mul(new(big.Rat).Sub(ax, cx), new(big.Rat).Sub(by, cy))
	t2 := new(big.Rat).Mul(new(big.Rat).Sub(ay, cy), new(big.Rat).Sub(bx, cx))
	return t1.Cmp(t2)
}

// Winding is the winding number of the closed polylines around p (sub-paths that do not end on
// their start are closed by a straight edge). p must not lie on a polyline for the result to be
// meaningful; the half-open rule makes it well defined anyway.
func Winding(p Pt, polys []Poly) int {
	w := 0
	for i := range polys {
		v := polys[i].V
		n := len(v)
		if n < 2 {
			continue
		}
		edge := func(a, b Pt) {
			if a.Y <= p.Y {
				if b.Y > p.Y && Orient(a, b, p) > 0 {
					w++
				}
			} else if b.Y <= p.Y && Orient(a, b, p) < 0 {
				w--
			}
		}
		for j := 0; j+1 < n; j++ {
			edge(v[j].P, v[j+1].P)
		}
		if v[n-1].P != v[0].P {
			edge(v[n-1].P, v[0].P)
		}
	}
	return w
}

// Area is the signed shoelace area of a polyline closed implicitly.
func Area(pts []Pt) float64 {
	a := 0.0
	n := len(pts)
	for i := 0; i < n; i++ {
		p, q := pts[i], pts[(i+1)%n]
		a += p.X*q.Y - q.X*p.Y
	}
	return a / 2
}

// AreaPolys is the sum of signed areas.
func AreaPolys(polys []Poly) float64 {
	a := 0.0
	for i := range polys {
		a += Area(polys[i].Pts())
	}
	return a
}

// Length of a polyline.
func Length(pts []Pt) float64 {
	l := 0.0
	for i := 0; i+1 < len(pts); i++ {
		l += pts[i].Dist(pts[i+1])
	}
	return l
}

func LengthPolys(polys []Poly) float64 {
	l := 0.0
	for i := range polys {
		l += Length(polys[i].Pts())
	}
	return l
}

// ProperCross reports whether open segments ab and cd cross in a single interior point of both.
func ProperCross(a, b, c, d Pt) bool {
	o1, o2 := Orient(a, b, c), Orient(a, b, d)
	o3, o4 := Orient(c, d, a), Orient(c, d, b)
	return o1*o2 < 0 && o3*o4 < 0
}

// Bounds of points.
type Box struct{ X0, Y0, X1, Y1 float64 }

func EmptyBox() Box { return Box{math.Inf(1), math.Inf(1), math.Inf(-1), math.Inf(-1)} }
func (b Box) Add(p Pt) Box {
	return Box{math.Min(b.X0, p.X), math.Min(b.Y0, p.Y), math.Max(b.X1, p.X), math.Max(b.Y1, p.Y)}
}
func (b Box) Union(c Box) Box {
	return Box{math.Min(b.X0, c.X0), math.Min(b.Y0, c.Y0), math.Max(b.X1, c.X1), math.Max(b.Y1, c.Y1)}
}
func (b Box) W() float64    { return b.X1 - b.X0 }
func (b Box) H() float64    { return b.Y1 - b.Y0 }
func (b Box) Empty() bool   { return b.X1 < b.X0 || b.Y1 < b.Y0 }
func (b Box) Diag() float64 { return math.Hypot(b.W(), b.H()) }
func (b Box) Overlaps(c Box) bool {
	return b.X0 <= c.X1 && c.X0 <= b.X1 && b.Y0 <= c.Y1 && c.Y0 <= b.Y1
}

func BoxPolys(polys []Poly) Box {
	b := EmptyBox()
	for i := range polys {
		for _, v := range polys[i].V {
			b = b.Add(v.P)
		}
	}
	return b
}

// Scale returns a characteristic size (max |coordinate| extent) used for relative tolerances, >= 1e-300.
func (b Box) Scale() float64 {
	if b.Empty() {
		return 1
	}
	s := math.Max(math.Max(math.Abs(b.X0), math.Abs(b.X1)), math.Max(math.Abs(b.Y0), math.Abs(b.Y1)))
	s = math.Max(s, b.Diag())
	if s == 0 {
		return 1
	}
	return s
}

// DirectedHausdorff is max over the vertices and edge midpoints... of a of the distance to b,
// evaluated on the vertices of a (a must be dense).
func DirectedHausdorff(a, b []Poly) (float64, Pt) {
	worst := 0.0
	var at Pt
	for i := range a {
		for _, v := range a[i].V {
			if d := DistPtPolys(v.P, b); d > worst {
				worst, at = d, v.P
			}
		}
	}
	return worst, at
}

// ArcTable is a cumulative arc-length table along a flattened sub-path.
type ArcTable struct {
	V   []Vertex
	Cum []float64
}

func NewArcTable(p Poly) *ArcTable {
	t := &ArcTable{V: p.V, Cum: make([]float64, len(p.V))}
	for i := 1; i < len(p.V); i++ {
		t.Cum[i] = t.Cum[i-1] + p.V[i-1].P.Dist(p.V[i].P)
	}
	return t
}
func (t *ArcTable) Total() float64 {
	if len(t.Cum) == 0 {
		return 0
	}
	return t.Cum[len(t.Cum)-1]
}

// PosAt returns the point at arc length s.
func (t *ArcTable) PosAt(s float64) Pt {
	if len(t.V) == 0 {
		return Pt{}
	}
	if s <= 0 {
		return t.V[0].P
	}
	if s >= t.Total() {
		return t.V[len(t.V)-1].P
	}
	lo, hi := 0, len(t.Cum)-1
	for hi-lo > 1 {
		m := (lo + hi) / 2
		if t.Cum[m] <= s {
			lo = m
		} else {
			hi = m
		}
	}
	f := (s - t.Cum[lo]) / (t.Cum[hi] - t.Cum[lo])
	return t.V[lo].P.Lerp(t.V[hi].P, f)
}

// Project returns the arc length of the closest point of the table's polyline to p, restricted to
// arc lengths in [sLo,sHi], and the distance.
func (t *ArcTable) Project(p Pt, sLo, sHi float64) (s, dist float64) {
	dist = math.Inf(1)
	for j := 0; j+1 < len(t.V); j++ {
		if t.Cum[j+1] < sLo || t.Cum[j] > sHi {
			continue
		}
		a, b := t.V[j].P, t.V[j+1].P
		ab := b.Sub(a)
		l2 := ab.Dot(ab)
		u := 0.0
		if l2 > 0 {
			u = math.Max(0, math.Min(1, p.Sub(a).Dot(ab)/l2))
		}
		sj := t.Cum[j] + u*math.Sqrt(l2)
		if sj < sLo {
			sj = sLo
		} else if sj > sHi {
			sj = sHi
		}
		q := t.PosAt(sj)
		if d := p.Dist(q); d < dist {
			dist, s = d, sj
		}
	}
	return
}

// Nearest returns the parameter in [t0,t1] of the point of the segment nearest to q and its
// distance. Lines are solved in closed form; curves by 128 samples followed by golden-section
// refinement of the four best local minima (accuracy about 1e-12 of the segment size).
func (s *Seg) Nearest(q Pt, t0, t1 float64) (float64, float64) {
	if t1 < t0 {
		t0, t1 = t1, t0
	}
	if s.Kind == Line {
		ab := s.P3.Sub(s.P0)
		l2 := ab.Dot(ab)
		t := 0.0
		if l2 > 0 {
			t = q.Sub(s.P0).Dot(ab) / l2
		}
		t = math.Max(t0, math.Min(t1, t))
		return t, q.Dist(s.At(t))
	}
	const N = 128
	var d [N + 1]float64
	for i := 0; i <= N; i++ {
		d[i] = q.Dist(s.At(t0 + (t1-t0)*float64(i)/N))
	}
	type cand struct {
		i int
		d float64
	}
	var cs []cand
	for i := 0; i <= N; i++ {
		if (i == 0 || d[i] <= d[i-1]) && (i == N || d[i] <= d[i+1]) {
			cs = append(cs, cand{i, d[i]})
		}
	}
	// keep the three smallest
	for a := 0; a < len(cs); a++ {
		for b := a + 1; b < len(cs); b++ {
			if cs[b].d < cs[a].d {
				cs[a], cs[b] = cs[b], cs[a]
			}
		}
	}
	if len(cs) > 4 {
		cs = cs[:4]
	}
	bestT, bestD := t0, math.Inf(1)
	const phi = 0.6180339887498949
	for _, c := range cs {
		lo := t0 + (t1-t0)*float64(maxInt(c.i-1, 0))/N
		hi := t0 + (t1-t0)*float64(minInt(c.i+1, N))/N
		a, b := lo, hi
		x1, x2 := b-phi*(b-a), a+phi*(b-a)
		f1, f2 := q.Dist(s.At(x1)), q.Dist(s.At(x2))
		for it := 0; it < 60 && b-a > 1e-15; it++ {
			if f1 < f2 {
				b, x2, f2 = x2, x1, f1
				x1 = b - phi*(b-a)
				f1 = q.Dist(s.At(x1))
			} else {
				a, x1, f1 = x1, x2, f2
				x2 = a + phi*(b-a)
				f2 = q.Dist(s.At(x2))
			}
		}
		t := (a + b) / 2
		for _, tt := range []float64{t, lo, hi} {
			if dd := q.Dist(s.At(tt)); dd < bestD {
				bestT, bestD = tt, dd
			}
		}
	}
	return bestT, bestD
}

func maxInt(a, b int) int {
	if a > b {
		return a
	}
	return b
}
func minInt(a, b int) int {
	if a < b {
		return a
	}
	return b
}

// Pos identifies a point of a sub-path by segment index and parameter.
type Pos struct {
	Seg int
	T   float64
}

func (a Pos) Less(b Pos) bool { return a.Seg < b.Seg || (a.Seg == b.Seg && a.T < b.T) }

// NearestOnSub returns the point of the sub-path at or after position from that is nearest to q.
func NearestOnSub(sub *Sub, q Pt, from Pos) (Pos, float64) {
	best, bestD := from, math.Inf(1)
	if len(sub.Segs) == 0 {
		return Pos{}, q.Dist(sub.Start)
	}
	for i := from.Seg; i < len(sub.Segs); i++ {
		t0 := 0.0
		if i == from.Seg {
			t0 = from.T
		}
		t, d := sub.Segs[i].Nearest(q, t0, 1)
		if d < bestD {
			best, bestD = Pos{i, t}, d
		}
	}
	return best, bestD
}

// DistToSubs is the distance from q to the nearest point of any sub-path (exact curves).
func DistToSubs(q Pt, subs []Sub) float64 {
	best := math.Inf(1)
	for si := range subs {
		if len(subs[si].Segs) == 0 {
			best = math.Min(best, q.Dist(subs[si].Start))
		}
		for i := range subs[si].Segs {
			if _, d := subs[si].Segs[i].Nearest(q, 0, 1); d < best {
				best = d
			}
		}
	}
	return best
}

// SampleSubs returns n+1 points per segment (parameter-uniform) of all sub-paths.
func SampleSubs(subs []Sub, n int) []Pt {
	var out []Pt
	for si := range subs {
		out = append(out, subs[si].Start)
		for i := range subs[si].Segs {
			sg := &subs[si].Segs[i]
			m := n
			if sg.Kind == Line {
				m = 2
			}
			for k := 1; k <= m; k++ {
				out = append(out, sg.At(float64(k)/float64(m)))
			}
		}
	}
	return out
}

// HausdorffSubs is the directed Hausdorff distance from samples of a (n per segment) to the exact
// curves of b.
func HausdorffSubs(a, b []Sub, n int) (float64, Pt) {
	worst := 0.0
	var at Pt
	for _, q := range SampleSubs(a, n) {
		if d := DistToSubs(q, b); d > worst {
			worst, at = d, q
		}
	}
	return worst, at
}

// NearestOnSubs returns the nearest point of any sub-path to q: sub-path index, position, distance.
func NearestOnSubs(q Pt, subs []Sub) (si int, pos Pos, d float64) {
	d = math.Inf(1)
	for i := range subs {
		if len(subs[i].Segs) == 0 {
			if dd := q.Dist(subs[i].Start); dd < d {
				si, pos, d = i, Pos{}, dd
			}
			continue
		}
		for k := range subs[i].Segs {
			if t, dd := subs[i].Segs[k].Nearest(q, 0, 1); dd < d {
				si, pos, d = i, Pos{k, t}, dd
			}
		}
	}
	return
}

// Deriv returns an (unnormalised) tangent direction of the segment at parameter t by central
// differences of At (sufficient for classifying sides).
func (s *Seg) Deriv(t float64) Pt {
	h := 1e-6
	a, b := math.Max(0, t-h), math.Min(1, t+h)
	return s.At(b).Sub(s.At(a)).Mul(1 / (b - a))
}
