// Package refsyn holds the reference readers of the three textual path syntaxes canvas emits:
// SVG path data (SVG 1.1 §8.3 grammar incl. relative commands, shorthands, implicit repetition and
// packed arc flags), PDF content-stream path operators (PDF 32000-1 §8.5.2) and the PostScript
// subset emitted by Path.ToPS together with the ellipse/ellipsen procedures of the PS renderer
// (Red Book arc/arcn semantics). They share no code with canvas.
package refsyn

import (
	"fmt"
	"math"
	"strconv"
	"strings"

	"verif/geom"
)

type Pt = geom.Pt

// ---- builder of reference sub-paths --------------------------------------------------------------

type builder struct {
	subs  []geom.Sub
	cur   Pt
	start Pt
	open  bool
}

func (b *builder) moveTo(p Pt) { b.cur, b.start, b.open = p, p, false }
func (b *builder) begin() {
	if !b.open {
		b.subs = append(b.subs, geom.Sub{Start: b.cur})
		b.open = true
		b.start = b.cur
	}
}
func (b *builder) add(sg geom.Seg) {
	b.begin()
	sg.P0 = b.cur
	s := &b.subs[len(b.subs)-1]
	s.Segs = append(s.Segs, sg)
	b.cur = sg.P3
}
func (b *builder) closePath() {
	if !b.open {
		return
	}
	s := &b.subs[len(b.subs)-1]
	if b.cur != b.start {
		s.Segs = append(s.Segs, geom.Seg{Kind: geom.Line, P0: b.cur, P3: b.start, FromClose: true})
	}
	s.Closed = true
	b.cur = b.start
	b.open = false
}

// ---- SVG path data -------------------------------------------------------------------------------

type svgLexer struct {
	s string
	i int
}

func (l *svgLexer) skipWsComma() {
	for l.i < len(l.s) {
		switch l.s[l.i] {
		case ' ', '\t', '\n', '\r', '\f', ',':
			l.i++
		default:
			return
		}
	}
}

// number reads an SVG number (sign, digits, fraction, exponent).
func (l *svgLexer) number() (float64, error) {
	l.skipWsComma()
	st := l.i
	if l.i < len(l.s) && (l.s[l.i] == '+' || l.s[l.i] == '-') {
		l.i++
	}
	digits := 0
	for l.i < len(l.s) && l.s[l.i] >= '0' && l.s[l.i] <= '9' {
		l.i++
		digits++
	}
	if l.i < len(l.s) && l.s[l.i] == '.' {
		l.i++
		for l.i < len(l.s) && l.s[l.i] >= '0' && l.s[l.i] <= '9' {
			l.i++
			digits++
		}
	}
	if digits == 0 {
		return 0, fmt.Errorf("number expected at %d", st)
	}
	if l.i < len(l.s) && (l.s[l.i] == 'e' || l.s[l.i] == 'E') {
		j := l.i + 1
		if j < len(l.s) && (l.s[j] == '+' || l.s[j] == '-') {
			j++
		}
		if j < len(l.s) && l.s[j] >= '0' && l.s[j] <= '9' {
			for j < len(l.s) && l.s[j] >= '0' && l.s[j] <= '9' {
				j++
			}
			l.i = j
		}
	}
	return strconv.ParseFloat(l.s[st:l.i], 64)
}

// flag reads a single 0 or 1 (arc flags may be packed without separators).
func (l *svgLexer) flag() (bool, error) {
	l.skipWsComma()
	if l.i < len(l.s) && (l.s[l.i] == '0' || l.s[l.i] == '1') {
		l.i++
		return l.s[l.i-1] == '1', nil
	}
	return false, fmt.Errorf("flag expected at %d", l.i)
}

func (l *svgLexer) moreNumbers() bool {
	l.skipWsComma()
	if l.i >= len(l.s) {
		return false
	}
	c := l.s[l.i]
	return c == '+' || c == '-' || c == '.' || (c >= '0' && c <= '9')
}

// ParseSVGPath interprets SVG path data in the coordinate frame it is written in.
func ParseSVGPath(s string) ([]geom.Sub, error) {
	l := &svgLexer{s: s}
	b := &builder{}
	var lastCmd byte
	var lastCtrl Pt // reflected control point for S/T
	for {
		l.skipWsComma()
		if l.i >= len(l.s) {
			break
		}
		cmd := l.s[l.i]
		if !strings.ContainsRune("MmZzLlHhVvCcSsQqTtAa", rune(cmd)) {
			return b.subs, fmt.Errorf("unknown command %q at %d", cmd, l.i)
		}
		l.i++
		rel := cmd >= 'a'
		first := true
		for first || l.moreNumbers() {
			nums := func(n int) ([]float64, error) {
				out := make([]float64, n)
				for k := range out {
					v, err := l.number()
					if err != nil {
						return nil, err
					}
					out[k] = v
				}
				return out, nil
			}
			abs := func(x, y float64) Pt {
				if rel {
					return Pt{b.cur.X + x, b.cur.Y + y}
				}
				return Pt{x, y}
			}
			switch cmd {
			case 'M', 'm':
				v, err := nums(2)
				if err != nil {
					return b.subs, err
				}
				if first {
					b.moveTo(abs(v[0], v[1]))
				} else { // subsequent pairs are implicit lineto
					b.add(geom.Seg{Kind: geom.Line, P3: abs(v[0], v[1])})
				}
			case 'Z', 'z':
				b.closePath()
			case 'L', 'l':
				v, err := nums(2)
				if err != nil {
					return b.subs, err
				}
				b.add(geom.Seg{Kind: geom.Line, P3: abs(v[0], v[1])})
			case 'H', 'h':
				v, err := nums(1)
				if err != nil {
					return b.subs, err
				}
				x := v[0]
				if rel {
					x += b.cur.X
				}
				b.add(geom.Seg{Kind: geom.Line, P3: Pt{x, b.cur.Y}})
			case 'V', 'v':
				v, err := nums(1)
				if err != nil {
					return b.subs, err
				}
				y := v[0]
				if rel {
					y += b.cur.Y
				}
				b.add(geom.Seg{Kind: geom.Line, P3: Pt{b.cur.X, y}})
			case 'C', 'c':
				v, err := nums(6)
				if err != nil {
					return b.subs, err
				}
				c1, c2, e := abs(v[0], v[1]), abs(v[2], v[3]), abs(v[4], v[5])
				b.add(geom.Seg{Kind: geom.Cube, C1: c1, C2: c2, P3: e})
				lastCtrl = c2
			case 'S', 's':
				v, err := nums(4)
				if err != nil {
					return b.subs, err
				}
				c1 := b.cur
				if strings.ContainsRune("CcSs", rune(lastCmd)) {
					c1 = Pt{2*b.cur.X - lastCtrl.X, 2*b.cur.Y - lastCtrl.Y}
				}
				c2, e := abs(v[0], v[1]), abs(v[2], v[3])
				b.add(geom.Seg{Kind: geom.Cube, C1: c1, C2: c2, P3: e})
				lastCtrl = c2
			case 'Q', 'q':
				v, err := nums(4)
				if err != nil {
					return b.subs, err
				}
				c1, e := abs(v[0], v[1]), abs(v[2], v[3])
				b.add(geom.Seg{Kind: geom.Quad, C1: c1, P3: e})
				lastCtrl = c1
			case 'T', 't':
				v, err := nums(2)
				if err != nil {
					return b.subs, err
				}
				c1 := b.cur
				if strings.ContainsRune("QqTt", rune(lastCmd)) {
					c1 = Pt{2*b.cur.X - lastCtrl.X, 2*b.cur.Y - lastCtrl.Y}
				}
				e := abs(v[0], v[1])
				b.add(geom.Seg{Kind: geom.Quad, C1: c1, P3: e})
				lastCtrl = c1
			case 'A', 'a':
				v, err := nums(3)
				if err != nil {
					return b.subs, err
				}
				large, err := l.flag()
				if err != nil {
					return b.subs, err
				}
				sweep, err := l.flag()
				if err != nil {
					return b.subs, err
				}
				w, err := nums(2)
				if err != nil {
					return b.subs, err
				}
				e := abs(w[0], w[1])
				rx, ry := math.Abs(v[0]), math.Abs(v[1])
				if e == b.cur {
					// omitted per SVG F.6.2
				} else if rx == 0 || ry == 0 {
					b.add(geom.Seg{Kind: geom.Line, P3: e})
				} else {
					b.add(geom.Seg{Kind: geom.Arc, Rx: rx, Ry: ry, Phi: v[2] * math.Pi / 180, Large: large, Sweep: sweep, P3: e})
				}
			}
			lastCmd = cmd
			first = false
			if cmd == 'Z' || cmd == 'z' {
				break
			}
		}
	}
	return b.subs, nil
}

// ---- PDF content-stream path operators -----------------------------------------------------------

// ParsePDFPath interprets "x y m", "x y l", "x1 y1 x2 y2 x3 y3 c", "h" (and re, v, y for completeness).
func ParsePDFPath(s string) ([]geom.Sub, error) {
	b := &builder{}
	var st []float64
	for _, tok := range strings.Fields(s) {
		if v, err := strconv.ParseFloat(tok, 64); err == nil {
			st = append(st, v)
			continue
		}
		need := map[string]int{"m": 2, "l": 2, "c": 6, "v": 4, "y": 4, "h": 0, "re": 4}
		n, ok := need[tok]
		if !ok {
			return b.subs, fmt.Errorf("unknown PDF path operator %q", tok)
		}
		if len(st) != n {
			return b.subs, fmt.Errorf("operator %s with %d operands", tok, len(st))
		}
		switch tok {
		case "m":
			b.moveTo(Pt{st[0], st[1]})
		case "l":
			b.add(geom.Seg{Kind: geom.Line, P3: Pt{st[0], st[1]}})
		case "c":
			b.add(geom.Seg{Kind: geom.Cube, C1: Pt{st[0], st[1]}, C2: Pt{st[2], st[3]}, P3: Pt{st[4], st[5]}})
		case "v":
			b.add(geom.Seg{Kind: geom.Cube, C1: b.cur, C2: Pt{st[0], st[1]}, P3: Pt{st[2], st[3]}})
		case "y":
			b.add(geom.Seg{Kind: geom.Cube, C1: Pt{st[0], st[1]}, C2: Pt{st[2], st[3]}, P3: Pt{st[2], st[3]}})
		case "h":
			b.closePath()
		case "re":
			x, y, w, h := st[0], st[1], st[2], st[3]
			b.moveTo(Pt{x, y})
			b.add(geom.Seg{Kind: geom.Line, P3: Pt{x + w, y}})
			b.add(geom.Seg{Kind: geom.Line, P3: Pt{x + w, y + h}})
			b.add(geom.Seg{Kind: geom.Line, P3: Pt{x, y + h}})
			b.closePath()
		}
		st = st[:0]
	}
	if len(st) != 0 {
		return b.subs, fmt.Errorf("%d dangling operands", len(st))
	}
	return b.subs, nil
}

// ---- PostScript ----------------------------------------------------------------------------------

// PSArc is an elliptical arc given by centre parametrisation, as traced by the ellipse procedures.
type PSArc struct {
	C          Pt
	Rx, Ry     float64
	Rot        float64 // radians
	A0, A1     float64 // radians, A1 already adjusted for the direction
	Sub, Index int     // position in the sub-path list: the arc follows segment Index-1 of sub-path Sub
}

// At evaluates the arc at u in [0,1].
func (a PSArc) At(u float64) Pt {
	t := a.A0 + (a.A1-a.A0)*u
	x, y := a.Rx*math.Cos(t), a.Ry*math.Sin(t)
	c, s := math.Cos(a.Rot), math.Sin(a.Rot)
	return Pt{a.C.X + c*x - s*y, a.C.Y + s*x + c*y}
}

// PSItem is one traced piece in order: either a reference segment or an elliptical arc.
type PSItem struct {
	IsArc bool
	Seg   geom.Seg
	Arc   PSArc
}

// PSSub is a PostScript sub-path.
type PSSub struct {
	Start  Pt
	Items  []PSItem
	Closed bool
}

// ParsePS interprets moveto/lineto/curveto/closepath and the ellipse/ellipsen procedures:
//
//	cx cy rx ry a0 a1 rot ellipse  = translate, rotate, scale, "0 0 1 a0 a1 arc" (counter-clockwise,
//	a1 raised by multiples of 360 until >= a0; a straight line joins the current point to the start)
//	ellipsen uses arcn (clockwise, a1 lowered until <= a0).
func ParsePS(s string) ([]PSSub, error) {
	var subs []PSSub
	var cur, start Pt
	open := false
	have := false
	begin := func() {
		if !open {
			subs = append(subs, PSSub{Start: cur})
			open = true
			start = cur
		}
	}
	var st []float64
	for _, tok := range strings.Fields(s) {
		if v, err := strconv.ParseFloat(tok, 64); err == nil {
			st = append(st, v)
			continue
		}
		need := map[string]int{"moveto": 2, "lineto": 2, "curveto": 6, "closepath": 0, "ellipse": 7, "ellipsen": 7}
		n, ok := need[tok]
		if !ok {
			return subs, fmt.Errorf("unknown PostScript operator %q", tok)
		}
		if len(st) != n {
			return subs, fmt.Errorf("operator %s with %d operands", tok, len(st))
		}
		switch tok {
		case "moveto":
			cur, start, open, have = Pt{st[0], st[1]}, Pt{st[0], st[1]}, false, true
		case "lineto":
			if !have {
				return subs, fmt.Errorf("lineto without current point")
			}
			begin()
			e := Pt{st[0], st[1]}
			subs[len(subs)-1].Items = append(subs[len(subs)-1].Items, PSItem{Seg: geom.Seg{Kind: geom.Line, P0: cur, P3: e}})
			cur = e
		case "curveto":
			if !have {
				return subs, fmt.Errorf("curveto without current point")
			}
			begin()
			e := Pt{st[4], st[5]}
			subs[len(subs)-1].Items = append(subs[len(subs)-1].Items, PSItem{Seg: geom.Seg{Kind: geom.Cube, P0: cur, C1: Pt{st[0], st[1]}, C2: Pt{st[2], st[3]}, P3: e}})
			cur = e
		case "closepath":
			if open {
				sb := &subs[len(subs)-1]
				if cur != start {
					sb.Items = append(sb.Items, PSItem{Seg: geom.Seg{Kind: geom.Line, P0: cur, P3: start, FromClose: true}})
				}
				sb.Closed = true
				cur = start
				open = false
			}
		case "ellipse", "ellipsen":
			a0, a1 := st[4], st[5]
			if tok == "ellipse" {
				for a1 < a0 {
					a1 += 360
				}
			} else {
				for a1 > a0 {
					a1 -= 360
				}
			}
			arc := PSArc{C: Pt{st[0], st[1]}, Rx: st[2], Ry: st[3], Rot: st[6] * math.Pi / 180, A0: a0 * math.Pi / 180, A1: a1 * math.Pi / 180}
			p0 := arc.At(0)
			if have {
				begin()
				if p0 != cur { // arc prepends a straight line from the current point
					subs[len(subs)-1].Items = append(subs[len(subs)-1].Items, PSItem{Seg: geom.Seg{Kind: geom.Line, P0: cur, P3: p0}})
				}
			} else {
				cur, start, have = p0, p0, true
				begin()
			}
			subs[len(subs)-1].Items = append(subs[len(subs)-1].Items, PSItem{IsArc: true, Arc: arc})
			cur = arc.At(1)
		}
		st = st[:0]
	}
	if len(st) != 0 {
		return subs, fmt.Errorf("%d dangling operands", len(st))
	}
	return subs, nil
}
