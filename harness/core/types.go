package core

import (
	"crypto/sha256"
	"encoding/hex"
	"encoding/json"
	"fmt"
	"math"
	"sort"
)

// Verdict values. Inconclusive is never folded into the other two.
const (
	Held         = "held"
	Violated     = "violated"
	Inconclusive = "inconclusive"
)

// Stratum is one family of generated cases of a property.
type Stratum struct {
	Name     string
	Quick    int // number of cases in the quick tier
	Thorough int // number of cases in the thorough tier
	// Gen builds case idx from the PRNG; it returns a pointer to the property's case struct
	// (JSON-serialisable, bit-exact floats).
	Gen func(r *Rng) any
	// WitnessOnly strata are not generated; they only document a demotion (DESIGN §4.5).
	WitnessOnly bool
	Note        string
}

// Property is what a monitor registers.
type Property struct {
	ID    string
	Title string
	Rule  string // how cases are generated and what makes one non-trivial
	// StatesTermination: a watchdog firing (confirmed by a solitary re-run) is a violation.
	StatesTermination bool
	Strata            []Stratum
	// NewCase returns a pointer to an empty case struct for decoding replay files/witnesses.
	NewCase func() any
	// Corpus returns fixed cases run in every tier independent of the seed.
	Corpus func() []any
	// Check runs the real library on the case and lets the oracle decide.
	Check func(c any, o *Obs)
	// Describe renders a case for evidence samples (short, human-readable).
	Describe func(c any) any
	// CaseTimeoutS is the per-case watchdog in seconds (default 60).
	CaseTimeoutS int
	// SoloTimeoutS is the watchdog of the solitary re-run that confirms a suspected hang (default 600).
	SoloTimeoutS int
	Assumptions  []string
	// Custom replaces the generic driver completely (C20).
	Custom func(d *Driver) int
}

var registry = map[string]*Property{}

func Register(p *Property) { registry[p.ID] = p }
func Lookup(id string) *Property {
	return registry[id]
}
func IDs() []string {
	var ids []string
	for k := range registry {
		ids = append(ids, k)
	}
	sort.Strings(ids)
	return ids
}

// Obs collects what the oracle observed on one case.
type Obs struct {
	Verbose    bool
	verdict    string
	nontrivial bool
	decided    int
	Msgs       []string           // violation messages (first few)
	Counters   map[string]float64 // summed over cases
	Maxima     map[string]float64 // max over cases (observed head-room of thresholds)
	PanicVal   string             // set when the library panicked
	PanicSite  string             // innermost canvas frame of the panic
	PanicEntry string             // public entry point the monitor called
	Tag        string             // failure class for known-finding matching
	Inconcl    string
	LogHook    func(string) // development aid: receives Logf lines
}

func NewObs() *Obs {
	return &Obs{Counters: map[string]float64{}, Maxima: map[string]float64{}}
}

// Decided records that n oracle comparisons were decided (and agreed unless Fail is called).
func (o *Obs) Decided(n int) { o.decided += n }

// NonTrivial marks the case as non-trivial by the property's stated rule.
func (o *Obs) NonTrivial() { o.nontrivial = true }

func (o *Obs) Count(k string, v float64) {
	if !math.IsNaN(v) && !math.IsInf(v, 0) {
		o.Counters[k] += v
	}
}
func (o *Obs) Max(k string, v float64) {
	if math.IsNaN(v) {
		return // JSON cannot carry it; a NaN deviation must be turned into a failure by the monitor
	}
	if math.IsInf(v, 0) {
		v = math.Copysign(1e300, v)
	}
	if cur, ok := o.Maxima[k]; !ok || v > cur {
		o.Maxima[k] = v
	}
}

// Fail records a violation with a failure-class tag (used for known-finding matching of panics)
// and a message.
func (o *Obs) Fail(tag, format string, a ...any) {
	o.verdict = Violated
	if o.Tag == "" {
		o.Tag = tag
	}
	if len(o.Msgs) < 8 {
		m := tag + ": " + fmt.Sprintf(format, a...)
		if len(m) > 700 {
			m = m[:700] + "…"
		}
		o.Msgs = append(o.Msgs, m)
	}
}

// Skip records why (part of) a case could not be decided.
func (o *Obs) Skip(why string) {
	if o.Inconcl == "" {
		o.Inconcl = why
	}
	o.Count("skipped:"+why, 1)
}

func (o *Obs) Logf(format string, a ...any) {
	if o.LogHook != nil {
		o.LogHook(fmt.Sprintf(format, a...))
	}
	if o.Verbose {
		fmt.Printf("    "+format+"\n", a...)
	}
}

func (o *Obs) Verdict() string {
	if o.verdict == Violated {
		return Violated
	}
	if o.decided > 0 {
		return Held
	}
	return Inconclusive
}
func (o *Obs) Failed() bool { return o.verdict == Violated }

// CaseHash is the identity of a case: sha256 of its canonical JSON.
func CaseHash(c any) (string, []byte) {
	b, err := json.Marshal(c)
	if err != nil {
		panic("case not serialisable: " + err.Error())
	}
	h := sha256.Sum256(b)
	return hex.EncodeToString(h[:8]), b
}

// ViolationRec is one violated case as reported by a worker.
type ViolationRec struct {
	Stratum    string          `json:"stratum"`
	Index      int             `json:"index"`
	Hash       string          `json:"hash"`
	Tag        string          `json:"tag"`
	Msgs       []string        `json:"msgs"`
	PanicVal   string          `json:"panic,omitempty"`
	PanicSite  string          `json:"panic_site,omitempty"`
	PanicEntry string          `json:"panic_entry,omitempty"`
	Replay     string          `json:"replay"`
	Case       json.RawMessage `json:"case,omitempty"`
}

// StratumAgg aggregates a stratum (or chunk of it).
type StratumAgg struct {
	Cases        int                 `json:"cases"`
	Held         int                 `json:"held"`
	Violated     int                 `json:"violated"`
	Inconclusive int                 `json:"inconclusive"`
	NonTrivial   int                 `json:"nontrivial"`
	Hashes       map[string]struct{} `json:"-"`
	HashList     []string            `json:"hashes,omitempty"` // non-trivial decided case hashes (for distinct counting)
	Counters     map[string]float64  `json:"counters,omitempty"`
	Maxima       map[string]float64  `json:"maxima,omitempty"`
	InconclWhy   map[string]int      `json:"inconclusive_why,omitempty"`
	Samples      []any               `json:"samples,omitempty"`
	Violations   []ViolationRec      `json:"violations,omitempty"`
	PanicTags    map[string]int      `json:"panic_tags,omitempty"`
}

func NewAgg() *StratumAgg {
	return &StratumAgg{Hashes: map[string]struct{}{}, Counters: map[string]float64{}, Maxima: map[string]float64{}, InconclWhy: map[string]int{}, PanicTags: map[string]int{}}
}

func (a *StratumAgg) Merge(b *StratumAgg) {
	a.Cases += b.Cases
	a.Held += b.Held
	a.Violated += b.Violated
	a.Inconclusive += b.Inconclusive
	a.NonTrivial += b.NonTrivial
	for _, h := range b.HashList {
		a.Hashes[h] = struct{}{}
	}
	for h := range b.Hashes {
		a.Hashes[h] = struct{}{}
	}
	for k, v := range b.Counters {
		a.Counters[k] += v
	}
	for k, v := range b.Maxima {
		if cur, ok := a.Maxima[k]; !ok || v > cur {
			a.Maxima[k] = v
		}
	}
	for k, v := range b.InconclWhy {
		a.InconclWhy[k] += v
	}
	for k, v := range b.PanicTags {
		a.PanicTags[k] += v
	}
	if len(a.Samples) < 3 {
		for _, s := range b.Samples {
			if len(a.Samples) < 3 {
				a.Samples = append(a.Samples, s)
			}
		}
	}
	a.Violations = append(a.Violations, b.Violations...)
}
