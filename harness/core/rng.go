// Package core is the driver/worker/evidence machinery shared by all monitors.
package core

import (
	"hash/fnv"
	"math"
)

// Rng is a splitmix64 generator. Case i of stratum s of property p under seed S uses
// NewRng(S, p, s, i): no wall-clock, no global state.
type Rng struct{ s uint64 }

func mix(z uint64) uint64 {
	z += 0x9e3779b97f4a7c15
	z = (z ^ (z >> 30)) * 0xbf58476d1ce4e5b9
	z = (z ^ (z >> 27)) * 0x94d049bb133111eb
	return z ^ (z >> 31)
}

func NewRng(seed int64, prop, stratum string, idx int) *Rng {
	h := fnv.New64a()
	h.Write([]byte(prop))
	h.Write([]byte{0})
	h.Write([]byte(stratum))
	s := mix(uint64(seed)) ^ mix(h.Sum64()) ^ mix(uint64(idx)*0x2545F4914F6CDD1D+1)
	return &Rng{mix(s)}
}

func (r *Rng) U64() uint64 {
	r.s += 0x9e3779b97f4a7c15
	z := r.s
	z = (z ^ (z >> 30)) * 0xbf58476d1ce4e5b9
	z = (z ^ (z >> 27)) * 0x94d049bb133111eb
	return z ^ (z >> 31)
}

// Float returns a uniform number in [0,1).
func (r *Rng) Float() float64 { return float64(r.U64()>>11) / (1 << 53) }

// Range returns a uniform number in [a,b).
func (r *Rng) Range(a, b float64) float64 { return a + (b-a)*r.Float() }

// Intn returns a uniform integer in [0,n).
func (r *Rng) Intn(n int) int {
	if n <= 0 {
		return 0
	}
	return int(r.U64() % uint64(n))
}

// IntRange returns a uniform integer in [a,b] inclusive.
func (r *Rng) IntRange(a, b int) int { return a + r.Intn(b-a+1) }

func (r *Rng) Bool() bool { return r.U64()&1 == 1 }

// Chance returns true with probability p.
func (r *Rng) Chance(p float64) bool { return r.Float() < p }

// LogRange returns a log-uniform number in [a,b), 0<a<b.
func (r *Rng) LogRange(a, b float64) float64 {
	return math.Exp(r.Range(math.Log(a), math.Log(b)))
}

// Norm returns a standard normal variate (Box-Muller).
func (r *Rng) Norm() float64 {
	u := r.Float()
	for u == 0 {
		u = r.Float()
	}
	return math.Sqrt(-2*math.Log(u)) * math.Cos(2*math.Pi*r.Float())
}

func PickF(r *Rng, xs []float64) float64 { return xs[r.Intn(len(xs))] }
func PickS(r *Rng, xs []string) string   { return xs[r.Intn(len(xs))] }
func PickI(r *Rng, xs []int) int         { return xs[r.Intn(len(xs))] }

// Perm returns a random permutation of 0..n-1.
func (r *Rng) Perm(n int) []int {
	p := make([]int, n)
	for i := range p {
		p[i] = i
	}
	for i := n - 1; i > 0; i-- {
		j := r.Intn(i + 1)
		p[i], p[j] = p[j], p[i]
	}
	return p
}

// PickI2 picks one of the int slices (a copy).
func PickI2(r *Rng, xs [][]int) []int {
	return append([]int(nil), xs[r.Intn(len(xs))]...)
}
