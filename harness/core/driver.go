package core

import (
	"encoding/json"
	"flag"
	"fmt"
	"math"
	"os"
	"os/exec"
	"path/filepath"
	"runtime"
	"sort"
	"strconv"
	"strings"
	"sync"
	"time"
)

// Finding is one entry of /verif/known_findings.json.
type Finding struct {
	ID       string `json:"id"`
	Property string `json:"property"`
	Status   string `json:"status"` // open | fixed
	Kind     string `json:"kind"`   // exact-input | call-site | message | race
	Summary  string `json:"summary"`
	Commit   string `json:"commit,omitempty"`
	// exact-input: the serialised cases; matched by case hash.
	Witnesses []json.RawMessage `json:"witnesses,omitempty"`
	// call-site: panic value prefix, innermost canvas frame, public entry point.
	PanicPrefix string `json:"panic_prefix,omitempty"`
	Site        string `json:"site,omitempty"`
	Entry       string `json:"entry,omitempty"`
	// Rates: stratum -> calibrated per-case rate on the unchanged tree (call-site kind).
	Rates map[string]float64 `json:"rates,omitempty"`
	// TimeoutS: watchdog for the witnesses of a finding whose failure is a hang (each witness runs in a
	// process of its own and the watchdog firing is the expected observation).
	TimeoutS int `json:"timeout_s,omitempty"`
}

type findingsFile struct {
	Findings []Finding `json:"findings"`
}

// Driver holds a run's configuration; exported for custom drivers (C20).
type Driver struct {
	Verif    string
	Prop     *Property
	Tier     string
	Seed     int64
	Self     string
	WorkDir  string
	Replay   string
	Findings []Finding
	// Pinned: stratum -> serialised cases of a demoted stratum on which the property held on the tree
	// they were recorded on (/verif/pinned/<prop>.json, written by tools/pin.py, never at check time).
	// They are replayed on every run as pseudo-strata "pinned:<stratum>"; a violation there is judged
	// like one of a regular stratum, except that rate-capped failure classes do not cover it.
	Pinned map[string][]json.RawMessage
	Start  time.Time
	Jobs   int
}

// ChildHook runs one history of a custom driver in a child process (set by the C20 monitor).
var ChildHook func(spec, out string) int

func Main() {
	verif := flag.String("verif", "/verif", "verif directory")
	prop := flag.String("prop", "", "property id")
	replay := flag.String("replay", "", "replay file")
	worker := flag.String("worker", "", "internal: worker args json file")
	dump := flag.String("dump", "", "development aid: print the JSON of generated case stratum,index (uses VERIF_SEED)")
	c20 := flag.String("c20", "", "internal: C20 child history spec (json)")
	c20out := flag.String("c20out", "", "internal: C20 child result file")
	flag.Parse()
	if *c20 != "" {
		if ChildHook == nil {
			os.Exit(2)
		}
		os.Exit(ChildHook(*c20, *c20out))
	}
	if *worker != "" {
		b, err := os.ReadFile(*worker)
		if err != nil {
			fmt.Fprintln(os.Stderr, err)
			os.Exit(2)
		}
		var a WorkerArgs
		if err := json.Unmarshal(b, &a); err != nil {
			fmt.Fprintln(os.Stderr, err)
			os.Exit(2)
		}
		os.Exit(RunWorker(a))
	}
	p := Lookup(*prop)
	if p == nil {
		fmt.Printf("unknown property %q; known: %v\n", *prop, IDs())
		os.Exit(2)
	}
	tier := "quick"
	if flag.NArg() > 0 {
		tier = flag.Arg(0)
	}
	if t := os.Getenv("VERIF_TIER"); t == "quick" || t == "thorough" {
		tier = t
	}
	if tier != "quick" && tier != "thorough" {
		fmt.Println("tier must be quick or thorough")
		os.Exit(2)
	}
	seed := int64(1)
	if s := os.Getenv("VERIF_SEED"); s != "" {
		if v, err := strconv.ParseInt(s, 10, 64); err == nil {
			seed = v
		}
	}
	self, _ := os.Executable()
	d := &Driver{Verif: *verif, Prop: p, Tier: tier, Seed: seed, Self: self, Start: time.Now(), Jobs: runtime.NumCPU()}
	if j := os.Getenv("VERIF_JOBS"); j != "" {
		if v, err := strconv.Atoi(j); err == nil && v > 0 {
			d.Jobs = v
		}
	}
	if *dump != "" {
		parts := strings.Split(*dump, ",")
		idx, _ := strconv.Atoi(parts[1])
		for i := range p.Strata {
			if p.Strata[i].Name == parts[0] {
				_, b := CaseHash(p.Strata[i].Gen(NewRng(seed, p.ID, parts[0], idx)))
				fmt.Println(string(b))
			}
		}
		os.Exit(0)
	}
	d.Findings = loadFindings(filepath.Join(*verif, "known_findings.json"), p.ID)
	if b, err := os.ReadFile(filepath.Join(*verif, "pinned", p.ID+".json")); err == nil {
		if err := json.Unmarshal(b, &d.Pinned); err != nil {
			fmt.Println("pinned cases unreadable:", err)
			os.Exit(2)
		}
	}
	if *replay != "" {
		os.Exit(d.RunReplay(*replay))
	}
	d.WorkDir = filepath.Join(*verif, "evidence", "work", fmt.Sprintf("%s-%d", p.ID, os.Getpid()))
	os.MkdirAll(d.WorkDir, 0o755)
	os.MkdirAll(filepath.Join(*verif, "evidence", "replay"), 0o755)
	if old, _ := filepath.Glob(filepath.Join(*verif, "evidence", "replay", p.ID+"-*")); len(old) > 0 && os.Getenv("VERIF_KEEP_REPLAYS") == "" {
		for _, f := range old {
			os.Remove(f)
		}
	}
	defer os.RemoveAll(d.WorkDir)
	var code int
	if p.Custom != nil {
		code = p.Custom(d)
	} else {
		code = d.Run()
	}
	os.RemoveAll(d.WorkDir)
	os.Exit(code)
}

func loadFindings(path, prop string) []Finding {
	b, err := os.ReadFile(path)
	if err != nil {
		return nil
	}
	var ff findingsFile
	if err := json.Unmarshal(b, &ff); err != nil {
		fmt.Println("known_findings.json unreadable:", err)
		os.Exit(2)
	}
	var out []Finding
	for _, f := range ff.Findings {
		if f.Property == prop {
			out = append(out, f)
		}
	}
	return out
}

// RunReplay re-executes one stored case verbosely, in-process.
func (d *Driver) RunReplay(path string) int {
	b, err := os.ReadFile(path)
	if err != nil {
		fmt.Println(err)
		return 2
	}
	var rf ReplayFile
	if err := json.Unmarshal(b, &rf); err != nil {
		fmt.Println(err)
		return 2
	}
	c := d.Prop.NewCase()
	if err := json.Unmarshal(rf.Case, c); err != nil {
		fmt.Println("cannot decode case:", err)
		return 2
	}
	o := NewObs()
	o.Verbose = true
	if d.Prop.Describe != nil {
		db, _ := json.MarshalIndent(d.Prop.Describe(c), "", " ")
		fmt.Printf("case %s (stratum %s index %d seed %d):\n%s\n", rf.Hash, rf.Stratum, rf.Index, rf.Seed, db)
	}
	if o.Guard("monitor", func() {
		d.Prop.Check(c, o)
		if AfterCase != nil {
			AfterCase(o)
		}
	}) {
		o.Fail("panic:escaped", "panic escaped at %s: %s", o.PanicSite, o.PanicVal)
	}
	fmt.Printf("verdict: %s\n", o.Verdict())
	for _, m := range o.Msgs {
		fmt.Println("  ", m)
	}
	for k, v := range o.Maxima {
		fmt.Printf("   max %s = %g\n", k, v)
	}
	if o.Failed() {
		fmt.Printf("VIOLATION property=%s replay=%s\n", d.Prop.ID, path)
		return 1
	}
	return 0
}

type chunk struct {
	stratum   string
	from, to  int
	corpus    bool
	witnesses []json.RawMessage
	skip      []int
	id        int
	timeoutS  int
	solo      bool
}

type hangRec struct {
	Stratum string
	Index   int
	Hash    string
	Kind    string // "hang" or "fatal"
	Detail  string
}

// Run is the generic driver: chunks -> child processes -> aggregate -> findings -> evidence.
func (d *Driver) Run() int {
	p := d.Prop
	aggs := map[string]*StratumAgg{}
	var order []string
	var mu sync.Mutex
	var hangs []hangRec
	const maxSolo = 6
	soloConfirmed, suspected := 0, 0
	nextID := 0
	var chunks []chunk
	add := func(c chunk) {
		c.id = nextID
		nextID++
		chunks = append(chunks, c)
	}
	// fixed corpus
	ncorpus := 0
	if p.Corpus != nil {
		ncorpus = len(p.Corpus())
	}
	if ncorpus > 0 {
		order = append(order, "corpus")
		aggs["corpus"] = NewAgg()
		per := (ncorpus + d.Jobs - 1) / d.Jobs
		if per < 1 {
			per = 1
		}
		for i := 0; i < ncorpus; i += per {
			add(chunk{stratum: "corpus", from: i, to: min(i+per, ncorpus), corpus: true})
		}
	}
	// witnesses of findings, each its own pseudo-stratum
	for _, f := range d.Findings {
		if len(f.Witnesses) == 0 {
			continue
		}
		name := "witness:" + f.ID
		order = append(order, name)
		aggs[name] = NewAgg()
		if f.TimeoutS > 0 {
			for i := range f.Witnesses {
				add(chunk{stratum: name, from: i, to: i + 1, witnesses: f.Witnesses, solo: true, timeoutS: f.TimeoutS})
			}
			continue
		}
		add(chunk{stratum: name, from: 0, to: len(f.Witnesses), witnesses: f.Witnesses})
	}
	// pinned cases of demoted strata
	if os.Getenv("VERIF_STRATA") == "" || os.Getenv("VERIF_PINNED") != "" {
		var names []string
		for name := range d.Pinned {
			names = append(names, name)
		}
		sort.Strings(names)
		for _, sn := range names {
			cases := d.Pinned[sn]
			name := "pinned:" + sn
			order = append(order, name)
			aggs[name] = NewAgg()
			for i := 0; i < len(cases); i += 100 {
				add(chunk{stratum: name, from: i, to: min(i+100, len(cases)), witnesses: cases})
			}
		}
	}
	total := 0
	for _, s := range p.Strata {
		if s.WitnessOnly && os.Getenv("VERIF_DEMOTED") == "" {
			continue
		}
		if only := os.Getenv("VERIF_STRATA"); only != "" && !strings.Contains(","+only+",", ","+s.Name+",") {
			continue // development aid: restrict the run to some strata
		}
		n := s.Quick
		if d.Tier == "thorough" {
			n = s.Thorough
		}
		if n <= 0 {
			continue
		}
		total += n
		order = append(order, s.Name)
		aggs[s.Name] = NewAgg()
		size := n / (d.Jobs * 3)
		if size < 20 {
			size = 20
		}
		if size > 4000 {
			size = 4000
		}
		for i := 0; i < n; i += size {
			add(chunk{stratum: s.Name, from: i, to: min(i+size, n)})
		}
	}
	// longest strata first is not needed; interleave by id
	queue := make(chan chunk, len(chunks)+1024)
	var wg sync.WaitGroup
	pending := int64(len(chunks))
	var pmu sync.Mutex
	done := make(chan struct{})
	finish := func() {
		pmu.Lock()
		pending--
		if pending == 0 {
			close(done)
		}
		pmu.Unlock()
	}
	requeue := func(c chunk) {
		pmu.Lock()
		pending++
		c.id = nextID
		nextID++
		pmu.Unlock()
		queue <- c
	}
	for _, c := range chunks {
		queue <- c
	}
	if len(chunks) == 0 {
		fmt.Println("nothing to run")
		return 2
	}
	for w := 0; w < d.Jobs; w++ {
		wg.Add(1)
		go func() {
			defer wg.Done()
			for {
				select {
				case <-done:
					return
				case c := <-queue:
					agg, died, idx, hash, timedOut, detail := d.runChunk(c)
					mu.Lock()
					if agg != nil {
						aggs[c.stratum].Merge(agg)
					}
					mu.Unlock()
					if died {
						if c.solo {
							// confirmed alone
							kind := "fatal"
							if timedOut {
								kind = "hang"
							}
							mu.Lock()
							hangs = append(hangs, hangRec{c.stratum, idx, hash, kind, detail})
							soloConfirmed++
							mu.Unlock()
						} else if idx >= 0 {
							// re-run the suspect alone with a long budget, and the rest of the chunk without it;
							// after maxSolo suspects of one run the verdict no longer depends on further
							// confirmations and they are only listed (each confirmation costs up to the budget)
							mu.Lock()
							confirm := soloConfirmed < maxSolo
							if !confirm {
								suspected++
							}
							mu.Unlock()
							if confirm {
								solo := c
								solo.from, solo.to, solo.solo, solo.timeoutS = idx, idx+1, true, 600
								if p.SoloTimeoutS > 0 {
									solo.timeoutS = p.SoloTimeoutS
								}
								solo.skip = nil
								requeue(solo)
							}
							if agg == nil && idx > c.from {
								pre := c
								pre.to = idx
								requeue(pre)
							}
							rest := c
							rest.from = idx + 1
							if rest.from < rest.to {
								requeue(rest)
							}
						} else {
							mu.Lock()
							hangs = append(hangs, hangRec{c.stratum, -1, "", "fatal", "worker died before its first case: " + detail})
							mu.Unlock()
						}
					}
					finish()
				}
			}
		}()
	}
	<-done
	wg.Wait()
	if suspected > 0 {
		fmt.Printf("note: %d further cases ended their worker (crash or watchdog) and were not re-run alone: %d suspects of this run were already confirmed alone\n", suspected, maxSolo)
	}
	return d.Report(order, aggs, hangs)
}

func (d *Driver) runChunk(c chunk) (agg *StratumAgg, died bool, idx int, hash string, timedOut bool, detail string) {
	base := filepath.Join(d.WorkDir, fmt.Sprintf("c%d", c.id))
	a := WorkerArgs{Prop: d.Prop.ID, Seed: d.Seed, Stratum: c.stratum, From: c.from, To: c.to, Skip: c.skip,
		Journal: base + ".journal", Out: base + ".out", ReplayDir: filepath.Join(d.Verif, "evidence", "replay"),
		TimeoutS: d.Prop.CaseTimeoutS, Corpus: c.corpus, Witnesses: c.witnesses}
	if c.timeoutS > 0 {
		a.TimeoutS = c.timeoutS
	}
	b, _ := json.Marshal(a)
	os.WriteFile(base+".args", b, 0o644)
	logf, _ := os.Create(base + ".log")
	cmd := exec.Command(d.Self, "-worker", base+".args")
	cmd.Stdout, cmd.Stderr = logf, logf
	cmd.Env = append(os.Environ(), "GOTRACEBACK=all")
	err := cmd.Run()
	logf.Close()
	defer func() {
		os.Remove(base + ".args")
		os.Remove(base + ".journal")
		os.Remove(base + ".out")
		os.Remove(base + ".log")
	}()
	agg, rerr := readAgg(base + ".out")
	if err == nil && rerr == nil {
		return agg, false, -1, "", false, ""
	}
	// worker died or watchdog fired
	idx, hash, timedOut = lastBegun(a.Journal)
	lb, _ := os.ReadFile(base + ".log")
	detail = firstLines(string(lb), 12)
	if rerr != nil {
		agg = nil
	}
	return agg, true, idx, hash, timedOut, detail
}

func firstLines(s string, n int) string {
	lines := strings.Split(s, "\n")
	if len(lines) > n {
		lines = lines[:n]
	}
	return strings.Join(lines, "\n")
}

// matchFinding returns the open finding that fully explains a violation, or nil.
func (d *Driver) matchFinding(v ViolationRec, witnessHashes map[string]*Finding) *Finding {
	if f, ok := witnessHashes[v.Hash]; ok && f.Status == "open" {
		return f
	}
	if len(v.Msgs) == 0 || strings.HasPrefix(v.Stratum, "pinned:") {
		return nil
	}
	// call-site: every failure message of the case must be a panic explained by some open call-site
	// finding (entry point, innermost canvas frame and panic value prefix all match); the case is
	// attributed to the finding that explains its first message.
	var first *Finding
	for _, m := range v.Msgs {
		var hit *Finding
		for i := range d.Findings {
			f := &d.Findings[i]
			if f.Status != "open" || (f.Kind != "call-site" && f.Kind != "message") {
				continue
			}
			if f.Kind == "message" {
				// a failure of one oracle clause (tag = Entry) whose message starts with PanicPrefix, e.g. a
				// specific parse error of an embedded font program; rate-capped like call-site findings
				if strings.HasPrefix(m, f.Entry+": "+f.PanicPrefix) {
					hit = f
				}
				if hit != nil {
					break
				}
				continue
			}
			for _, entry := range strings.Split(f.Entry, "|") { // several public entry points may reach one site
				if strings.HasPrefix(m, "panic:"+entry+": "+entry+" panicked at "+f.Site+": "+f.PanicPrefix) {
					hit = f
				}
			}
			if hit != nil {
				break
			}
		}
		if hit == nil {
			return nil
		}
		if first == nil {
			first = hit
		}
	}
	return first
}

// Report matches violations against known findings, writes evidence and prints the verdict lines.
func (d *Driver) Report(order []string, aggs map[string]*StratumAgg, hangs []hangRec) int {
	p := d.Prop
	witnessHashes := map[string]*Finding{}
	for i := range d.Findings {
		f := &d.Findings[i]
		for _, w := range f.Witnesses {
			c := p.NewCase()
			if err := json.Unmarshal(w, c); err == nil {
				h, _ := CaseHash(c)
				witnessHashes[h] = f
			}
		}
	}
	tot := NewAgg()
	perStratum := map[string]any{}
	knownHit := map[string]int{}                   // finding id -> matches
	knownPerStratum := map[string]map[string]int{} // finding id -> stratum -> matches
	var unknown []ViolationRec
	for _, name := range order {
		a := aggs[name]
		tot.Merge(a)
		perStratum[name] = map[string]any{"cases": a.Cases, "held": a.Held, "violated": a.Violated, "inconclusive": a.Inconclusive, "nontrivial": a.NonTrivial, "inconclusive_why": a.InconclWhy}
		for _, v := range a.Violations {
			if f := d.matchFinding(v, witnessHashes); f != nil {
				knownHit[f.ID]++
				if knownPerStratum[f.ID] == nil {
					knownPerStratum[f.ID] = map[string]int{}
				}
				knownPerStratum[f.ID][name]++
				continue
			}
			unknown = append(unknown, v)
		}
		// violations beyond the per-chunk record cap are unknown by construction
	}
	recorded := 0
	for _, name := range order {
		recorded += len(aggs[name].Violations)
	}
	exit := 0
	// rate caps of call-site findings
	var rateAlarms []string
	for i := range d.Findings {
		f := &d.Findings[i]
		if (f.Kind != "call-site" && f.Kind != "message") || f.Status != "open" {
			continue
		}
		for name, n := range knownPerStratum[f.ID] {
			cases := 0
			if a := aggs[name]; a != nil {
				cases = a.Cases
			}
			lambda := f.Rates[name] * float64(cases)
			cap := int(math.Ceil(4*lambda + 10))
			if n > cap {
				rateAlarms = append(rateAlarms, fmt.Sprintf("known failure class %s occurred %d times in stratum %s (%d cases); calibrated rate %.2g allows at most %d", f.ID, n, name, cases, f.Rates[name], cap))
			}
		}
	}
	var hangMsgs []string
	hangViol := 0
	for _, h := range hangs {
		msg := fmt.Sprintf("%s in stratum %s case %d (%s): %s", h.Kind, h.Stratum, h.Index, h.Hash, firstLines(h.Detail, 3))
		if f, ok := witnessHashes[h.Hash]; ok && f.Status == "open" {
			knownHit[f.ID]++
			continue
		}
		if h.Kind == "fatal" || p.StatesTermination {
			hangViol++
			hangMsgs = append(hangMsgs, msg)
			// persist a replay stub
			rp := filepath.Join(d.Verif, "evidence", "replay", fmt.Sprintf("%s-%s-%s.json", p.ID, h.Kind, h.Hash))
			b, _ := json.MarshalIndent(map[string]any{"property": p.ID, "stratum": h.Stratum, "index": h.Index, "seed": d.Seed, "hash": h.Hash, "kind": h.Kind, "detail": h.Detail, "note": "regenerate the case from (seed,stratum,index)"}, "", " ")
			os.WriteFile(rp, b, 0o644)
			fmt.Printf("VIOLATION property=%s replay=%s\n", p.ID, rp)
			fmt.Printf("  %s\n", msg)
			exit = 1
		} else {
			tot.Inconclusive++
			tot.InconclWhy["watchdog"]++
			fmt.Printf("INCONCLUSIVE property=%s %s\n", p.ID, msg)
		}
	}
	for _, f := range d.Findings {
		if f.Status == "open" && knownHit[f.ID] > 0 {
			fmt.Printf("KNOWN-FINDING: property=%s %s [%s, matched %d]\n", p.ID, f.Summary, f.ID, knownHit[f.ID])
		} else if f.Status == "open" {
			fmt.Printf("note: open finding %s was not reproduced in this run (%s)\n", f.ID, f.Summary)
		}
	}
	sort.Slice(unknown, func(i, j int) bool {
		if unknown[i].Stratum != unknown[j].Stratum {
			return unknown[i].Stratum < unknown[j].Stratum
		}
		return unknown[i].Index < unknown[j].Index
	})
	tagCount := map[string]int{}
	for i, v := range unknown {
		tagCount[v.Stratum+" "+v.Tag]++
		if i < 12 {
			fmt.Printf("VIOLATION property=%s replay=%s\n", p.ID, v.Replay)
			m := strings.Join(v.Msgs, " | ")
			if len(m) > 900 {
				m = m[:900] + "…"
			}
			fmt.Printf("  stratum=%s index=%d %s\n", v.Stratum, v.Index, m)
		}
		exit = 1
	}
	if len(unknown) > 12 {
		fmt.Printf("  … and %d more violations\n", len(unknown)-12)
	}
	if len(unknown) > 0 {
		var keys []string
		for k := range tagCount {
			keys = append(keys, k)
		}
		sort.Strings(keys)
		for _, k := range keys {
			fmt.Printf("  first-failure class: %-60s %d\n", k, tagCount[k])
		}
	}
	if extra := tot.Violated - recorded; extra > 0 {
		fmt.Printf("VIOLATION property=%s replay=%s\n  %d further violated cases were not recorded individually\n", p.ID, filepath.Join(d.Verif, "evidence", p.ID+".json"), extra)
		exit = 1
	}
	for _, m := range rateAlarms {
		fmt.Printf("VIOLATION property=%s replay=%s\n  %s\n", p.ID, filepath.Join(d.Verif, "evidence", p.ID+".json"), m)
		exit = 1
	}
	decided := tot.Held + tot.Violated
	if decided == 0 && exit == 0 {
		fmt.Printf("INCONCLUSIVE property=%s no oracle comparison was decided\n", p.ID)
		exit = 2
	}
	// evidence
	var samples []any
	for _, name := range order {
		for _, s := range aggs[name].Samples {
			if len(samples) < 12 {
				samples = append(samples, map[string]any{"stratum": name, "case": s})
			}
		}
	}
	if len(samples) == 0 {
		samples = append(samples, "no non-trivial case was observed")
	}
	var witnessOnly []string
	for _, s := range p.Strata {
		if s.WitnessOnly {
			witnessOnly = append(witnessOnly, s.Name+": "+s.Note)
		}
	}
	known := map[string]int{}
	for k, v := range knownHit {
		known[k] = v
	}
	cov := map[string]any{
		"evaluations":                      tot.Cases,
		"distinct_nontrivial":              len(tot.Hashes),
		"rule":                             p.Rule,
		"samples":                          samples,
		"held":                             tot.Held,
		"violated_cases":                   tot.Violated,
		"inconclusive":                     tot.Inconclusive,
		"inconclusive_why":                 tot.InconclWhy,
		"per_stratum":                      perStratum,
		"strata_witness_only":              witnessOnly,
		"monitor_counters":                 tot.Counters,
		"observed_maxima":                  tot.Maxima,
		"known_findings_matched":           known,
		"unknown_violations":               len(unknown) + hangViol + len(rateAlarms),
		"library_panics_by_entry_and_site": tot.PanicTags,
		"exhaustive":                       false,
	}
	ev := map[string]any{
		"property_id": p.ID, "tier": d.Tier, "seed": d.Seed, "level": "exploration",
		"coverage": cov, "assumptions": p.Assumptions,
		"wall_s":     math.Round(time.Since(d.Start).Seconds()*100) / 100,
		"violations": len(unknown) + hangViol + len(rateAlarms),
	}
	if p.Assumptions == nil {
		ev["assumptions"] = []string{}
	}
	b, _ := json.MarshalIndent(ev, "", " ")
	os.WriteFile(filepath.Join(d.Verif, "evidence", p.ID+".json"), b, 0o644)
	fmt.Printf("%s %s seed=%d: %d cases (%d held, %d violated [%d known], %d inconclusive), %d distinct non-trivial, %.1fs\n",
		p.ID, d.Tier, d.Seed, tot.Cases, tot.Held, tot.Violated, knownTotal(knownHit), tot.Inconclusive, len(tot.Hashes), time.Since(d.Start).Seconds())
	return exit
}

func knownTotal(m map[string]int) int {
	n := 0
	for _, v := range m {
		n += v
	}
	return n
}
