package core

import (
	"bufio"
	"encoding/json"
	"fmt"
	"os"
	"path/filepath"
	"runtime"
	"strings"
	"time"
)

// Guard runs f, converting a panic of the library into an observation. It returns true if f panicked.
// The innermost canvas frame is recorded as the panic site.
// AfterCase runs after every case inside the worker (set by the monitors: pool monitor).
var AfterCase func(o *Obs)

func (o *Obs) Guard(entry string, f func()) (panicked bool) {
	defer func() {
		if r := recover(); r != nil {
			panicked = true
			val := fmt.Sprint(r)
			site := panicSite()
			if o.PanicVal == "" {
				o.PanicVal, o.PanicSite, o.PanicEntry = val, site, entry
			}
			o.Logf("panic in %s at %s: %s", entry, site, val)
		}
	}()
	f()
	return false
}

// Call is Guard plus: a panic is a violation with tag "panic:<entry>".
func (o *Obs) Call(entry string, f func()) (ok bool) {
	if o.Guard(entry, f) {
		o.Fail("panic:"+entry, "%s panicked at %s: %s", entry, o.PanicSite, trunc(o.PanicVal, 200))
		return false
	}
	return true
}

func trunc(s string, n int) string {
	if len(s) > n {
		return s[:n] + "…"
	}
	return s
}

func panicSite() string {
	pcs := make([]uintptr, 64)
	n := runtime.Callers(3, pcs)
	frames := runtime.CallersFrames(pcs[:n])
	for {
		fr, more := frames.Next()
		fn := fr.Function
		if strings.Contains(fn, "github.com/tdewolff/canvas") {
			fn = strings.TrimPrefix(fn, "github.com/tdewolff/canvas")
			return strings.TrimPrefix(fn, ".")
		}
		if !more {
			break
		}
	}
	// not in canvas: report the first non-runtime frame (a dependency)
	frames = runtime.CallersFrames(pcs[:n])
	for {
		fr, more := frames.Next()
		if !strings.HasPrefix(fr.Function, "runtime.") && !strings.HasPrefix(fr.Function, "verif/") {
			return fr.Function
		}
		if !more {
			break
		}
	}
	return "?"
}

// WorkerArgs describes a chunk of work executed in a child process.
type WorkerArgs struct {
	Prop      string `json:"prop"`
	Seed      int64  `json:"seed"`
	Stratum   string `json:"stratum"`
	From      int    `json:"from"`
	To        int    `json:"to"`
	Skip      []int  `json:"skip,omitempty"`
	Journal   string `json:"journal"`
	Out       string `json:"out"`
	ReplayDir string `json:"replay_dir"`
	TimeoutS  int    `json:"timeout_s"`
	// Corpus: run corpus cases From..To instead of generated ones.
	Corpus bool `json:"corpus"`
	// Witnesses: decode these case JSONs (index From..To) instead of generating.
	Witnesses []json.RawMessage `json:"witnesses,omitempty"`
	Verbose   bool              `json:"verbose,omitempty"`
}

// ReplayFile is what is stored for every violated case.
type ReplayFile struct {
	Property string          `json:"property"`
	Stratum  string          `json:"stratum"`
	Index    int             `json:"index"`
	Seed     int64           `json:"seed"`
	Hash     string          `json:"hash"`
	Tag      string          `json:"tag"`
	Msgs     []string        `json:"msgs"`
	Case     json.RawMessage `json:"case"`
}

// RunWorker executes a chunk; called in the child process. Exit code 0 = chunk complete
// (violations are in the output file), 3 = watchdog fired on the case named in the journal.
func RunWorker(a WorkerArgs) int {
	p := Lookup(a.Prop)
	if p == nil {
		fmt.Fprintln(os.Stderr, "unknown property", a.Prop)
		return 2
	}
	jf, err := os.OpenFile(a.Journal, os.O_CREATE|os.O_WRONLY|os.O_TRUNC, 0o644)
	if err != nil {
		fmt.Fprintln(os.Stderr, err)
		return 2
	}
	defer jf.Close()
	skip := map[int]bool{}
	for _, s := range a.Skip {
		skip[s] = true
	}
	agg := NewAgg()
	var corpus []any
	if a.Corpus && p.Corpus != nil {
		corpus = p.Corpus()
	}
	var strat *Stratum
	for i := range p.Strata {
		if p.Strata[i].Name == a.Stratum {
			strat = &p.Strata[i]
		}
	}
	timeout := time.Duration(a.TimeoutS) * time.Second
	if timeout == 0 {
		timeout = 60 * time.Second
	}
	// tools/pin.py: record the cases that held (used by hand to build /verif/pinned/<prop>.json)
	var pinOut *os.File
	if dir := os.Getenv("VERIF_PIN_OUT"); dir != "" && a.Witnesses == nil && !a.Corpus {
		pinOut, _ = os.Create(filepath.Join(dir, fmt.Sprintf("%s-%d-%d.jsonl", a.Stratum, a.From, os.Getpid())))
		if pinOut != nil {
			defer pinOut.Close()
		}
	}
	for i := a.From; i < a.To; i++ {
		if skip[i] {
			continue
		}
		var c any
		switch {
		case a.Witnesses != nil:
			if i >= len(a.Witnesses) {
				continue
			}
			c = p.NewCase()
			if err := json.Unmarshal(a.Witnesses[i], c); err != nil {
				fmt.Fprintln(os.Stderr, "bad witness:", err)
				return 2
			}
		case a.Corpus:
			if i >= len(corpus) {
				continue
			}
			c = corpus[i]
		default:
			if strat == nil {
				fmt.Fprintln(os.Stderr, "unknown stratum", a.Stratum)
				return 2
			}
			c = strat.Gen(NewRng(a.Seed, a.Prop, a.Stratum, i))
		}
		hash, cjson := CaseHash(c)
		fmt.Fprintf(jf, "B %d %s\n", i, hash)
		o := NewObs()
		o.Verbose = a.Verbose
		done := make(chan struct{})
		go func() {
			defer close(done)
			if o.Guard("monitor", func() {
				p.Check(c, o)
				if AfterCase != nil {
					AfterCase(o)
				}
			}) {
				// a panic that escaped every Guard of the monitor: attribute it
				o.Fail("panic:escaped", "panic escaped the monitor's guards at %s: %s", o.PanicSite, trunc(o.PanicVal, 200))
			}
		}()
		select {
		case <-done:
		case <-time.After(timeout):
			fmt.Fprintf(jf, "T %d %s\n", i, hash)
			jf.Sync()
			// keep what we have so far
			writeAgg(a.Out, agg)
			return 3
		}
		v := o.Verdict()
		fmt.Fprintf(jf, "E %d %s\n", i, v)
		agg.Cases++
		for k, x := range o.Counters {
			agg.Counters[k] += x
		}
		for k, x := range o.Maxima {
			if cur, ok := agg.Maxima[k]; !ok || x > cur {
				agg.Maxima[k] = x
			}
		}
		switch v {
		case Held:
			agg.Held++
		case Violated:
			agg.Violated++
		default:
			agg.Inconclusive++
			agg.InconclWhy[o.Inconcl]++
		}
		if o.nontrivial && v != Inconclusive {
			agg.NonTrivial++
			agg.Hashes[hash] = struct{}{}
		}
		if pinOut != nil && v == Held {
			fmt.Fprintf(pinOut, "{\"stratum\":%q,\"hash\":%q,\"case\":%s}\n", a.Stratum, hash, cjson)
		}
		if len(agg.Samples) < 2 && o.nontrivial && p.Describe != nil {
			agg.Samples = append(agg.Samples, p.Describe(c))
		}
		if o.PanicVal != "" {
			agg.PanicTags[o.PanicEntry+"@"+o.PanicSite]++
		}
		if v == Violated {
			rec := ViolationRec{Stratum: a.Stratum, Index: i, Hash: hash, Tag: o.Tag, Msgs: o.Msgs, PanicVal: trunc(o.PanicVal, 300), PanicSite: o.PanicSite, PanicEntry: o.PanicEntry}
			rec.Replay = filepath.Join(a.ReplayDir, fmt.Sprintf("%s-%s.json", a.Prop, hash))
			if len(agg.Violations) < 50 {
				rf := ReplayFile{Property: a.Prop, Stratum: a.Stratum, Index: i, Seed: a.Seed, Hash: hash, Tag: o.Tag, Msgs: o.Msgs, Case: cjson}
				b, _ := json.MarshalIndent(rf, "", " ")
				os.WriteFile(rec.Replay, b, 0o644)
			}
			if len(agg.Violations) < 20000 {
				agg.Violations = append(agg.Violations, rec)
			}
		}
	}
	writeAgg(a.Out, agg)
	return 0
}

func writeAgg(path string, agg *StratumAgg) {
	agg.HashList = agg.HashList[:0]
	for h := range agg.Hashes {
		agg.HashList = append(agg.HashList, h)
	}
	b, _ := json.Marshal(agg)
	os.WriteFile(path, b, 0o644)
}

func readAgg(path string) (*StratumAgg, error) {
	b, err := os.ReadFile(path)
	if err != nil {
		return nil, err
	}
	agg := NewAgg()
	if err := json.Unmarshal(b, agg); err != nil {
		return nil, err
	}
	if agg.Counters == nil {
		agg.Counters = map[string]float64{}
	}
	if agg.Maxima == nil {
		agg.Maxima = map[string]float64{}
	}
	if agg.InconclWhy == nil {
		agg.InconclWhy = map[string]int{}
	}
	if agg.PanicTags == nil {
		agg.PanicTags = map[string]int{}
	}
	return agg, nil
}

// lastBegun returns the index of the last case begun but not ended in a journal (-1 if none),
// and whether a watchdog line was written for it.
func lastBegun(journal string) (idx int, hash string, timedOut bool) {
	idx = -1
	f, err := os.Open(journal)
	if err != nil {
		return
	}
	defer f.Close()
	sc := bufio.NewScanner(f)
	open := -1
	for sc.Scan() {
		var kind, h string
		var i int
		if n, _ := fmt.Sscanf(sc.Text(), "%s %d %s", &kind, &i, &h); n < 2 {
			continue
		}
		switch kind {
		case "B":
			open, hash = i, h
		case "E":
			if i == open {
				open = -1
			}
		case "T":
			timedOut = true
		}
	}
	return open, hash, timedOut
}
