// Package refkp is a brute-force reference of Knuth-Plass line breaking: it enumerates every set of
// legal breakpoints of a small instance and evaluates each breaking from the definitions of the
// paper (Knuth & Plass 1981) with the conventions the library documents: infinite values are the
// finite constant Inf, an unstretchable short line has ratio Inf*(1+(width-L)/width), ratios are
// capped at Inf, glue (and non-forced penalties) following a break is discarded.
package refkp

import "math"

// Item kinds.
const (
	Box = iota
	Glue
	Penalty
)

type Item struct {
	Kind                   int
	Width, Stretch, Shrink float64
	Penalty                float64
	Flagged                bool
}

// Params are the tuning constants (the library's documented defaults are passed in by the monitor).
type Params struct {
	Inf, Tolerance, DemeritsLine, DemeritsFlagged, DemeritsFitness float64
}

// Legal reports whether a break at item b is legal: a penalty below +Inf, or glue that directly
// follows a box and does not directly precede a penalty.
func Legal(items []Item, b int, p Params) bool {
	it := items[b]
	switch it.Kind {
	case Penalty:
		return it.Penalty < p.Inf
	case Glue:
		return b > 0 && items[b-1].Kind == Box && (b+1 >= len(items) || items[b+1].Kind != Penalty)
	}
	return false
}

func Forced(items []Item, b int, p Params) bool {
	return items[b].Kind == Penalty && items[b].Penalty <= -p.Inf
}

// Line describes the line between two consecutive breaks.
type Line struct {
	Width, Stretch, Shrink float64 // natural width incl. the penalty width at the break, stretch, shrink
	Ratio                  float64
}

// LineOf evaluates the line from break a (a < 0: start of the paragraph) to break b.
func LineOf(items []Item, a, b int, width float64, p Params) Line {
	// first item of the line: after the break at a, glue is discarded up to the next box; the scan
	// stops at a forced penalty (other than the break item itself); non-forced penalties contribute nothing
	start := 0
	if a >= 0 {
		start = a
		for i := a; i < len(items); i++ {
			if items[i].Kind == Box || (i > a && Forced(items, i, p)) {
				break
			}
			start = i + 1
		}
	}
	var l Line
	for i := start; i < b; i++ {
		switch items[i].Kind {
		case Box:
			l.Width += items[i].Width
		case Glue:
			l.Width += items[i].Width
			l.Stretch += items[i].Stretch
			l.Shrink += items[i].Shrink
		}
	}
	// discarded glue between a and start that lies at or beyond b cannot occur (b > a is a later legal break)
	if items[b].Kind == Penalty {
		l.Width += items[b].Width
	}
	switch {
	case l.Width < width:
		if l.Stretch == 0 {
			// an unstretchable short line: a pseudo-ratio in (Inf, 2*Inf] that grows with the shortfall, so
			// that shorter and longer such lines can be told apart (not capped)
			l.Ratio = p.Inf * (1 + (width-l.Width)/width)
			return l
		}
		l.Ratio = (width - l.Width) / l.Stretch
	case l.Width > width:
		l.Ratio = (width - l.Width) / l.Shrink
	}
	l.Ratio = math.Min(l.Ratio, p.Inf)
	return l
}

func fitness(r float64) int {
	switch {
	case r < -0.5:
		return 0
	case r <= 0.5:
		return 1
	case r <= 1:
		return 2
	}
	return 3
}

// Demerits of a whole breaking (positions strictly increasing, last = final break).
func Demerits(items []Item, breaks []int, width float64, p Params) float64 {
	total := 0.0
	prev, prevClass := -1, 1
	for _, b := range breaks {
		l := LineOf(items, prev, b, width, p)
		bad := 100 * math.Pow(math.Abs(l.Ratio), 3)
		it := items[b]
		var d float64
		switch {
		case it.Kind == Penalty && it.Penalty >= 0:
			d = math.Pow(p.DemeritsLine+bad+it.Penalty, 2)
		case it.Kind == Penalty && it.Penalty > -p.Inf:
			d = math.Pow(p.DemeritsLine+bad, 2) - math.Pow(it.Penalty, 2)
		default:
			d = math.Pow(p.DemeritsLine+bad, 2)
		}
		pf := false
		if prev >= 0 {
			pf = items[prev].Flagged
		} else {
			pf = items[0].Flagged
		}
		if pf && it.Flagged {
			d += p.DemeritsFlagged
		}
		c := fitness(l.Ratio)
		if c-prevClass > 1 || prevClass-c > 1 {
			d += p.DemeritsFitness
		}
		total += d
		prev, prevClass = b, c
	}
	return total
}

// Result of the exhaustive search.
type Result struct {
	LegalBreaks int
	Breakings   int     // complete breakings enumerated
	Feasible    bool    // some breaking has all ratios within [-1, Tolerance]
	MinDemerits float64 // minimum total demerits among those
	Shrinkable  bool    // some breaking has all ratios >= -1
	MinMaxRatio float64 // tau*: minimum over those of their maximum ratio
	MinDemRelax float64 // minimum demerits among breakings with all ratios in [-1, tau*]
}

// Search enumerates all breakings: every subset of the optional legal breakpoints together with all
// forced breaks; the last item must be a forced break.
func Search(items []Item, width float64, p Params) Result {
	var optional, forced []int
	for b := range items {
		if !Legal(items, b, p) {
			continue
		}
		if Forced(items, b, p) {
			forced = append(forced, b)
		} else {
			optional = append(optional, b)
		}
	}
	res := Result{LegalBreaks: len(optional) + len(forced), MinDemerits: math.Inf(1), MinMaxRatio: math.Inf(1), MinDemRelax: math.Inf(1)}
	n := len(optional)
	type cand struct {
		maxR float64
		dem  float64
	}
	var relax []cand
	for mask := 0; mask < 1<<n; mask++ {
		// merge optional subset and forced into an increasing list
		breaks := make([]int, 0, n+len(forced))
		i, j := 0, 0
		for i < n || j < len(forced) {
			for i < n && mask&(1<<i) == 0 {
				i++
			}
			switch {
			case i < n && (j >= len(forced) || optional[i] < forced[j]):
				breaks = append(breaks, optional[i])
				i++
			case j < len(forced):
				breaks = append(breaks, forced[j])
				j++
			}
		}
		if len(breaks) == 0 || breaks[len(breaks)-1] != len(items)-1 {
			continue
		}
		res.Breakings++
		minR, maxR := math.Inf(1), math.Inf(-1)
		prev := -1
		for _, b := range breaks {
			r := LineOf(items, prev, b, width, p).Ratio
			if math.IsNaN(r) {
				r = math.Inf(-1)
			}
			minR, maxR = math.Min(minR, r), math.Max(maxR, r)
			prev = b
		}
		if minR >= -1 {
			res.Shrinkable = true
			d := Demerits(items, breaks, width, p)
			relax = append(relax, cand{maxR, d})
			if maxR < res.MinMaxRatio {
				res.MinMaxRatio = maxR
			}
			if maxR <= p.Tolerance {
				res.Feasible = true
				if d < res.MinDemerits {
					res.MinDemerits = d
				}
			}
		}
	}
	for _, c := range relax {
		if c.maxR <= res.MinMaxRatio*(1+1e-12)+1e-12 && c.dem < res.MinDemRelax {
			res.MinDemRelax = c.dem
		}
	}
	return res
}

// SearchDP computes, for paragraphs too long to enumerate, whether a breaking with all ratios within
// [-1, Tolerance] exists and the minimum total demerits among those, by dynamic programming over the
// states (break, fitness class of the line ending there). The total is a sum of per-line terms that
// depend only on the two breaks of the line and on the fitness class of the line before, so the
// recurrence is exact; nothing is pruned.
func SearchDP(items []Item, width float64, p Params) (feasible bool, minDem float64) {
	var legal []int
	for b := range items {
		if Legal(items, b, p) {
			legal = append(legal, b)
		}
	}
	if len(legal) == 0 || legal[len(legal)-1] != len(items)-1 {
		return false, math.Inf(1)
	}
	// best[k][c]: minimum demerits of a breaking of the items up to legal[k] whose last line has class c
	inf := math.Inf(1)
	best := make([][4]float64, len(legal))
	for k := range best {
		best[k] = [4]float64{inf, inf, inf, inf}
	}
	lineDem := func(a, b int, prevClass int) (float64, int, bool) {
		l := LineOf(items, a, b, width, p)
		if math.IsNaN(l.Ratio) || l.Ratio < -1 || l.Ratio > p.Tolerance {
			return 0, 0, false
		}
		d := Demerits1(items, a, b, l, prevClass, p)
		return d, fitness(l.Ratio), true
	}
	for k, b := range legal {
		// from the start of the paragraph
		blocked := false
		for _, m := range legal[:k] {
			if Forced(items, m, p) {
				blocked = true
			}
		}
		if !blocked {
			if d, c, ok := lineDem(-1, b, 1); ok && d < best[k][c] {
				best[k][c] = d
			}
		}
		for j := k - 1; j >= 0; j-- {
			a := legal[j]
			for pc := 0; pc < 4; pc++ {
				if best[j][pc] == inf {
					continue
				}
				if d, c, ok := lineDem(a, b, pc); ok && best[j][pc]+d < best[k][c] {
					best[k][c] = best[j][pc] + d
				}
			}
			if Forced(items, a, p) {
				break // a forced break cannot be skipped
			}
		}
	}
	minDem = inf
	for c := 0; c < 4; c++ {
		minDem = math.Min(minDem, best[len(legal)-1][c])
	}
	return minDem < inf, minDem
}

// Demerits1 is the demerits term of one line (the body of Demerits).
func Demerits1(items []Item, prev, b int, l Line, prevClass int, p Params) float64 {
	bad := 100 * math.Pow(math.Abs(l.Ratio), 3)
	it := items[b]
	var d float64
	switch {
	case it.Kind == Penalty && it.Penalty >= 0:
		d = math.Pow(p.DemeritsLine+bad+it.Penalty, 2)
	case it.Kind == Penalty && it.Penalty > -p.Inf:
		d = math.Pow(p.DemeritsLine+bad, 2) - math.Pow(it.Penalty, 2)
	default:
		d = math.Pow(p.DemeritsLine+bad, 2)
	}
	pf := false
	if prev >= 0 {
		pf = items[prev].Flagged
	} else {
		pf = items[0].Flagged
	}
	if pf && it.Flagged {
		d += p.DemeritsFlagged
	}
	c := fitness(l.Ratio)
	if c-prevClass > 1 || prevClass-c > 1 {
		d += p.DemeritsFitness
	}
	return d
}
